"""C18: generated Python data objects validate, reflect and convert faithfully."""
from __future__ import annotations

import concurrent.futures
import json
import os
import random
import struct
import subprocess
import typing

from tools.lib import core
from tools.harness.codec import dsdlgen, proto
from tools.harness.codec.target_py import PyTarget

PROP = 'C18'
FID = 'F-PY-ARRELEM'
FID_WRAP = 'F-PY-ARRWRAP'
FID_FPREC = 'F-PY-ARRWRAP-FPREC'
FID_NUM = 'F-PY-NUMTEXT'
FID_INFER = 'F-PY-PRECHECK-INFER'
FID_NPS = 'F-PY-NPSCALAR'
FID_EXC = 'F-PY-EXCCLASS'
FID_SNAN = 'F-PY-SNAN'
FID_CLASH = 'F-PY-ALIASCLASH'

MANIFEST = dict(
    technique='Coq proof (induction over operation sequences) about a hand model of the generated Python classes whose template facts and '
              'pick_width are re-extracted from /repo on every run; extracted-model vs. real generated classes correspondence on random '
              'operation sequences',
    text='Theorems in coq/theories/Properties/C18.v about Gen/PyObj.v instantiated with Generated/Gen_PyObj.v: the default constructor succeeds for '
         'every type of every well-formed database (no totalised start state); for every sequence of constructor / property-setter / '
         'update_from_builtin operations the object is an instance of its class and honours the full contract (scalars in range, array '
         'dtype/length legal, integer elements within the DSDL range, a union holds exactly one option, recursively); for sequences that ALSO '
         'write through getter-returned ndarrays, slice views, aliases of caller arrays (`o.a[j] = v`, `o.a += z`) and nested setters, the '
         'storage-level contract survives and the DSDL element range of non-standard-width integer arrays is refuted by witness (the setter '
         'aliases exactly on the same-dtype fast path, proved); a raising setter leaves the object unchanged; scalar/length checks are exact '
         '(fact read-back of the scanner); a foreign-dtype ndarray is stored unchanged and within the field range (F-PY-ARRWRAP fixed); '
         'REJECT direction: for every array field and candidate value assign_array (with the facts of all fixes) stores a contract-satisfying '
         'value or raises, and raises exactly when the decidable `arr_accepts` is false (bytes for ALL texts, text for arrays without a bytes '
         'branch, float16/32 elements beyond the maximum); the landed fixes are REQUIRED by C18_fix_flags_live, the two open ones are recorded in '
         'C18_open_findings_state (flip when they land); '
         'to_builtin -> update_from_builtin reproduces every object (all types), f_round is idempotent so this composes with histories; '
         '`restore (filter_pickle m) = m` under explicit library laws; pick_width picks the least standard width.  Statements about earlier '
         'code states are in coq/theories/History/C18_history.v.  Tie: pick_width is translated, base.j2 is scanned (15 structural facts), '
         'filter_pickle / _restore_constant_ / the `_MODEL_` lines and the reflection functions of nunavut_support.j2 are shape-pinned, all '
         're-checked at every run; the extracted model and the real generated classes (real nnvg, NumPy) are compared on the same operation '
         'sequences (incl. in-place, aliasing, nested writes) on accept/raise and the complete object state after every operation, on builtin '
         'round trips (state and bytes), serialized size within the bit length set, `_MODEL_`/get_class/get_model for every type and object, '
         'and the assumed NumPy laws are swept at the dtype edges.',
    note='PARTIAL: `_MODEL_` equality rests on library laws stated as hypotheses (pickle/gzip/base85 round trips) plus correspondence; the '
         'serialized-size bound and byte equality of the round trip are checked by correspondence only (the type model of PyObj.v has no '
         'padding/extent information; state equality is what the round-trip theorem claims).  Read-only arrays (np.frombuffer of bytes), NumPy '
         'scalars inside lists, element writes through `o.arr_of_composites[k].x` and direct `_x` writes are outside the op alphabet.  The builtin round trip '
         'is a theorem for all types (nested composites, arrays of composites, float16/32 arrays) under decidable premises each shown '
         'necessary by a counterexample; one of them -- float16/32 array elements are representable in their storage type -- is true of '
         'everything NumPy stores but is not proved for reachable model states (needs idempotence of the rounding model) and is validated by '
         'the correspondence run.  Elements of composite arrays are not isinstance-checked by the template (stated as a theorem, outside the '
         'property text).  The support-library functions are tied by a shape pin, not translated.  Trusted: Coq kernel; the scanner and the pick_width translator (tools/translators/gen_c18.py); '
         'the hand model of NumPy conversion (np.array/flatten incl. the ASSUMED NumPy 2 law: C-cast wrap-around for ndarrays of another dtype, OverflowError for out-of-range Python ints; rounding to float16/32, int()/float()/bool()) which is validated by the '
         'correspondence run, not verified; extraction (ExtrOcamlBasic only) + ocaml/c18_driver.ml; tools/harness/c18_impl.py and the codec '
         'harness Python target.  Model domain: text handed to int()/float() is ASCII (CPython grammar incl. underscores, white space, inf/nan, correctly rounded decimals; the string parser of NumPy itself for text beyond the dtype is outside), nesting of list arguments is '
         'rectangular or ragged at depth <= 2, values reach setters as Python built-ins or 1-d NumPy arrays.',
    design='§5 C18')

PROBE_FILES = {
    'c18p/Inner.1.0.dsdl': 'uint4 a\nint12 b\n@sealed\n',
    'c18p/U.1.0.dsdl': '@union\nuint4 a\nfloat16 f\nInner.1.0 c\nuint8[<=3] v\n@sealed\n',
    'c18p/E.1.0.dsdl': '@sealed\n',
    'c18p/D.1.0.dsdl': 'uint7[<=2] x\nE.1.0 e\n@extent 64 * 8\n',
    'c18p/S.1.0.dsdl': ('bool flag\nuint4 n4\ntruncated uint4 t4\nint12 i12\nuint64 u64\nint64 i64\nfloat16 f16\nfloat32 f32\nfloat64 f64\n'
                        'uint4[<=3] va4\nuint8[<=4] va8\nutf8[<=5] s\nbyte[3] fb\nint5[2] fi5\nfloat16[<=2] vf16\nfloat32[2] ff32\nfloat64[<=2] vf64\n'
                        'bool[<=5] vb\nint16[<=3] vi16\nuint17[<=2] vu17\nuint64[<=3] vu64\nInner.1.0 inner\nInner.1.0[2] fin\nU.1.0[<=2] vu\nU.1.0 u\nvoid3\nD.1.0 d\n'
                        '@extent 2048 * 8\n'),
    # the same short name and version in two namespaces (class lookup by model must keep them apart)
    'c18p/geo/Point.1.0.dsdl': 'int8 x\nint8 y\n@sealed\n',
    'c18p/img/Point.1.0.dsdl': 'uint16 u\nfloat32 v\nbool ok\n@sealed\n',
    'c18p/Pair.1.0.dsdl': 'c18p.geo.Point.1.0[<=2] g\nc18p.img.Point.1.0[<=2] i\nc18p.geo.Point.1.0 a\nc18p.img.Point.1.0 b\n@sealed\n',
    'c18p/PairU.1.0.dsdl': '@union\nuint8 n\nc18p.img.Point.1.0 b\nc18p.geo.Point.1.0 a\nc18p.img.Point.1.0[<=2] i\n@sealed\n',
    # field names that are Python keywords / builtins: the generated attribute is stropped (`if_`), the DSDL name is not
    'c18p/K.1.0.dsdl': 'uint4 if\nint12 class\nfloat16 id\nuint4[<=3] min\nbool max\nuint8[<=4] range\nfloat32[2] len\nuint8 del\nInner.1.0 lambda\n@sealed\n',
    'c18p/KU.1.0.dsdl': '@union\nuint4 if\nfloat16 class\nK.1.0 id\nuint8[<=3] range\nInner.1.0[<=2] list\n@sealed\n',
    # minor versions (package alias X_1 must be the newest) and a deprecated type (its constructor warns)
    'c18p/Ver.1.0.dsdl': 'uint8 a\n@extent 64\n',
    'c18p/Ver.1.2.dsdl': 'uint8 a\nuint8 b\n@extent 64\n',
    'c18p/Ver.1.1.dsdl': 'uint8 a\n@extent 64\n',
    # minors on both sides of 10 and majors 0 / 1 / 10: 'Name.1.10' sorts before 'Name.1.9' as text
    'c18p/Status.1.2.dsdl': 'uint8 MINOR = 2\nuint8 a\n@extent 128\n',
    'c18p/Status.1.9.dsdl': 'uint8 MINOR = 9\nuint8 a\nuint8 b\n@extent 128\n',
    'c18p/Status.1.10.dsdl': 'uint8 MINOR = 10\nuint8 a\nuint8 b\nuint8 c\n@extent 128\n',
    'c18p/Status.1.11.dsdl': 'uint8 MINOR = 11\nuint8 a\nuint8 b\nuint8 c\nuint4[<=2] d\n@extent 128\n',
    'c18p/Status.0.1.dsdl': 'uint8 MINOR = 1\nuint8 a\n@sealed\n',
    'c18p/Status.0.12.dsdl': 'uint8 MINOR = 12\nuint16 a\n@sealed\n',
    'c18p/Status.10.0.dsdl': 'uint8 MINOR = 0\nuint8 a\n@sealed\n',
    'c18p/Status.10.3.dsdl': 'uint8 MINOR = 3\nbool a\n@sealed\n',
    'c18p/Dep.1.0.dsdl': '@deprecated\nuint4[<=2] x\nInner.1.0 y\n@sealed\n',
    'c18p/Svc.1.0.dsdl': 'uint4[<=2] q\nU.1.0 u\n@sealed\n---\nfloat16 r\nInner.1.0[<=2] l\n@extent 100 * 8\n',
}

TEXT = 'bcdgh xyz0123456789_+-. e'      # incl. everything int()/float() text is made of
NUMTEXT = ['123', '12', '7', '0', ' 12 ', '1_0', '+7', '-5', '0000123', '00', '255', '256', '300', '65535', '-1', '0x10', '1e3', '1.5', '2.5', '.5',
           '5.', '1_0.5', '-1_0.5e1', '1e-3', '0.1', '3.14159', 'nan', 'inf', '-Infinity', 'INF', '1e', '.', '', ' ', '1__0', '_1', '1_', '12a', '\t7\n',
           '1e22', '70000', '1e6', '65519.9', '1 2', '--1', '+-1', '9' * 25]


# ---------------------------------------------------------------------------------------------------------------------
# JSON value / expression constructors and their s-expression form for the model driver
# ---------------------------------------------------------------------------------------------------------------------

def vi(z: int) -> dict:
    return {'i': str(z)}


def f64(x: float) -> int:
    return struct.unpack('<Q', struct.pack('<d', x))[0]


def vf(x: float) -> dict:
    return {'f': '%x' % f64(x)}


def vs(s: str) -> dict:
    return {'s': [ord(c) for c in s]}


def vy(b: bytes) -> dict:
    return {'y': list(b)}


def lit(v) -> dict:
    return {'v': v}


def codes(l) -> str:
    return '.'.join(str(c) for c in l) or '_'


def sx_v(v) -> str:
    if v is None:
        return 'N'
    if v is True:
        return 'T'
    if v is False:
        return 'F'
    if 'i' in v:
        return 'i' + v['i']
    if 'f' in v:
        return 'f' + v['f']
    if 's' in v:
        return 's' + codes(v['s'])
    if 'y' in v:
        return 'y' + codes(v['y'])
    if 'l' in v:
        return '(l%s)' % ''.join(' ' + sx_v(e) for e in v['l'])
    if 'd' in v:
        return '(d%s)' % ''.join(' (%d %s)' % (k, sx_v(e)) for k, _, e in v['d'])
    raise ValueError(v)


def sx_x(x) -> str:
    if 'v' in x:
        return '(v %s)' % sx_v(x['v'])
    if 'l' in x:
        return '(l%s)' % ''.join(' ' + sx_x(e) for e in x['l'])
    if 'd' in x:
        return '(d%s)' % ''.join(' (%d %s)' % (k, sx_x(e)) for k, _, e in x['d'])
    if 'np' in x or 'nd0' in x:      # model: a one-element array stands for a NumPy scalar / 0-d array
        return '(nd %s %s)' % (x.get('np') or x.get('nd0'), sx_x(x['x']))
    if 'tuple' in x:
        return '(l%s)' % ''.join(' ' + sx_x(e) for e in x['tuple'])
    if 'f32bits' in x:
        return '(nd f32%s)' % ''.join(' (v f%x)' % f64(struct.unpack('<f', struct.pack('<I', b_))[0]) if True else '' for b_ in x['f32bits'])
    if 'nd' in x:
        return '(nd %s%s)' % (x['nd'], ''.join(' ' + sx_x(e) for e in x['e']))
    if 'new' in x:
        return '(new %d%s)' % (x['new'], ''.join(' ' + sx_x(e) for e in x['kw']))
    raise ValueError(x)


def sx_op(op) -> str:
    if 'setin' in op:
        return '(setin (%s) %d %s)' % (' '.join(map(str, op['setin'])), op['i'], sx_x(op['x']))
    if 'mut' in op:
        return '(mut (%s) %d %d %s)' % (' '.join(map(str, op['mut'])), op['i'], op['j'], sx_x(op['x']))
    if 'iadd' in op:
        return '(iadd (%s) %d %s)' % (' '.join(map(str, op['iadd'])), op['i'], op['z'])
    if 'alias' in op:
        return '(alias %d %s %d %s)' % (op['alias'], sx_x(op['a']), op['j'], sx_x(op['x']))
    if 'set' in op:
        return '(set %d %s)' % (op['set'], sx_x(op['x']))
    if 'ufb' in op:
        return '(ufb %s)' % sx_x(op['ufb'])
    return '(ctor%s)' % ''.join(' ' + sx_x(e) for e in op['ctor'])


# ---------------------------------------------------------------------------------------------------------------------
# type database in model form
# ---------------------------------------------------------------------------------------------------------------------

def std_width(w: int) -> int:
    return 8 if w <= 8 else 16 if w <= 16 else 32 if w <= 32 else 64


class MDB:
    """model view of an astdump document: composites in dependency order, non-padding fields only"""

    def __init__(self, doc: dict):
        comps = {c['id']: c for c in doc['types']}
        order: typing.List[str] = []
        seen: typing.Set[str] = set()

        def refs(t):
            if t['k'] == 'ref':
                yield t['id']
            elif t['k'] in ('farr', 'varr'):
                yield from refs(t['elem'])

        def visit(cid):
            if cid in seen:
                return
            seen.add(cid)
            for f in comps[cid]['fields']:
                for r in refs(f['type']):
                    visit(r)
            order.append(cid)

        for cid in sorted(comps):
            visit(cid)
        self.order = order
        self.index = {cid: i for i, cid in enumerate(order)}
        self.comps = [comps[cid] for cid in order]
        self.fields = [[f for f in c['fields'] if f['name'] != ''] for c in self.comps]
        self.union = [c['kind'] == 'union' for c in self.comps]

    def etype(self, t) -> str:
        k = t['k']
        if k == 'bool':
            return 'b'
        if k == 'uint':
            return 'u%d' % t['w']
        if k == 'int':
            return 'i%d' % t['w']
        if k == 'float':
            return 'f%d' % t['w']
        if k == 'ref':
            return 'c%d' % self.index[t['id']]
        raise ValueError(k)

    def ftype(self, t) -> str:
        if t['k'] == 'farr':
            return '(A 1 %d 0 %s)' % (t['n'], self.etype(t['elem']))
        if t['k'] == 'varr':
            return '(A 0 %d %d %s)' % (t['cap'], 1 if t.get('string_like') else 0, self.etype(t['elem']))
        return '(S %s)' % self.etype(t)

    def line(self) -> str:
        return 'db ' + ' '.join('(%s%s)' % ('u' if u else 's', ''.join(' ' + self.ftype(f['type']) for f in fs))
                                for u, fs in zip(self.union, self.fields))


def int_range(t) -> typing.Tuple[int, int]:
    w = t['w']
    return (0, 2 ** w - 1) if t['k'] == 'uint' else (-2 ** (w - 1), 2 ** (w - 1) - 1)


def storage_range(t) -> typing.Tuple[int, int]:
    w = std_width(t['w'])
    return (0, 2 ** w - 1) if t['k'] == 'uint' else (-2 ** (w - 1), 2 ** (w - 1) - 1)


def dt_name(t) -> str:
    k = t['k']
    if k == 'bool':
        return 'b'
    if k == 'uint':
        return 'u%d' % std_width(t['w'])
    if k == 'int':
        return 'i%d' % std_width(t['w'])
    if k == 'float':
        return 'f%d' % t['w']
    return 'o'


FMAX = {16: 65504.0, 32: 3.4028234663852886e38}


def next_up(x: float) -> float:
    return struct.unpack('<d', struct.pack('<Q', f64(x) + 1))[0]


# ---------------------------------------------------------------------------------------------------------------------
# generation of values: (X, expect, tags)   expect in {'accept', 'reject', None}
# ---------------------------------------------------------------------------------------------------------------------

class Gen:
    def __init__(self, rng: random.Random, mdb: MDB):
        self.rng = rng
        self.m = mdb

    # ---- scalars
    def int_scalar(self, t, valid_only=False):
        r = self.rng
        lo, hi = int_range(t)
        c = r.randrange(5 if valid_only else 16)
        if c == 0:
            return lit(vi(lo)), 'accept', {'int_lo'}
        if c == 1:
            return lit(vi(hi)), 'accept', {'int_hi'}
        if c in (2, 3, 4):
            return lit(vi(r.randint(lo, hi))), 'accept', {'int_in'}
        if c == 5:
            return lit(vi(lo - 1)), 'reject', {'int_below'}
        if c == 6:
            return lit(vi(hi + 1)), 'reject', {'int_above'}
        if c == 7:
            return lit(vi(r.choice([hi + 2 ** 70, lo - 2 ** 70, hi * 2 + 5]))), 'reject', {'int_far'}
        if c == 8:
            return lit(vf(r.choice([3.7, -0.5, 0.0, float(min(hi, 2 ** 52)), 1e300]))), None, {'int_from_float'}
        if c == 9:
            x_ = r.choice([float('nan'), float('inf'), float('-inf')])
            return lit(vf(x_)), 'reject', {'int_from_nonfinite'}
        if c == 10:
            return lit(r.choice([True, False])), None, {'int_from_bool'}
        if c == 11:
            return lit(None), None, {'none'}
        if c == 12:
            txt = r.choice(['x', 'bcd', 'g h'] + NUMTEXT)
            return lit(r.choice([vs(txt), vy(txt.encode())])), None, {'str', 'scalar_numtext'}
        if c == 13:
            return lit({'l': [vi(1)]}), None, {'list'}
        if c == 14:
            return lit({'d': []}), None, {'dict'}
        return lit(vy(b'xy')), None, {'bytes'}

    def float_scalar(self, t, valid_only=False):
        r = self.rng
        w = t['w']
        c = r.randrange(5 if valid_only else 16)
        mx = FMAX.get(w)
        if c in (0, 1, 2):
            x = r.choice([0.0, -0.0, 1.5, -2.25, 1e-8, 0.1, 5e-324, 1024.0, r.uniform(-1000, 1000), 65504.0, -65504.0])
            return lit(vf(x)), 'accept', {'float_in'}
        if c == 3:
            x = mx if mx else 1.7976931348623157e308
            return lit(vf(r.choice([x, -x]))), 'accept', {'float_max'}
        if c == 4:
            return lit(vi(r.randint(-1000, 1000))), 'accept', {'float_from_int'}
        if c in (5, 6):
            if mx:
                # incl. finite values above the maximum that ROUND to the maximum in the NumPy storage type
                near = [65505.0, 65519.9, 65512.0, -65511.99] if w == 16 else [mx + 2.0 ** 102, -(mx + 2.0 ** 102), mx + 2.0 ** 103 - 2.0 ** 76]
                x = r.choice([next_up(mx), -next_up(mx), mx * 1.5, 1e39 if w == 32 else 1e6, float(2 ** 70) if w == 16 else 1e300] + near)
                return lit(vf(x)), 'reject', {'float_out'}
            return lit(vf(1e308)), 'accept', {'float_in'}
        if c == 7:
            return lit(vf(r.choice([float('inf'), float('-inf')]))), None, {'float_inf'}
        if c == 8:
            return lit(vf(float('nan'))), None, {'float_nan'}
        if c == 9:
            z_ = r.choice([2 ** 70, 10 ** 400, -10 ** 400, 2 ** 53 + 1])
            return lit(vi(z_)), ('reject' if (abs(z_) > 10 ** 300 or (mx and abs(z_) > mx)) else None), {'float_from_bigint'}
        if c == 10:
            return lit(r.choice([True, False])), None, {'float_from_bool'}
        if c == 11:
            return lit(None), None, {'none'}
        if c == 12:
            txt = r.choice(['x', 'bcd'] + NUMTEXT)
            return lit(r.choice([vs(txt), vy(txt.encode())])), None, {'str', 'scalar_numtext'}
        if c == 13:
            return lit({'l': [vf(1.0)]}), None, {'list'}
        if c == 14:
            return lit({'d': []}), None, {'dict'}
        return lit(vy(b'xy')), None, {'bytes'}

    def bool_scalar(self, valid_only=False):
        r = self.rng
        c = r.randrange(3 if valid_only else 9)
        v = [True, False, vi(1), vi(0), vi(-5), vf(0.0), vf(float('nan')), None, vs('x'), {'l': []}, {'l': [vi(0)]}, vs(''), {'d': []}][
            c if c < 3 else r.randrange(13)]
        return lit(v), 'accept', {'bool_any'}

    # ---- composites
    def new(self, tid: int, valid: bool, depth: int = 0):
        """X constructing an instance of model type tid; valid -> every argument is legal"""
        r = self.rng
        fs = self.m.fields[tid]
        kw = [lit(None)] * len(fs)
        ok = True
        if self.m.union[tid]:
            n = 1 if valid else r.choice([0, 1, 1, 1, 1, 2])
            picks = r.sample(range(len(fs)), min(n, len(fs)))
            if len(picks) > 1:
                ok = False
        else:
            picks = [i for i in range(len(fs)) if r.random() < (0.6 if depth < 2 else 0.3)]
        for i in picks:
            x, exp, _ = self.field(fs[i]['type'], valid_only=valid or r.random() < 0.8, depth=depth + 1)
            for _ in range(8):
                if not valid or exp == 'accept':
                    break
                x, exp, _ = self.field(fs[i]['type'], valid_only=True, depth=depth + 1)
            kw[i] = x
            if exp != 'accept':
                ok = False
            if x == lit(None):
                kw[i] = lit(None)
        return {'new': tid, 'kw': kw}, ok

    def comp_scalar(self, t, valid_only=False, depth=0):
        r = self.rng
        tid = self.m.index[t['id']]
        c = r.randrange(3 if valid_only else 8)
        if c < 3:
            x, ok = self.new(tid, valid=True, depth=depth)
            return x, 'accept', {'comp_ok'}
        if c == 3:
            x, ok = self.new(tid, valid=False, depth=depth)
            return x, ('accept' if ok else None), {'comp_mixed'}
        if c == 4:
            others = [i for i in range(len(self.m.comps)) if i != tid]
            if others:
                x, _ = self.new(r.choice(others), valid=True, depth=3)
                return x, 'reject', {'comp_wrong_class'}
            return lit(vi(5)), 'reject', {'comp_wrong_type'}
        if c == 5:
            return lit(None), 'reject', {'comp_none'}
        if c == 6:
            return lit(r.choice([vi(5), vs('x'), {'l': []}])), 'reject', {'comp_wrong_type'}
        return lit({'d': []}), 'reject', {'comp_wrong_type'}

    # ---- arrays
    def length(self, t, legal: bool) -> int:
        r = self.rng
        if t['k'] == 'farr':
            n = t['n']
            if legal:
                return n
            return r.choice([x for x in (0, n - 1, n + 1, n + 3) if x >= 0 and x != n])
        cap = t['cap']
        if legal:
            return r.choice([0, cap, min(1, cap), r.randint(0, cap), r.randint(0, min(cap, 6))])
        return r.choice([cap + 1, cap + 2, cap * 2 + 1])

    ND_DTYPES = ['u8', 'i8', 'u16', 'i16', 'u32', 'i32', 'u64', 'i64', 'f16', 'f32', 'f64', 'b']

    def nd_any(self, t, n, legal, tags):
        """numpy.array([...], <any dtype>) for an array field of primitives: narrower, equal, wider, other signedness, float, bool"""
        r = self.rng
        et = t['elem']
        src = r.choice(self.ND_DTYPES)
        tags = set(tags) | {'nd_src_' + src}
        exp = 'accept' if legal else 'reject'
        if src == 'b':
            return {'nd': 'b', 'e': [lit(r.choice([True, False])) for _ in range(n)]}, exp, tags
        if src[0] == 'f':
            w = int(src[1:])
            if et['k'] in ('uint', 'int'):
                lo, hi = int_range(et)
                vals = [float(r.randint(max(lo, -1000), min(hi, 1000))) + r.choice([0.0, 0.0, 0.25 if w > 16 else 0.0]) for _ in range(n)]
                vals = [v if lo <= v <= hi else float(int(v)) for v in vals]
                if n and r.random() < 0.3:
                    bad = [v for v in (float(hi) + 1.0, float(lo) - 1.0, float(hi) + 300.0, -3.0) if not lo <= v <= hi and abs(v) < 60000]
                    if bad:
                        vals[r.randrange(n)] = r.choice(bad)
                # what the source ndarray really holds (float16/32 round the literals)
                fmt = {16: '<e', 32: '<f', 64: '<d'}[w]
                vals = [struct.unpack(fmt, struct.pack(fmt, v))[0] for v in vals]
                def rb(z):      # the bound as NumPy compares it: converted to the dtype of the source array
                    try:
                        return struct.unpack(fmt, struct.pack(fmt, float(z)))[0]
                    except OverflowError:
                        return float('inf') if z > 0 else float('-inf')
                if n and w < 64 and r.random() < 0.15 and float(hi) + 1.0 == rb(hi) and hi < 2 ** 32:
                    vals = [float(r.randint(max(lo, -100), min(hi, 100))) for _ in vals]
                    vals[r.randrange(n)] = float(hi) + 1.0          # out of range, but == the bound after rounding it to the source dtype
                if any(v != int(v) for v in vals if v == v and abs(v) != float('inf')):
                    tags.add('nonintegral')       # truncated before the NPSCALAR fix, rejected after it
                    exp = None if exp == 'accept' else exp
                if any(not lo <= v <= hi for v in vals):
                    tags.add('arrwrap')
                    exp = 'reject'
                    if all(rb(lo) <= v <= rb(hi) for v in vals) and std_width(et['w']) == et['w']:
                        tags.add('arrwrap_fprec')
                return {'nd': src, 'e': [lit(vf(v)) for v in vals]}, exp, tags
            pool = [0.0, 1.5, -2.25, 0.5, 1024.0, 65504.0] + ([1e6, 1e-30] if w > 16 else []) + ([1e39, 1e300] if w > 32 else [])
            vals = [r.choice(pool) * r.choice([1, -1]) for _ in range(n)]
            if et['k'] == 'float' and et['w'] < 64 and any(abs(v) > FMAX[et['w']] for v in vals):
                tags.add('arrelem_float')
                exp = 'reject'
            return {'nd': src, 'e': [lit(vf(v)) for v in vals]}, exp, tags
        w = int(src[1:])
        slo, shi = (0, 2 ** w - 1) if src[0] == 'u' else (-2 ** (w - 1), 2 ** (w - 1) - 1)
        if et['k'] in ('uint', 'int'):
            lo, hi = int_range(et)
            a, b_ = max(lo, slo), min(hi, shi)
            vals = [r.choice([a, b_, r.randint(a, b_)]) if a <= b_ else slo for _ in range(n)]
            outside = [v for v in (hi + 1, lo - 1, shi, slo, hi + 256, lo - 256, hi * 2 + 1) if slo <= v <= shi and not lo <= v <= hi]
            if n and (a > b_ or (outside and r.random() < 0.4)):
                vals[r.randrange(n)] = r.choice(outside) if outside else slo
            if any(not lo <= v <= hi for v in vals):
                same = src == dt_name(et)
                tags.add('arrelem' if same else 'arrwrap')      # same storage dtype: fast binding (non-standard width only)
                exp = 'reject'
        elif et['k'] == 'float':
            vals = [r.choice([v for v in (0, 1, -3, 1000, shi, slo) if slo <= v <= shi]) for _ in range(n)]
            if et['w'] < 64 and any(abs(v) > FMAX[et['w']] for v in vals):
                tags.add('arrelem_float')
                exp = 'reject'
        else:
            vals = [r.choice([0, 1, 2, shi]) for _ in range(n)]
        return {'nd': src, 'e': [lit(vi(v)) for v in vals]}, exp, tags

    def npmix(self, t, n, legal, tags):
        """a list / tuple / bare value holding NumPy scalars, 0-d arrays, nested ndarrays and Python numbers, mixed"""
        r = self.rng
        et = t['elem']
        tags = set(tags) | {'npmix'}
        exp = 'accept' if legal else 'reject'
        bad = nonint = False

        def one():
            nonlocal bad, nonint
            src = r.choice(['py', 'py', 'i64', 'u64', 'i8', 'u8', 'u16', 'i32', 'f64', 'f32', 'f16', 'b'])
            if et['k'] in ('uint', 'int'):
                lo, hi = int_range(et)
                v = r.choice([lo, hi, r.randint(lo, hi), r.randint(max(lo, -50), min(hi, 50)), hi + 1, lo - 1, hi + 45, 300, -1])
            elif et['k'] == 'float':
                v = r.choice([0, 1, -3, 1000, 70000, 10 ** 6])
            else:
                v = r.choice([0, 1, 2])
            if src == 'py':
                x = lit(r.choice([vi(v), vf(float(v))]) if abs(v) < 2 ** 52 else vi(v))
            elif src == 'b':
                v = v % 2
                x = {'np': 'b', 'x': lit(bool(v))}
            elif src[0] == 'f':
                w = int(src[1:])
                fv = float(v) + (r.choice([0.0, 0.0, 0.0, 0.5]) if abs(v) < 1000 else 0.0)
                fmt = {16: '<e', 32: '<f', 64: '<d'}[w]
                try:
                    fv = struct.unpack(fmt, struct.pack(fmt, fv))[0]
                except OverflowError:
                    fv = 1.0
                if fv != int(fv):
                    nonint = True
                v = fv
                x = {r.choice(['np', 'np', 'nd0']): src, 'x': lit(vf(fv))}
            else:
                slo, shi = dt_range(src)
                v = max(slo, min(shi, v))
                x = {r.choice(['np', 'np', 'nd0']): src, 'x': lit(vi(v))}
            if et['k'] in ('uint', 'int') and not int_range(et)[0] <= v <= int_range(et)[1]:
                bad = True
            if et['k'] == 'float' and et['w'] < 64 and abs(v) > FMAX[et['w']]:
                bad = True
            return x

        form = r.choice(['list', 'list', 'list', 'tuple', 'nested_nd', 'bare'])
        if form == 'bare' or n == 0:
            x = one()
            ok1 = (t['n'] == 1) if t['k'] == 'farr' else (t['cap'] >= 1)
            exp = 'accept' if ok1 else 'reject'
            tags = {'npmix', 'np_bare'}
        elif form == 'nested_nd' and n >= 2 and n % 2 == 0 and et['k'] != 'bool':
            src = r.choice(['f64', 'i64', 'f32', 'u16'])
            halves = []
            for _ in range(2):
                es = []
                for _ in range(n // 2):
                    e = one()
                    inner = e.get('x', e)
                    es.append(inner if 'v' in inner else lit(vi(0)))
                halves.append({'nd': src, 'e': es})
            x = {'l': halves}
            tags.add('np_nested_nd')
            bad = bad or True if False else bad
        else:
            elems = [one() for _ in range(n)]
            x = {'tuple': elems} if form == 'tuple' else {'l': elems}
        if et['k'] in ('uint', 'int') and nonint:
            exp = None                       # a non-integral float: truncated before the NPSCALAR fix, rejected after it
            tags.add('nonintegral')
        if bad:
            exp = 'reject'
            tags.add('npscalar')
        if 'np_nested_nd' in tags:
            exp = None if not bad else 'reject'   # values pass through the dtype of the nested arrays: only the clear cases are judged
            if bad:
                exp = None
        return x, exp, tags

    def array(self, t, valid_only=False, depth=0):
        r = self.rng
        et = t['elem']
        k = et['k']
        fixed = t['k'] == 'farr'
        strlike = bool(t.get('string_like'))
        legal = valid_only or r.random() < 0.7
        n = self.length(t, legal)
        tags = {'arr_len_legal' if legal else ('arr_len_fixed_wrong' if fixed else 'arr_over_capacity')}
        exp = 'accept' if legal else 'reject'
        if not valid_only and k in ('uint', 'int', 'bool', 'float') and n <= 300 and r.random() < 0.2:
            return self.nd_any(t, n, legal, tags)
        if not valid_only and k in ('uint', 'int', 'float', 'bool') and n <= 12 and r.random() < 0.12:
            return self.npmix(t, n, legal, tags)
        if not valid_only and k in ('int', 'bool', 'float') and r.random() < 0.06:
            txt = r.choice(NUMTEXT)          # whole-value text for an array that cannot be string-like: never an array
            return lit(r.choice([vs(txt), vy(txt.encode())])), 'reject', {'numtext', 'arr_text_' + k}
        if not valid_only and k in ('uint', 'int', 'float') and n and r.random() < 0.04:
            good = {'uint': ['1', ' 2 ', '0_0', '+0'], 'int': ['1', '-1', ' 2 ', '0_0'], 'float': ['1.5', '1e1', ' -2.5 ', '.5', 'nan', 'inf', '0.1']}[k]
            good = [g for g in good if k == 'float' or int_range(et)[0] <= int(g.replace('_', '')) <= int_range(et)[1]]
            if good:                       # text ELEMENTS of a list are parsed one by one by NumPy (int() / float())
                return lit({'l': [r.choice([vs(r.choice(good)), vy(r.choice(good).encode())]) for _ in range(n)]}), None, tags | {'elem_numtext'}
        if n > 400:
            n = 400 if not legal and not fixed and t['cap'] < 400 else n
        if k in ('uint', 'int'):
            lo, hi = int_range(et)
            slo, shi = storage_range(et)
            nonstd = (lo, hi) != (slo, shi)
            mode = 'valid' if valid_only else r.choice(['valid'] * 5 + ['trigger', 'trigger', 'overflow', 'floaty', 'bools', 'none', 'strel'])
            if mode == 'trigger' and not nonstd:
                mode = 'valid'
            elems = [r.choice([lo, hi, r.randint(lo, hi), r.randint(lo, hi)]) for _ in range(n)]
            if n == 0 and mode != 'valid':
                mode = 'valid'
            form = 'list' if valid_only and r.random() < 0.6 else r.choice(['list', 'list', 'list', 'bytes', 'str', 'nd', 'nd_other', 'scalar', 'nested', 'ragged'])
            if mode == 'trigger':
                j = r.randrange(n)
                cands = [v for v in (hi + 1, shi, lo - 1, slo, r.randint(slo, shi)) if slo <= v <= shi and not lo <= v <= hi]
                elems[j] = r.choice(cands)
                tags.add('arrelem')
                exp = 'reject'
                form = r.choice(['list', 'list', 'bytes', 'nd', 'nested']) if form in ('str', 'scalar', 'ragged', 'nd_other') else form
            elif mode == 'overflow':
                elems[r.randrange(n)] = r.choice([shi + 1, slo - 1, shi + 2 ** 70])
                tags.add('elem_storage_overflow')
                exp = 'reject'
                form = 'list'
            if mode in ('floaty', 'bools', 'none', 'strel'):
                tags.add('elem_' + mode)
                exp = None
                if mode == 'floaty' and any(abs(e) >= 2 ** 52 for e in elems):
                    mode = 'bools'      # a list mixing floats with ints beyond 2**53 is inferred as float64 by np.asarray: outside the model
                if mode == 'floaty':
                    return lit({'l': [vf(float(e) + (0.5 if 0 <= e < shi else 0.0)) if abs(e) < 2 ** 52 else vi(e) for e in elems]}), None, tags
                if mode == 'bools':
                    return lit({'l': [r.choice([True, False]) for _ in elems]}), (exp if not legal else None), tags
                if mode == 'none':
                    return lit({'l': [vi(e) for e in elems[:-1]] + [None]}), None, tags
                return lit({'l': [vi(e) for e in elems[:-1]] + [vs('x')]}), None, tags
            # container forms
            if form == 'bytes' and et['k'] == 'uint' and et['w'] <= 8 and all(0 <= e <= 255 for e in elems):
                tags.add('arr_bytes')
                if not legal:
                    if elems and r.random() < 0.6:      # text that int() can parse: must still be rejected for its length (F-PY-NUMTEXT)
                        # exactly len(elems) bytes -- the ILLEGAL length chosen above must be kept (an empty value stays empty)
                        txt_ = (r.choice(['0', '00', ' ', '']) + r.choice(['1', '12', '123', '7', '1_0']) + r.choice(['', ' ', '  ']))
                        elems = [ord(c) for c in txt_.ljust(len(elems), ' ')[:len(elems)]]
                        tags.add('numtext')
                    if mode == 'trigger':
                        tags.discard('arrelem')
                return lit(vy(bytes(elems))), exp, tags
            if form == 'str' and mode == 'valid':
                s = ''.join(r.choice(TEXT) for _ in range(n))
                if r.random() < 0.4:
                    s = r.choice(NUMTEXT)
                    if strlike:
                        s = s.rjust(n, r.choice('0 ')) if len(s) < n else s
                        legal = (len(s.encode()) == t['n']) if fixed else (len(s.encode()) <= t['cap'])
                        exp = 'accept' if legal else 'reject'
                        tags = {'arr_len_legal' if legal else 'arr_over_capacity', 'numtext'}
                    else:
                        tags = tags | {'numtext'}
                if strlike and 'numtext' not in tags and r.random() < 0.15 and (t['cap'] if not fixed else t['n']) >= 1:
                    # the CHARACTER count fits, the UTF-8 byte count does not: the capacity is about bytes
                    c_ = t['n'] if fixed else t['cap']
                    s = r.choice(['é', 'ж', '€', '😀']) * max(1, (c_ + 1) // 2 if c_ > 1 else 1)
                    if len(s.encode()) > c_ or (fixed and len(s.encode()) != c_):
                        return lit(vs(s)), 'reject', {'arr_str', 'str_utf8_overflow'}
                if strlike:
                    if r.random() < 0.2 and n >= 2 and 'numtext' not in tags and s.isascii():
                        s = s[:n - 2] + 'é'
                    # whatever was done to the text above: the capacity is about the BYTES of its UTF-8 encoding
                    nb = len(s.encode())
                    legal_b = (nb == t['n']) if fixed else (nb <= t['cap'])
                    tags = (tags - {'arr_len_legal', 'arr_over_capacity', 'arr_len_fixed_wrong'}) | {
                        'arr_str', 'arr_len_legal' if legal_b else ('arr_len_fixed_wrong' if fixed else 'arr_over_capacity')}
                    if not legal_b:
                        return lit(vs(s)), 'reject', tags
                    if any(not lo <= b <= hi for b in s.encode()):
                        return lit(vs(s)), None, tags
                    return lit(vs(s)), 'accept', tags
                # a str for an array that is not string-like: "text is not a number" -> the contract says it raises
                tags.add('arr_str_nonstring')
                return lit(r.choice([vs(s), vy(s.encode())]) if not (et['k'] == 'uint' and et['w'] <= 8) else vs(s)), 'reject', tags | {'numtext'}
            if form == 'nd':
                tags.add('arr_ndarray')
                return {'nd': dt_name(et), 'e': [lit(vi(e)) for e in elems]}, exp, tags
            if form == 'nd_other' and mode == 'valid':
                other = r.choice([d for d in ('u8', 'i16', 'u32', 'i64') if d != dt_name(et)])
                w = int(other[1:])
                olo, ohi = (0, 2 ** w - 1) if other[0] == 'u' else (-2 ** (w - 1), 2 ** (w - 1) - 1)
                if all(olo <= e <= ohi for e in elems):
                    tags.add('arr_ndarray_other_dtype')
                    return {'nd': other, 'e': [lit(vi(e)) for e in elems]}, exp, tags
            if form == 'scalar' and mode == 'valid':
                tags = {'arr_from_scalar'}
                v = r.randint(lo, hi)
                ok1 = (t['n'] == 1) if fixed else (t['cap'] >= 1)
                return lit(vi(v)), ('accept' if ok1 else 'reject'), tags
            if form == 'nested' and n >= 2 and n % 2 == 0:
                tags.add('arr_nested')
                h = n // 2
                return lit({'l': [{'l': [vi(e) for e in elems[:h]]}, {'l': [vi(e) for e in elems[h:]]}]}), exp, tags
            if form == 'ragged' and n >= 2 and mode == 'valid':
                tags = {'arr_ragged'}
                return lit({'l': [{'l': [vi(e) for e in elems[:1]]}, {'l': [vi(e) for e in elems[:2]] + [vi(lo)]}]}), None, tags
            return lit({'l': [vi(e) for e in elems]}), exp, tags
        if k == 'bool':
            vals = [self.rng.choice([True, False, vi(2), vi(0), vf(1.5), None]) for _ in range(n)]
            if valid_only:
                vals = [self.rng.choice([True, False]) for _ in range(n)]
            if r.random() < 0.2:
                return {'nd': 'b', 'e': [lit(v) for v in vals]}, exp, tags | {'arr_ndarray'}
            return lit({'l': vals}), exp, tags
        if k == 'float':
            w = et['w']
            pool = [0.0, 1.5, -2.25, 0.1, 1e-8, 65504.0, 1 / 3, 1e-40, 5e-324, 6.1e-5, 5.97e-8, 2049.0, 1e-7]
            if w >= 32:
                pool += [65519.9, 1e6, FMAX[32] if w == 32 else 1e300]
            vals = [vf(r.choice(pool) * r.choice([1, -1])) for _ in range(n)]
            if not valid_only and n:
                c = r.randrange(9)
                j = r.randrange(n)
                if c == 0 and w < 64:
                    vals[j] = vf(r.choice([1e6, 65520.0, 65519.9, next_up(65504.0), -65504.5] if w == 16 else
                                          [1e39, 3.4028235677973366e38, next_up(FMAX[32]), -1e300]))
                    tags.add('arrelem_float')
                    exp = 'reject'
                elif c == 1:
                    vals[j] = vf(r.choice([float('nan'), float('inf'), float('-inf')]))
                    exp = None
                    tags.add('elem_nonfinite')
                elif c == 2:
                    vals[j] = vi(r.choice([3, -7, 2 ** 60]))
                    tags.add('elem_from_int')
                    exp = None
                elif c == 3:
                    vals[j] = None
                    tags.add('elem_none')
                    exp = None
                elif c == 4:
                    vals[j] = r.choice([True, False])
                    exp = None
                elif c == 5:
                    vals[j] = vf(r.uniform(-70000, 70000))
                    exp = None
                    tags.add('elem_random_double')
                elif c == 6:
                    vals[j] = vs('x')
                    exp = None
            if r.random() < 0.15 and all(isinstance(v, dict) and 'f' in v for v in vals):
                return {'nd': dt_name(et), 'e': [lit(v) for v in vals]}, (exp if 'arrelem_float' not in tags else None), tags | {'arr_ndarray'}
            return lit({'l': vals}), exp, tags
        # composite elements
        tid = self.m.index[et['id']]
        n = min(n, 12) if legal and not fixed else n
        if fixed and legal:
            n = t['n']
        if n > 40:
            return lit({'l': [vi(0)] * n}), exp if not legal else None, tags | {'elem_foreign'}
        c = 0 if valid_only else r.randrange(6)
        xs = []
        allok = True
        for _ in range(n):
            x, ok = self.new(tid, valid=(c != 1), depth=depth + 1)
            allok &= ok
            xs.append(x)
        if c == 1 and not allok:
            exp = None
        if c == 2 and n:
            xs[r.randrange(n)] = lit(r.choice([vi(1), None, vs('ab')]))
            tags.add('elem_foreign')
            exp = exp if not legal else None
        if c == 3:
            return lit(r.choice([vi(5), None])), None, {'arr_obj_scalar'}
        return {'l': xs}, exp, tags

    def field(self, t, valid_only=False, depth=0):
        k = t['k']
        if k == 'bool':
            return self.bool_scalar(valid_only)
        if k in ('uint', 'int'):
            return self.int_scalar(t, valid_only)
        if k == 'float':
            return self.float_scalar(t, valid_only)
        if k == 'ref':
            return self.comp_scalar(t, valid_only, depth)
        return self.array(t, valid_only, depth)

    # ---- update_from_builtin sources (built-in containers only)
    def builtin_for(self, t, valid: bool, depth: int):
        r = self.rng
        k = t['k']
        if k == 'ref':
            return self.builtin_comp(self.m.index[t['id']], valid, depth + 1)
        if k in ('farr', 'varr') and t['elem']['k'] == 'ref':
            tid = self.m.index[t['elem']['id']]
            n = self.length(t, valid or r.random() < 0.8)
            if n > 12:
                n = t['n'] if t['k'] == 'farr' and valid else min(n, 12)
            if not valid and r.random() < 0.1:
                return lit(vi(3))
            return {'l': [self.builtin_comp(tid, valid, depth + 1) for _ in range(n)]}
        x, exp, _ = self.field(t, valid_only=valid or r.random() < 0.7, depth=depth)
        tries = 0
        while ('v' not in x or (valid and exp != 'accept')) and tries < 12:
            x, exp, _ = self.field(t, valid_only=True, depth=depth)
            tries += 1
        if 'v' not in x or (valid and exp != 'accept'):
            x = lit({'l': []}) if t['k'] == 'varr' else None
        return x

    def builtin_comp(self, tid: int, valid: bool, depth: int):
        r = self.rng
        fs = self.m.fields[tid]
        if not valid and r.random() < 0.12:      # positional / scalar forms
            c = r.randrange(3)
            if c == 0:
                return lit(r.choice([vi(3), vf(1.5), True]))      # non-iterable scalars only (model domain)
            prop = bool(fs) and fs[0]['type']['k'] in ('ref', 'farr', 'varr')
            n = r.randint(0, len(fs) + (0 if prop or self.m.union[tid] else 1))   # no propagation: it re-interprets the nesting
            if self.m.union[tid]:
                n = min(n, 1)
            return {'l': [self.builtin_for(fs[i]['type'], True, depth) if i < len(fs) else lit(vi(0)) for i in range(n)]}
        if self.m.union[tid]:
            picks = r.sample(range(len(fs)), 1 if valid or r.random() < 0.8 else min(2, len(fs)))
        else:
            picks = [i for i in range(len(fs)) if r.random() < (0.5 if depth < 2 else 0.25)]
            r.shuffle(picks)
        items = [[i, fs[i]['name'], self.builtin_for(fs[i]['type'], valid, depth)] for i in picks]
        items = [it for it in items if it[2] is not None]
        if not valid and r.random() < 0.08:
            items.insert(r.randrange(len(items) + 1), [len(fs) + r.randrange(3), 'nosuch_field', lit(vi(1))])
        return {'d': items}

    # ---- one case
    def targets(self, tid: int, depth: int = 2):
        """(path, type id) of the instance itself and of everything reachable through composite-typed fields"""
        out = [([], tid)]
        if depth:
            for i, f in enumerate(self.m.fields[tid]):
                if f['type']['k'] == 'ref':
                    out += [([i] + p, t) for p, t in self.targets(self.m.index[f['type']['id']], depth - 1)]
        return out

    def elem_value(self, et):
        """a Python scalar written into an existing array element: (X, tag)"""
        r = self.rng
        k = et['k']
        if k in ('uint', 'int'):
            lo, hi = int_range(et)
            slo, shi = storage_range(et)
            c = r.randrange(6)
            if c < 3:
                return lit(vi(r.choice([lo, hi, r.randint(lo, hi)]))), 'inplace_in_range'
            if c == 3 and (lo, hi) != (slo, shi):
                return lit(vi(r.choice([v for v in (hi + 1, lo - 1, shi, slo) if slo <= v <= shi and not lo <= v <= hi]))), 'inplace_storage_only'
            if c == 4:
                return lit(vi(r.choice([shi + 1, slo - 1, 2 ** 70]))), 'inplace_overflow'
            return lit(r.choice([vf(1.5), True, None, vs('x')])), 'inplace_other_type'
        if k == 'float':
            return lit(r.choice([vf(1.5), vf(0.1), vf(1e6), vf(-65519.9), vf(float('nan')), vf(float('inf')), vi(3), True, None, vs('x')])), 'inplace_float'
        if k == 'bool':
            return lit(r.choice([True, False, vi(2), vi(0), vf(0.0), None])), 'inplace_bool'
        tid = self.m.index[et['id']]
        if r.random() < 0.7:
            return self.new(tid, valid=True, depth=2)[0], 'inplace_instance'
        return lit(r.choice([vi(1), None, vs('ab')])), 'inplace_foreign'

    def inplace_op(self, tid: int):
        """an operation that does not go through the documented setters of the top-level object"""
        r = self.rng
        path, t = r.choice(self.targets(tid))
        fs = self.m.fields[t]
        arrs = [i for i, f in enumerate(fs) if f['type']['k'] in ('farr', 'varr')]
        c = r.randrange(10)
        if (c < 2 and path) or not arrs:
            if not fs:
                return None
            i = r.randrange(len(fs))
            x, _, tags = self.field(fs[i]['type'], valid_only=r.random() < 0.4)
            return {'setin': path, 'i': i, 'x': x}, ['setin'] + sorted(tags)
        i = r.choice(arrs)
        ft = fs[i]['type']
        et = ft['elem']
        cap = ft['n'] if ft['k'] == 'farr' else ft['cap']
        j = r.choice([0, 0, 1, r.randint(0, min(cap, 8)), min(cap, 300)])
        if c < 6:
            x, tag = self.elem_value(et)
            return {'mut': path, 'i': i, 'j': j, 'x': x, 'view': r.random() < 0.4}, ['inplace', tag]
        if c < 8 and et['k'] in ('uint', 'int'):
            slo, shi = storage_range(et)
            z = r.choice([1, -1, 3, 100, shi, shi + 1, slo - 1, 0])
            return {'iadd': path, 'i': i, 'z': str(z)}, ['inplace', 'iadd']
        if et['k'] in ('uint', 'int', 'float', 'bool'):
            i = r.choice([k for k in arrs])        # aliasing is only offered on the top-level object
            fs0 = self.m.fields[tid]
            arrs0 = [k for k, f in enumerate(fs0) if f['type']['k'] in ('farr', 'varr') and f['type']['elem']['k'] != 'ref']
            if not arrs0:
                return None
            i = r.choice(arrs0)
            ft = fs0[i]['type']
            n = ft['n'] if ft['k'] == 'farr' else r.randint(1, max(1, min(ft['cap'], 5)))
            a, _, tags = self.nd_any(ft, min(n, 50), True, set())
            if r.random() < 0.6:                  # same dtype: the fast path binds the caller's array
                a = {'nd': dt_name(ft['elem']), 'e': [self.default_lit(ft['elem']) for _ in range(min(n, 50))]}
                tags = {'alias_same_dtype'}
            x, tag = self.elem_value(ft['elem'])
            return {'alias': i, 'a': a, 'j': r.choice([0, 0, 1, n]), 'x': x}, ['inplace', 'alias', tag] + sorted(tags)
        x, tag = self.elem_value(et)
        return {'mut': path, 'i': i, 'j': j, 'x': x, 'view': False}, ['inplace', tag]

    @staticmethod
    def default_lit(et):
        return lit(False) if et['k'] == 'bool' else lit(vf(0.0)) if et['k'] == 'float' else lit(vi(0))

    @staticmethod
    def has_bytes(x) -> bool:
        """does the expression contain a bytes / str literal (np.frombuffer of bytes is read-only: no in-place write afterwards)"""
        if isinstance(x, dict):
            return 'y' in x or 's' in x or any(Gen.has_bytes(v) for v in x.values())
        if isinstance(x, list):
            return any(Gen.has_bytes(v) for v in x)
        return False

    def case(self, tid: int, n_ops: int):
        case, exps = self.case0(tid, n_ops)
        r = self.rng
        if r.random() < 0.3:                      # a history with writes that bypass the setters
            ops, ex2 = [], []
            for o, e in zip(case['ops'], exps):
                if self.has_bytes(o):
                    continue                      # keep every array writeable
                ops.append(o)
                ex2.append(e)
                for _ in range(r.choice([0, 1, 1, 2])):
                    g = self.inplace_op(tid)
                    if g and not self.has_bytes(g[0]):
                        ops.append(g[0])
                        ex2.append({'expect': None, 'tags': g[1], 'kind': 'inplace' if 'inplace' in g[1] else 'setin'})
            if not ops:
                g = self.inplace_op(tid)
                if g and not self.has_bytes(g[0]):
                    ops, ex2 = [g[0]], [{'expect': None, 'tags': g[1], 'kind': 'inplace' if 'inplace' in g[1] else 'setin'}]
            if ops:
                return {'tid': tid, 'ops': ops, 'via_json': False}, ex2
        return case, exps

    def case0(self, tid: int, n_ops: int):
        r = self.rng
        fs = self.m.fields[tid]
        ops, exps = [], []
        for _ in range(n_ops):
            c = r.random()
            if fs and c < 0.62:
                i = r.randrange(len(fs))
                x, exp, tags = self.field(fs[i]['type'], valid_only=r.random() < 0.25)
                ops.append({'set': i, 'x': x})
                exps.append({'expect': exp, 'tags': sorted(tags), 'kind': 'set'})
            elif c < 0.63:
                ops.append({'set': len(fs) + 1, 'x': lit(vi(0))})
                exps.append({'expect': None, 'tags': ['no_such_attribute'], 'kind': 'set'})
            elif c < 0.84:
                valid = r.random() < 0.5
                ops.append({'ufb': self.builtin_comp(tid, valid, 0)})
                exps.append({'expect': 'accept' if valid else None, 'tags': ['ufb_valid' if valid else 'ufb_mixed'], 'kind': 'ufb'})
            else:
                valid = r.random() < 0.5
                x, ok = self.new(tid, valid)
                ops.append({'ctor': x['kw']})
                exps.append({'expect': 'accept' if ok and valid else None, 'tags': ['ctor_valid' if valid else 'ctor_mixed'], 'kind': 'ctor'})
        return {'tid': tid, 'ops': ops, 'via_json': False}, exps


# ---------------------------------------------------------------------------------------------------------------------
# the property as an executable oracle over the printed state of the REAL object (independent of the Coq model)
# ---------------------------------------------------------------------------------------------------------------------

def parse_state(s: str):
    toks = s.replace('(', ' ( ').replace(')', ' ) ').split()
    pos = 0

    def rec():
        nonlocal pos
        t = toks[pos]
        pos += 1
        if t == '(':
            out = []
            while toks[pos] != ')':
                out.append(rec())
            pos += 1
            return out
        return t

    return rec()


def float_of_token(tok: str) -> float:
    if tok == 'fnan':
        return float('nan')
    return struct.unpack('<d', struct.pack('<Q', int(tok[1:], 16)))[0]


def contract_problems(m: MDB, st, tid_expected: typing.Optional[int] = None) -> typing.List[typing.Tuple[str, str]]:
    """violations of the data-object contract in a printed object state: (class, detail)"""
    out: typing.List[typing.Tuple[str, str]] = []
    if not (isinstance(st, list) and st and st[0] == 'o'):
        return [('not_an_object', str(st)[:40])]
    tid = int(st[1])
    if tid_expected is not None and tid != tid_expected:
        return [('wrong_class', 'expected %d got %d' % (tid_expected, tid))]
    fs = m.fields[tid]
    slots = st[2:]
    if len(slots) != len(fs):
        return [('slot_count', '%d' % len(slots))]
    if m.union[tid]:
        act = [i for i, s in enumerate(slots) if s != 'N']
        if len(act) != 1:
            out.append(('union_options', 'type %d holds options %r' % (tid, act)))
    for f, s in zip(fs, slots):
        t = f['type']
        name = '%s.%s' % (m.order[tid], f['name'])
        if m.union[tid] and s == 'N':
            continue
        k = t['k']
        if k == 'bool':
            if s not in ('T', 'F'):
                out.append(('scalar_type', name))
        elif k in ('uint', 'int'):
            lo, hi = int_range(t)
            if not (isinstance(s, str) and s[0] == 'i' and lo <= int(s[1:]) <= hi):
                out.append(('scalar_range', '%s = %s' % (name, s)))
        elif k == 'float':
            if not (isinstance(s, str) and s[0] == 'f'):
                out.append(('scalar_type', name))
            elif t['w'] < 64:
                x = float_of_token(s)
                if x == x and abs(x) != float('inf') and abs(x) > FMAX[t['w']]:
                    out.append(('scalar_range', '%s = %r' % (name, x)))
        elif k == 'ref':
            out += contract_problems(m, s, m.index[t['id']])
        else:
            if not (isinstance(s, list) and s and s[0] == 'a'):
                out.append(('array_type', name))
                continue
            et = t['elem']
            if s[1] != dt_name(et):
                out.append(('array_dtype', '%s %s' % (name, s[1])))
            n = len(s) - 2
            if (t['k'] == 'farr' and n != t['n']) or (t['k'] == 'varr' and n > t['cap']):
                out.append(('array_length', '%s holds %d' % (name, n)))
            for e in s[2:]:
                if et['k'] in ('uint', 'int'):
                    lo, hi = int_range(et)
                    if not (isinstance(e, str) and e[0] == 'i'):
                        out.append(('elem_type', name))
                    elif not lo <= int(e[1:]) <= hi:
                        out.append(('elem_range', '%s element %s' % (name, e)))
                elif et['k'] == 'ref':
                    if isinstance(e, list) and e and e[0] == 'o' and int(e[1]) == m.index[et['id']]:
                        out += contract_problems(m, e, m.index[et['id']])
                    else:
                        out.append(('elem_foreign', name))
    return out


# ---------------------------------------------------------------------------------------------------------------------
# one namespace: generate, run model and implementation, compare
# ---------------------------------------------------------------------------------------------------------------------

ALL_DT = ['u8', 'i8', 'u16', 'i16', 'u32', 'i32', 'u64', 'i64', 'f16', 'f32', 'f64', 'b']


def dt_range(d: str):
    w = int(d[1:])
    return (0, 2 ** w - 1) if d[0] == 'u' else (-2 ** (w - 1), 2 ** (w - 1) - 1)


def conv_sweep(rng: random.Random) -> typing.List[dict]:
    """numpy.array(x, dt).flatten() at the edges of every dtype: the NumPy laws Gen/PyObjLaws.v names, one stratum per law"""
    out: typing.List[dict] = []

    def add(law, dt, x):
        out.append({'conv': dt, 'x': x, 'law': law})

    ints = [d for d in ALL_DT if d[0] in 'ui']
    for dt in ints:
        lo, hi = dt_range(dt)
        add('law_pyint_id', dt, lit({'l': [vi(lo), vi(hi), vi(0), vi(rng.randint(lo, hi))]}))
        add('law_pyint_id', dt, lit(vi(hi)))                                    # scalar -> one element
        add('law_pyint_id', dt, lit({'l': [{'l': [vi(lo), vi(hi)]}, {'l': [vi(0), vi(1)]}]}))   # rectangular nesting flattens
        for bad in (hi + 1, lo - 1, hi + 2 ** 64, -2 ** 70):
            add('law_pyint_overflow', dt, lit({'l': [vi(0), vi(bad)]}))
        add('law_pylist_float_trunc', dt, lit({'l': [vf(1.9), vf(0.0), vf(float(min(hi, 100)) + 0.5 if hi > 100 else 0.5)]}))
        add('law_pylist_float_overflow', dt, lit({'l': [vf(float(hi) + 1.0)]}))
        add('law_pylist_bool', dt, lit({'l': [True, False]}))
        add('law_pylist_none_raises', dt, lit({'l': [None]}))
        add('law_ragged_raises', dt, lit({'l': [{'l': [vi(0)]}, {'l': [vi(0), vi(1)]}]}))
        for src in ints:
            if src == dt:
                continue
            slo, shi = dt_range(src)
            vals = [slo, shi, 0, max(slo, min(shi, hi + 1)), max(slo, min(shi, lo - 1)), rng.randint(slo, shi)]
            add('law_foreign_wrap', dt, {'nd': src, 'e': [lit(vi(v)) for v in vals]})
        for src in ('f32', 'f64'):
            add('law_foreign_float_trunc_wrap', dt, {'nd': src, 'e': [lit(vf(v)) for v in (0.0, 2.75, -2.75, float(min(hi, 1000)), 300.0, -1.0)]})
        add('law_foreign_bool', dt, {'nd': 'b', 'e': [lit(True), lit(False)]})
    for dt in ('f16', 'f32', 'f64'):
        for v in (0.1, 1 / 3, 65504.0, 65519.9, 65520.0, 1e6, 3.4028234663852886e38, 3.4028235677973366e38, 1e39, 5e-324, 6e-8, 2.98e-8, 1e-46,
                  float('inf'), -float('inf'), float('nan'), rng.uniform(-70000, 70000), rng.uniform(-1, 1) * 2.0 ** rng.randint(-160, 130)):
            add('law_float_round', dt, lit({'l': [vf(v), vf(-v)]}))
        add('law_float_from_int', dt, lit({'l': [vi(3), vi(-7), vi(2 ** 53 + 1), vi(2 ** 70), True, None]}))
        add('law_pyint_overflow_float', dt, lit({'l': [vi(10 ** 400)]}))
        for src in ALL_DT:
            if src == dt or src == 'b':
                continue
            if src[0] == 'f':
                add('law_float_round_foreign', dt, {'nd': src, 'e': [lit(vf(v)) for v in (0.1, 65504.0, 70000.0 if src != 'f16' else 1024.0, -0.5)]})
            else:
                slo, shi = dt_range(src)
                add('law_float_from_foreign_int', dt, {'nd': src, 'e': [lit(vi(v)) for v in (slo, shi, 0, 1)]})
    for src in ints + ['f64']:
        e = [lit(vi(v)) for v in (0, 1, 2)] if src != 'f64' else [lit(vf(v)) for v in (0.0, 0.5, float('nan'))]
        add('law_bool_truthiness', 'b', {'nd': src, 'e': e})
    add('law_bool_truthiness', 'b', lit({'l': [True, vi(0), vi(5), vf(0.0), vf(2.5), None]}))
    add('law_object_identity', 'o', lit({'l': [vi(1), None, vs('ab'), vf(1.5)]}))
    for txt in NUMTEXT:
        for dt in ('u8', 'i16', 'i64'):
            add('law_text_int', dt, lit(rng.choice([vs(txt), vy(txt.encode())])))
        add('law_text_int_elem', 'i16', lit({'l': [vs(txt)]}))
        if txt not in ('1e6', '70000', '65519.9', '1e22', '9' * 25):      # text beyond the dtype: NumPy's own string parser decides, not float()
            for dt in ('f16', 'f32', 'f64'):
                add('law_text_float', dt, lit(rng.choice([vs(txt), vy(txt.encode())])))
        add('law_text_float', 'f64', lit(vs(txt)))
        add('law_text_bool', 'b', lit(vs(txt)))
    return out


FPREC_VALUES = {('f16', '%x' % f64(32768.0)), ('f32', '%x' % f64(2147483648.0))}


def has_fprec_value(x) -> bool:
    """does the operation hand over a float16/float32 ndarray holding the first value beyond an int16/int32 bound (the trigger value
    of F-PY-ARRWRAP-FPREC) anywhere, e.g. inside a constructor argument or a nested instance?"""
    if isinstance(x, dict):
        if x.get('nd') in ('f16', 'f32') and any(isinstance(e, dict) and isinstance(e.get('v'), dict) and (x['nd'], e['v'].get('f')) in FPREC_VALUES
                                                 for e in x.get('e', [])):
            return True
        return any(has_fprec_value(v) for v in x.values())
    if isinstance(x, list):
        return any(has_fprec_value(v) for v in x)
    return False


def has_infer_value(x) -> bool:
    """a list literal that numpy.asarray infers as float64 although it holds exact Python ints: an element within 1024 of 2**64 next to
    an int64-class element (or a float / bool): the trigger of F-PY-PRECHECK-INFER (valid uint64 lists rejected)"""
    if isinstance(x, dict):
        l = x.get('l')
        if isinstance(l, list) and all(isinstance(e, dict) or isinstance(e, bool) for e in l):
            big = [e for e in l if isinstance(e, dict) and 'i' in e and 2 ** 64 - 1024 <= int(e['i']) <= 2 ** 64 - 1]
            small = [e for e in l if isinstance(e, bool) or (isinstance(e, dict) and ('f' in e or ('i' in e and int(e['i']) < 2 ** 63)))]
            if big and small:
                return True
        return any(has_infer_value(v) for v in x.values())
    if isinstance(x, list):
        return any(has_infer_value(v) for v in x)
    return False


def has_np_value(x, in_list=False) -> bool:
    """does the expression hold a NumPy scalar / 0-d array anywhere, or an ndarray nested in a list or tuple?"""
    if isinstance(x, dict):
        if 'np' in x or 'nd0' in x or ('nd' in x and in_list):
            return True
        return any(has_np_value(v, in_list=(k in ('l', 'tuple'))) for k, v in x.items())
    if isinstance(x, list):
        return any(has_np_value(v, in_list) for v in x)
    return False


def state_has_infer(state: str) -> bool:
    """a uint64 array of the printed state whose to_builtin() list numpy.asarray would infer as float64 with a rounded-up maximum"""
    import re as _re
    for grp in _re.findall(r'\(a u64([^()]*)\)', state):
        vals = [int(t[1:]) for t in grp.split() if t.startswith('i')]
        if any(v >= 2 ** 64 - 1024 for v in vals) and any(v < 2 ** 63 for v in vals):
            return True
    return False


def probe_cases(m: MDB) -> typing.List[typing.Tuple[dict, typing.List[dict]]]:
    """directed cases on the hand-written namespace c18p (witnesses of the known finding first)"""
    s = m.index['c18p.S.1.0']
    u = m.index['c18p.U.1.0']
    inner = m.index['c18p.Inner.1.0']
    fi = {f['name']: i for i, f in enumerate(m.fields[s])}
    ui = {f['name']: i for i, f in enumerate(m.fields[u])}

    def one(tid, ops, exps):
        return {'tid': tid, 'ops': ops, 'via_json': False}, [{'expect': e, 'tags': t, 'kind': 'set'} for e, t in exps]

    L = lambda *xs: lit({'l': [vi(x) for x in xs]})  # noqa: E731
    cases = [
        one(s, [{'set': fi['va4'], 'x': L(200, 3)}], [('reject', ['arrelem', 'witness'])]),
        one(s, [{'set': fi['va8'], 'x': {'nd': 'i64', 'e': [lit(vi(256)), lit(vi(1))]}}], [('reject', ['arrwrap', 'witness'])]),   # index 1: F-PY-ARRWRAP
        one(s, [{'set': fi['vi16'], 'x': {'nd': 'f16', 'e': [lit(vf(32768.0)), lit(vf(1.0))]}}], [('reject', ['arrwrap', 'arrwrap_fprec', 'witness'])]),  # index 2
        one(s, [{'set': fi['va8'], 'x': lit(vy(b'00123'))}], [('reject', ['numtext', 'arr_bytes', 'arr_over_capacity', 'witness'])]),   # index 3: F-PY-NUMTEXT
        one(s, [{'set': fi['vu64'], 'x': L(0, 2 ** 64 - 1)}], [('accept', ['arr_len_legal', 'witness'])]),                      # index 4: F-PY-PRECHECK-INFER
        one(s, [{'set': fi['va8'], 'x': {'l': [{'np': 'f64', 'x': lit(vf(300.0))}]}}], [('reject', ['npscalar', 'witness'])]),        # index 5: F-PY-NPSCALAR
        one(s, [{'set': fi['n4'], 'x': lit(vf(float('inf')))}], [('reject', ['int_from_nonfinite', 'witness'])]),                  # index 6: F-PY-EXCCLASS
        one(s, [{'set': fi['ff32'], 'x': {'f32bits': [0x7f800001, 0x3f800000]}}], [('accept', ['snan', 'witness'])]),               # index 7: F-PY-SNAN
        one(s, [{'set': fi['va8'], 'x': {'l': [{'np': 'i64', 'x': lit(vi(300))}, lit(vf(1.0))]}}, {'set': fi['va8'], 'x': {'l': [{'nd': 'f64', 'e': [lit(vf(300.0)), lit(vf(1.0))]}]}},
                {'set': fi['va8'], 'x': {'l': [{'nd0': 'f64', 'x': lit(vf(300.0))}]}}, {'set': fi['va8'], 'x': {'np': 'f64', 'x': lit(vf(300.0))}},
                {'set': fi['va8'], 'x': {'l': [{'np': 'f64', 'x': lit(vf(2.0))}, lit(vi(3))]}}, {'set': fi['vu64'], 'x': {'l': [{'np': 'u64', 'x': lit(vi(2 ** 64 - 1))}, lit(vi(0))]}},
                {'set': fi['va8'], 'x': {'tuple': [lit(vi(1)), lit(vi(2))]}}, {'set': fi['vf16'], 'x': {'l': [{'np': 'f64', 'x': lit(vf(1e6))}]}}],
            [('reject', ['npscalar']), ('reject', ['npscalar']), ('reject', ['npscalar']), ('reject', ['npscalar', 'np_bare']), ('accept', ['npmix']), ('accept', ['npmix']),
             ('accept', ['npmix']), ('reject', ['arrelem_float'])]),
        one(s, [{'set': fi['fb'], 'x': lit(vy(b'12'))}, {'set': fi['s'], 'x': lit(vs('0000123'))}, {'set': fi['vi16'], 'x': lit(vs('12'))},
                {'set': fi['vf16'], 'x': lit(vy(b'2.5'))}, {'set': fi['vb'], 'x': lit(vs('0'))}, {'set': fi['va8'], 'x': lit(vy(b'12'))},
                {'set': fi['s'], 'x': lit(vs('12345'))}, {'set': fi['n4'], 'x': lit(vs(' 1_0 '))}, {'set': fi['f32'], 'x': lit(vy(b'1e3'))},
                {'ufb': {'d': [[fi['s'], 's', lit(vs('0000123'))]]}}],
            [('reject', ['numtext']), ('reject', ['numtext']), ('reject', ['numtext']), ('reject', ['numtext']), ('reject', ['numtext']),
             ('accept', ['arr_bytes']), ('accept', ['arr_str']), (None, ['scalar_numtext']), (None, ['scalar_numtext']), (None, ['numtext_ufb'])]),
        one(s, [{'set': fi['va4'], 'x': lit(vy(b'\xff\x01'))}], [('reject', ['arrelem', 'arr_bytes', 'witness'])]),
        one(s, [{'set': fi['vi16'], 'x': {'nd': 'i64', 'e': [lit(vi(70000)), lit(vi(1))]}}, {'set': fi['va8'], 'x': {'nd': 'i64', 'e': [lit(vi(-1))]}},
                {'set': fi['vi16'], 'x': {'nd': 'u16', 'e': [lit(vi(40000))]}}, {'set': fi['va8'], 'x': {'nd': 'f64', 'e': [lit(vf(300.0))]}},
                {'set': fi['va8'], 'x': {'nd': 'i64', 'e': [lit(vi(255)), lit(vi(0))]}}, {'set': fi['va8'], 'x': L(256)}, {'set': fi['vi16'], 'x': L(-32769)}],
            [('reject', ['arrwrap']), ('reject', ['arrwrap']), ('reject', ['arrwrap']), ('reject', ['arrwrap']), ('accept', ['nd_src_i64']),
             ('reject', ['elem_storage_overflow']), ('reject', ['elem_storage_overflow'])]),
        one(s, [{'set': fi['vf16'], 'x': lit({'l': [vf(1e6)]})}], [('reject', ['arrelem_float', 'witness'])]),
        one(s, [{'set': fi['fi5'], 'x': L(100, -100)}], [('reject', ['arrelem'])]),
        one(s, [{'set': fi['va4'], 'x': {'nd': 'u8', 'e': [lit(vi(16))]}}], [('reject', ['arrelem', 'arr_ndarray'])]),
        one(s, [{'set': fi['n4'], 'x': lit(vi(15))}, {'set': fi['n4'], 'x': lit(vi(16))}, {'set': fi['t4'], 'x': lit(vi(16))},
                {'set': fi['i12'], 'x': lit(vi(-2048))}, {'set': fi['i12'], 'x': lit(vi(-2049))}, {'set': fi['u64'], 'x': lit(vi(2 ** 64 - 1))},
                {'set': fi['u64'], 'x': lit(vi(2 ** 64))}, {'set': fi['i64'], 'x': lit(vi(-2 ** 63))}, {'set': fi['i64'], 'x': lit(vi(2 ** 63))}],
            [('accept', ['int_hi']), ('reject', ['int_above']), ('reject', ['int_above', 'truncated']), ('accept', ['int_lo']), ('reject', ['int_below']),
             ('accept', ['int_hi']), ('reject', ['int_above']), ('accept', ['int_lo']), ('reject', ['int_above'])]),
        one(s, [{'set': fi['f16'], 'x': lit(vf(65504.0))}, {'set': fi['f16'], 'x': lit(vf(next_up(65504.0)))}, {'set': fi['f16'], 'x': lit(vf(float('inf')))},
                {'set': fi['f32'], 'x': lit(vf(FMAX[32]))}, {'set': fi['f32'], 'x': lit(vf(next_up(FMAX[32])))}, {'set': fi['f64'], 'x': lit(vf(1.7e308))},
                {'set': fi['f16'], 'x': lit(vf(float('nan')))}],
            [('accept', ['float_max']), ('reject', ['float_out']), (None, ['float_inf']), ('accept', ['float_max']), ('reject', ['float_out']),
             ('accept', ['float_in']), (None, ['float_nan'])]),
        one(s, [{'set': fi['va4'], 'x': L(1, 2, 3)}, {'set': fi['va4'], 'x': L(1, 2, 3, 4)}, {'set': fi['fb'], 'x': L(1, 2)}, {'set': fi['fb'], 'x': L(1, 2, 3, 4)},
                {'set': fi['fb'], 'x': lit(vy(b'abc'))}, {'set': fi['fb'], 'x': lit(vy(b'xy'))}, {'set': fi['s'], 'x': lit(vs('hello'))},
                {'set': fi['s'], 'x': lit(vs('hellox'))}, {'set': fi['va8'], 'x': {'nd': 'u8', 'e': [lit(vi(1))] * 5}}],
            [('accept', ['arr_len_legal']), ('reject', ['arr_over_capacity']), ('reject', ['arr_len_fixed_wrong']), ('reject', ['arr_len_fixed_wrong']),
             ('accept', ['arr_bytes']), ('reject', ['arr_bytes', 'arr_len_fixed_wrong']), ('accept', ['arr_str']), ('reject', ['arr_str', 'arr_over_capacity']),
             ('reject', ['arr_ndarray', 'arr_over_capacity'])]),
        one(u, [{'set': ui['a'], 'x': lit(vi(3))}, {'set': ui['f'], 'x': lit(vf(1e9))}, {'set': ui['f'], 'x': lit(vf(2.0))},
                {'set': ui['c'], 'x': {'new': inner, 'kw': [lit(vi(1)), lit(None)]}}, {'set': ui['v'], 'x': L(1, 2, 3, 4)},
                {'ctor': [lit(vi(1)), lit(vf(2.0)), lit(None), lit(None)]}, {'ufb': {'d': [[ui['a'], 'a', lit(vi(1))], [ui['f'], 'f', lit(vf(2.0))]]}}],
            [('accept', []), ('reject', ['float_out']), ('accept', []), ('accept', []), ('reject', ['arr_over_capacity']), (None, ['ctor_two_options']),
             (None, ['ufb_two_options'])]),
    ]
    return cases


def run_namespace(label: str, spec: dict, seed: int, n_cases: int, repo: str, exe: typing.Optional[str], tier: str,
                  fixed: typing.Optional[list] = None) -> dict:
    rng = random.Random(seed)
    res: dict = {'label': label, 'errors': [], 'cases': [], 'mismatch': [], 'oracle': [], 'known_instances': 0, 'stats': {}, 'model_ops': 0,
                 'models': [], 'witness': None, 'dsdl': spec['files']}
    work = core.scratch('c18-%s-' % label)
    dirs = dsdlgen.write(spec, os.path.join(work, 'dsdl'))
    p = subprocess.run([core.PY, os.path.join(core.VERIF, 'tools', 'harness', 'codec', 'astdump.py')] + dirs, stdout=subprocess.PIPE,
                       stderr=subprocess.PIPE, text=True, timeout=300)
    if p.returncode != 0:
        res['errors'].append('astdump failed: ' + p.stderr[-500:])
        return res
    doc = json.loads(p.stdout)
    db = proto.TypeDB(doc)
    tgt = PyTarget({})
    ok, log = tgt.build(dirs, db, os.path.join(work, 'py'), repo)
    if not ok:
        res['errors'].append('generated Python does not build/import: ' + log[-1500:])
        res['build_failed'] = True
        return res
    m = MDB(doc)
    res['n_types'] = len(m.order)
    g = Gen(rng, m)
    cases: typing.List[typing.Tuple[dict, typing.List[dict]]] = []
    if label == 'probe':
        cases += probe_cases(m)
    per_type = max(1, n_cases // max(1, len(m.order)))
    for tid in range(len(m.order)):
        for _ in range(per_type if not fixed else 0):
            cases.append(g.case(tid, rng.choice([1, 2, 3, 5, 8])))
    for case, exps in fixed or []:
        cases.append((case, exps or [{'expect': None, 'tags': [], 'kind': 'set' if 'set' in o else 'ufb' if 'ufb' in o else 'ctor'}
                                     for o in case['ops']]))
    for c, _ in cases[::3]:
        c['via_json'] = True
    convs = conv_sweep(rng) if label == 'probe' else []
    # --- implementation
    q = subprocess.run([core.PY, os.path.join(core.VERIF, 'tools', 'harness', 'c18_impl.py'), os.path.join(work, 'py', 'types.json')] + dirs,
                       input=json.dumps({'order': m.order, 'cases': [c for c, _ in cases] + convs}), env=tgt.env, cwd=os.path.join(work, 'py'),
                       stdout=subprocess.PIPE, stderr=subprocess.PIPE, text=True, timeout=1500)
    try:
        impl_doc = json.loads(q.stdout)
        impl, impl_defaults = impl_doc['out'], impl_doc['defaults']
        res['alias_bad'], res['alias_checked'] = impl_doc.get('alias_bad', []), impl_doc.get('alias_checked', 0)
        res['path_bad'] = impl_doc.get('path_bad', [])
    except Exception:
        res['errors'].append('impl harness failed: rc=%s %s' % (q.returncode, (q.stderr or q.stdout)[-800:]))
        return res
    # --- `_MODEL_` of every type and service, through the codec runner
    ids = list(m.order) + sorted({c['service_id'] for c in m.comps if c.get('service_id')})
    answers = tgt.run(['model ' + i for i in ids], timeout=300)
    res['models'] = [(i, a) for i, a in zip(ids, answers)]
    tgt.close()
    # --- witness of the known finding (probe namespace only)
    if label == 'probe':
        w = impl[0]
        res['witness'] = bool(w.get('steps') and w['steps'][0][0] == 'ok' and 'i200' in w['steps'][0][1])
        w2 = impl[1]
        res['witness_wrap'] = bool(w2.get('steps') and w2['steps'][0][0] == 'ok')      # uint8[<=4] = np.array([256, 1], int64) accepted
        res['witness_nps'] = bool(impl[5].get('steps') and impl[5]['steps'][0][0] == 'ok')           # uint8[<=4] = [np.float64(300.0)] accepted ([44])
        res['witness_exc'] = bool(impl[6].get('steps') and impl[6]['steps'][0][0] not in ('ok', 'ValueError'))   # n4 = inf raises OverflowError
        res['witness_snan'] = bool(impl[7].get('steps') and impl[7]['steps'][0][0] == 'ok' and impl[7].get('ser') == 'differ')
        w5 = impl[4]
        res['witness_infer'] = bool(w5.get('steps') and w5['steps'][0][0] != 'ok')    # uint64[<=3] = [0, 2**64-1] rejected
        w4 = impl[3]
        res['witness_num'] = bool(w4.get('steps') and w4['steps'][0][0] == 'ok')      # uint8[<=4] = b'00123' accepted (stores [123])
        w3 = impl[2]
        res['witness_fprec'] = bool(w3.get('steps') and w3['steps'][0][0] == 'ok')     # int16[<=3] = np.array([32768, 1], float16) accepted
    res['_convs'] = (convs, impl[len(cases):])
    impl = impl[:len(cases)]
    res['_pending'] = (m, cases, impl, impl_defaults)
    return res


def finish_namespace(res: dict, exe: typing.Optional[str], quirk: bool, wrap_live: bool = False, fprec_live: bool = False,
                     num_live: bool = False, infer_live: bool = False, nps_live: bool = False, exc_live: bool = False,
                     snan_live: bool = False) -> None:
    """model run (needs the probed quirk) and all comparisons"""
    m, cases, impl, impl_defaults = res.pop('_pending')
    convs, conv_impl = res.pop('_convs', ([], []))
    model_lines: typing.Optional[typing.List[str]] = None
    if exe:
        reqs = [m.line()] + ['default %d %d' % (1 if quirk else 0, t) for t in range(len(m.order))]
        reqs += ['run %d %d %s' % (1 if quirk else 0, c['tid'], ' '.join(sx_op(o) for o in c['ops'])) for c, _ in cases]
        reqs += ['conv %s %s' % (c['conv'], sx_x(c['x'])) for c in convs]
        p = core.run([exe], input='\n'.join(reqs) + '\n', timeout=1500)
        lines = p.stdout.splitlines()
        if len(lines) != len(reqs) or not lines[0].startswith('ok 1'):
            res['errors'].append('model driver: %d answers for %d requests; first: %s' % (len(lines), len(reqs), lines[:1]))
        else:
            for t in range(len(m.order)):
                if lines[1 + t] != impl_defaults[t]:
                    res['mismatch'].append({'what': 'default object', 'type': m.order[t], 'model': lines[1 + t][:300], 'impl': impl_defaults[t][:300]})
            model_lines = lines[1 + len(m.order):]
            conv_lines = model_lines[len(cases):]
            model_lines = model_lines[:len(cases)]
            res['laws'] = {}
            for c, im, ml in zip(convs, conv_impl, conv_lines):
                st = res['laws'].setdefault(c['law'], [0, 0])
                st[0] += 1
                got = im.get('conv', '?')
                same = (got == ml) if (got.startswith('ok') and ml.startswith('ok')) else (got.startswith('ok') == ml.startswith('ok'))
                if same:
                    st[1] += 1
                else:
                    res['mismatch'].append({'what': 'NumPy law %s: numpy.array(x, %s)' % (c['law'], c['conv']), 'case': c, 'model': ml[:300],
                                            'impl': got[:300], 'type': 'numpy'})
    stats: typing.Dict[str, int] = {}

    def bump(k, n=1):
        stats[k] = stats.get(k, 0) + n

    distinct = set()
    for ci, ((case, exps), im) in enumerate(zip(cases, impl)):
        if 'harness_error' in im:
            res['errors'].append('impl harness: ' + im['harness_error'])
            continue
        steps = im['steps']
        prev_state = impl_defaults[case['tid']]
        tainted = False      # a write that bypassed the setters has happened
        mdl = None
        if model_lines is not None:
            parts = model_lines[ci].split(' | ')
            mdl = {'steps': [s.split(' ', 1) for s in parts[0].split(' ; ')] if parts[0] else [], 'rt': parts[1][3:] if len(parts) > 1 else '?',
                   'raw': model_lines[ci]}
            if model_lines[ci].startswith('ERR'):
                res['errors'].append('model driver: %s on case %d' % (model_lines[ci], ci))
                mdl = None
        for k, ((outcome, state), ex) in enumerate(zip(steps, exps)):
            bump('ops')
            bump('op_' + ex['kind'])
            bump('impl_' + ('accept' if outcome == 'ok' else 'raise_' + outcome))
            for t in ex['tags']:
                bump('tag_' + t)
            key = (case['tid'], ex['kind'], tuple(ex['tags']), outcome)
            distinct.add(key)
            trig = 'arrelem' in ex['tags'] or 'arrelem_float' in ex['tags']
            tainted = tainted or 'inplace' in ex['tags']
            # model vs implementation
            agrees = True
            fprec_hit = fprec_live and ('arrwrap_fprec' in ex['tags'] or has_fprec_value(case['ops'][k])) and (
                outcome == 'ok' or (mdl is not None and k < len(mdl['steps']) and mdl['steps'][k][1] != state))
            if nps_live and ('npscalar' in ex['tags'] or 'npmix' in ex['tags'] or 'nonintegral' in ex['tags'] or has_np_value(case['ops'][k])) and mdl is not None and (
                    k >= len(mdl['steps']) or (mdl['steps'][k][0] == 'ok') != (outcome == 'ok') or mdl['steps'][k][1] != state):
                # F-PY-NPSCALAR on this tree: which NumPy-typed lists slip through depends on np.asarray's dtype inference, which the model
                # does not reproduce; count the instance and do not compare the rest of the case
                res['known_instances'] += 1
                bump('known_npscalar_instances')
                break
            infer_hit = infer_live and has_infer_value(case['ops'][k]) and outcome != 'ok' and (
                mdl is not None and k < len(mdl['steps']) and mdl['steps'][k][0] == 'ok')
            if infer_hit:
                # instance of F-PY-PRECHECK-INFER: the model (exact values) accepts the valid list, the classes reject it
                res['known_instances'] += 1
                bump('known_infer_instances')
                break
            if fprec_hit:
                # instance of F-PY-ARRWRAP-FPREC: the model (exact comparison = the proposed fix) rejects, the classes accept and wrap;
                # the states differ from here on, the rest of this case is not compared
                res['known_instances'] += 1
                bump('known_fprec_instances')
                break
            if mdl is not None:
                res['model_ops'] += 1
                mo, ms = mdl['steps'][k] if k < len(mdl['steps']) else ('?', '?')
                if (mo == 'ok') != (outcome == 'ok') or ms != state:
                    agrees = False
                    res['mismatch'].append({'what': 'operation %d of the case' % k, 'case': case, 'expectations': exps, 'model': [mo, ms[:600]],
                                            'impl': [outcome, state[:600]], 'type': m.order[case['tid']]})
            # the property itself
            problems = []
            if ex['expect'] == 'accept' and outcome != 'ok':
                problems.append(('valid_rejected', outcome))
            if ex['expect'] == 'reject' and outcome == 'ok':
                problems.append(('invalid_accepted', ','.join(ex['tags'])))
            if ex['expect'] == 'reject' and outcome not in ('ok', 'ValueError'):
                problems.append(('wrong_exception_class', outcome))      # the text says: raises ValueError
            if ex['kind'] == 'set' and outcome != 'ok' and state != prev_state:
                problems.append(('raising_setter_changed_object', outcome))
            if not state.startswith('?'):
                for cls, detail in contract_problems(m, parse_state(state), case['tid']):
                    if cls != 'elem_foreign':
                        problems.append((cls, detail))
            if tainted and any(c == 'elem_range' for c, _ in problems):
                # outside the property: the element was written through the ndarray, not through a setter (C18_inplace_elem_range_refuted)
                bump('inplace_elem_out_of_dsdl_range')
                problems = [pr for pr in problems if pr[0] != 'elem_range']
            for cls, detail in problems:
                # an instance of the known finding: its trigger holds, the witness reproduces on this tree, and the quirk-faithful
                # model (when it could be built) predicts exactly this outcome and state
                is_known = agrees and ((quirk and ((cls == 'invalid_accepted' and trig) or cls == 'elem_range'))
                                       or (wrap_live and cls == 'invalid_accepted' and 'arrwrap' in ex['tags'])
                                       or (num_live and cls == 'invalid_accepted' and 'numtext' in ex['tags'])
                                       or (nps_live and cls == 'invalid_accepted' and 'npscalar' in ex['tags'])) or (
                    exc_live and cls == 'wrong_exception_class' and detail in ('OverflowError', 'TypeError'))
                if is_known:
                    res['known_instances'] += 1
                else:
                    res['oracle'].append({'class': cls, 'detail': detail, 'op_index': k, 'case': case, 'expectations': exps,
                                          'impl': [outcome, state[:600]], 'type': m.order[case['tid']],
                                          'model': (mdl['steps'][k] if mdl and k < len(mdl['steps']) else None)})
            prev_state = state
        # round trip
        rt = im.get('rt', '?')
        bump('rt_' + rt.split(' ')[0])
        bump('ser_' + str(im.get('ser', im.get('ser_exc', 'n/a'))).split(' ')[0])
        final = steps[-1][1] if steps else impl_defaults[case['tid']]
        foreign = any(c == 'elem_foreign' for c, _ in contract_problems(m, parse_state(final), case['tid'])) if not final.startswith('?') else True
        if mdl is not None and mdl['rt'].split(' ')[0] != rt.split(' ')[0] and not foreign and not (
                infer_live and rt.startswith('raises') and state_has_infer(steps[-1][1] if steps else '')):
            res['mismatch'].append({'what': 'builtin round trip', 'case': case, 'model': mdl['rt'][:300], 'impl': rt[:300], 'type': m.order[case['tid']]})
        strict_bad = (not final.startswith('?')) and any(c == 'elem_range' for c, _ in contract_problems(m, parse_state(final), case['tid']))
        if im.get('model_attr') is not True:
            res['oracle'].append({'class': 'embedded_model', 'detail': 'get_model(obj) / get_class(get_model(obj)): %r' % (im.get('model_attr'),),
                                  'case': case, 'type': m.order[case['tid']]})
        if 'ser_len' in im:
            meta = m.comps[case['tid']]['meta']
            lo_b, hi_b = (meta['min_bits'] + 7) // 8, (meta['max_bits'] + 7) // 8
            bump('ser_size_checked')
            if not lo_b <= im['ser_len'] <= hi_b:
                res['oracle'].append({'class': 'serialized_size', 'detail': '%d bytes, bit length set allows %d..%d' % (im['ser_len'], lo_b, hi_b),
                                      'case': case, 'impl': [rt[:100], final[:600]], 'type': m.order[case['tid']]})
        if tainted and strict_bad:
            bump('rt_skipped_inplace')
        elif snan_live and 'snan' in [t_ for e_ in exps for t_ in e_['tags']] and im.get('ser') == 'differ':
            res['known_instances'] += 1
            bump('known_snan_instances')
        elif infer_live and rt.startswith('raises') and state_has_infer(final):
            res['known_instances'] += 1
            bump('known_infer_instances')
        elif not foreign and (rt != 'same' or im.get('ser', 'same') != 'same'):
            res['oracle'].append({'class': 'builtin_round_trip', 'detail': '%s / serialization %s' % (rt[:200], im.get('ser')), 'case': case,
                                  'impl': [rt[:300], final[:600]], 'type': m.order[case['tid']]})
    bump('alias_checked', res.get('alias_checked', 0))
    bump('model_source_path_checked', len(m.order))
    for a in res.get('path_bad', []):
        res['oracle'].append({'class': 'embedded_model_source_path', 'detail': a, 'type': a})
    for a in res.get('alias_bad', []):
        res['oracle'].append({'class': 'minor_version_alias', 'detail': a, 'type': a})
    for tid_, ans in res['models']:
        bump('model_' + ('equal' if ans == 'ok equal' else 'differ'))
        if ans != 'ok equal':
            res['oracle'].append({'class': 'embedded_model', 'detail': '%s: %s' % (tid_, ans), 'type': tid_})
    res['stats'] = stats
    res['distinct'] = sorted(distinct)
    res['samples'] = [c for c, _ in cases[:3]]
    res['n_cases'] = len(cases)


def float_selftest(exe: str, rng: random.Random, n: int) -> typing.List[str]:
    """the model's NumPy/float conversions against Python/NumPy-free references (struct for binary16/32)"""
    reqs, want = [], []
    for _ in range(n):
        x = rng.choice([rng.uniform(-70000, 70000), rng.uniform(-1e-4, 1e-4), rng.uniform(-4e38, 4e38), rng.uniform(-1e-40, 1e-40),
                        65519.99, 65520.0, 6.103515625e-05 * rng.random(), 5.96e-8 * rng.random() * 2, rng.uniform(-3, 3) * 2.0 ** rng.randint(-160, 130)])
        for w, fmt in ((16, '<e'), (32, '<f')):
            try:
                y = struct.unpack(fmt, struct.pack(fmt, x))[0]
            except OverflowError:
                y = float('inf') if x > 0 else float('-inf')
            reqs.append('round %d %x' % (w, f64(x)))
            want.append('%x' % f64(y))
        z = rng.choice([rng.randint(-2 ** 70, 2 ** 70), rng.randint(-2 ** 54, 2 ** 54), 2 ** 53 + rng.randint(0, 8), rng.randint(-1000, 1000)])
        reqs.append('ofz %d' % z)
        want.append('%x' % f64(float(z)))
        xf = rng.uniform(-1e6, 1e6) * rng.choice([1, 1e-6, 1e12])
        reqs.append('trunc %x' % f64(xf))
        want.append(str(int(xf)))
    for w in range(1, 70):
        reqs.append('pw %d' % w)
        want.append(str(std_width(w)) if w <= 64 else 'none')
    p = core.run([exe], input='\n'.join(reqs) + '\n', timeout=300)
    got = p.stdout.splitlines()
    bad = ['%s -> %s, expected %s' % (r, g_, w_) for r, g_, w_ in zip(reqs, got, want) if g_ != w_]
    if len(got) != len(reqs):
        bad.append('driver answered %d of %d requests' % (len(got), len(reqs)))
    return bad


def shrink_ops(entry: dict) -> dict:
    """keep the prefix of operations up to the failing one (earlier operations may be needed to reach the state)"""
    case = entry.get('case')
    if case and 'op_index' in entry:
        entry = dict(entry)
        entry['case'] = dict(case, ops=case['ops'][:entry['op_index'] + 1])
    return entry


RESERVED_NAMES = ('if class id min max range len del list object str print lambda None def from in is pass input hash all any sum map set '
                  'dict iter next open vars zip abs bin bytes chr dir hex oct ord pow repr round slice sorted tuple format filter exec eval '
                  'compile callable global nonlocal yield with while try raise import finally except else elif continue break await async '
                  'assert as').split()      # Python keywords / builtins that pydsdl accepts as attribute names
KW_TYPES = ['uint4', 'int12', 'bool', 'float16', 'float32', 'float64', 'uint8', 'truncated uint13', 'uint4[<=3]', 'uint8[<=4]', 'utf8[<=6]',
            'int5[2]', 'float16[<=2]', 'bool[<=9]', 'Leaf.1.0', 'Leaf.1.0[<=2]', 'Leaf.1.0[2]']


def keyword_namespace(rng: random.Random) -> dict:
    """namespace c18k: structs and unions whose field names are Python keywords/builtins (generated attribute `name_`), mixed with
    names that need no stropping and with names that only LOOK stropped (`if_`)"""
    files = {'c18k/Leaf.1.0.dsdl': 'uint7 id\nint3 x\n@sealed\n'}
    for i in range(4):
        union = i % 2 == 1
        n = rng.randint(2, 7)
        names = rng.sample(RESERVED_NAMES, n) + rng.sample(['plain', 'value', 'if_x', 'x_class'], 2)
        rng.shuffle(names)
        lines = ['@union'] if union else []
        lines += ['%s %s' % (rng.choice(KW_TYPES), nm) for nm in names]
        files['c18k/W%d.1.0.dsdl' % i] = '\n'.join(lines) + '\n@sealed\n'
    # randomised multi-version stratum: names x majors x minor sets that straddle 10 and 100 (text order != numeric order)
    for name in ('Multi', 'Ver' + str(rng.randint(2, 9))):
        for major in rng.sample([0, 1, 2, 9, 10, 11, 100], rng.randint(1, 3)):
            minors = rng.sample([0, 1, 2, 3, 9, 10, 11, 19, 20, 99, 100, 101], rng.randint(2, 5))
            if major == 0:
                minors = [m_ for m_ in minors if m_ > 0] or [1]
            sealed = rng.random() < 0.5
            for mn in minors:
                body = ['uint8 MINOR_LOW = %d' % (mn % 256), 'uint8 a'] + ['uint8 f%d' % k_ for k_ in range(mn % 3)]
                files['c18k/%s.%d.%d.dsdl' % (name, major, mn)] = '\n'.join(body) + ('\n@sealed\n' if sealed and mn % 3 == 0 and False else '\n@extent 256\n')
    return dsdlgen.single(files)


def adopt_own_findings(chk: core.Check) -> None:
    """known_findings.json is merged by the lead from known_findings.d/*.json; until then read our own file as well."""
    p = os.path.join(core.VERIF, 'known_findings.d', 'C18.json')
    if os.path.exists(p):
        have = {e['id'] for e in chk.known}
        for e in json.load(open(p, encoding='utf-8'))['findings']:
            if e['id'] not in have and chk.prop in e['properties']:
                chk.known.append(e)


def main(chk: core.Check, replay: typing.Optional[str] = None) -> int:
    quick = chk.tier == 'quick'
    adopt_own_findings(chk)
    repo = core.REPO
    res = core.coq_check('C18', ['pyobj', 'pyalias', 'pin_c18support', 'pin_c18model'], timeout=400)
    chk.proof_coverage(res, [
        'scanner of lang/py/templates/base.j2 and translator of pick_width (tools/translators/gen_c18.py); shape pin c18support '
        '(tools/translators/shape_pin.py) on to_builtin/_to_builtin_impl/update_from_builtin/get_class/get_model/get_attribute/set_attribute',
        'hand model Gen/PyObj.v of the generated classes, of NumPy array conversion and of update_from_builtin/to_builtin; validated by the '
        'correspondence run below, not verified',
        'ASSUMED NumPy 2 / CPython laws (Gen/PyObjLaws.v np_laws; each swept at the dtype edges in every run, coverage.distribution numpy_law_*): '
        'law_pyint_id (np.array of in-range Python ints is the identity, rectangular nesting flattens, a scalar gives one element), '
        'law_pyint_overflow (a Python int outside an integer dtype raises OverflowError; 10**400 into a float dtype too), '
        'law_pylist_float_trunc/_overflow (Python floats in a list are truncated, then range-checked), law_foreign_wrap (elements of an ndarray '
        'of another integer dtype are C-cast: wrap modulo 2^w), law_foreign_float_trunc_wrap, law_float_round (round-to-nearest-even to '
        'binary16/32, overflow to inf, None -> NaN), law_float_from_int, law_bool_truthiness, law_object_identity, law_ragged_raises, '
        'a[j] = v converts like an element of np.array([v], dtype) and stores in place, a += z wraps; the same-dtype fast path binds the '
        'caller\'s array (no copy)',
        'library laws of `_MODEL_` (Gen/PyModelAttr.v hypotheses): pickle.loads(<bytes of the _ModelPickler of filter_pickle, protocol 4>) is the model m with memoised values reset and every source path replaced by the PurePosixPath relative to the parent of its root namespace directory, gzip.decompress(gzip.compress(b)) == b, '
        'b85decode(b85encode(b)) == b, the base85 alphabet has no white space; adjacent string literals concatenate',
        'extraction: Require Extraction ExtrOcamlBasic only; OCaml 4.13.1; ocaml/c18_driver.ml',
        'tools/harness/c18_impl.py, tools/harness/codec/{astdump,dsdlgen,target_py,target_py_driver}.py, pydsdl 1.25, NumPy from build/pydeps',
    ])
    broken: typing.List[str] = []
    if not res.ok:
        broken.append('proof obligation: %s %s' % (res.failed_file or 'translator', res.failed_theorem or ''))
    ok_model, exe, log = core.build_extracted('c18', 'ExtractC18.v', 'c18_driver.ml')
    if not ok_model:
        broken.append('model does not build/extract: ' + log[-300:])
        exe = None

    # namespaces
    specs: typing.List[typing.Tuple[str, dict, int]] = [('probe', dsdlgen.single(PROBE_FILES), 900 if quick else 12000)]
    fixed_for: typing.Dict[str, list] = {}
    if replay:
        doc = json.load(open(replay))
        if doc.get('dsdl'):
            specs = [('probe', dsdlgen.single(PROBE_FILES), 50), ('replay', dsdlgen.single(doc['dsdl']), 600)]
            fl = doc.get('failure') or {}
            if fl.get('case'):
                fixed_for['replay'] = [(fl['case'], fl.get('expectations'))]
    else:
        n_random = 3 if quick else 20
        for i in range(n_random):
            sub = random.Random(chk.rng.getrandbits(64))
            specs.append(('r%d' % i, dsdlgen.generate(sub, n_types=12 if quick else 26, budget=600 if quick else 1200), 700 if quick else 14000))
    if not replay:
        specs.append(('clash', dsdlgen.single({'c18c/Foo.1.0.dsdl': 'uint8 a\n@sealed\n', 'c18c/Foo_1.0.1.dsdl': 'uint8 a\nuint8 b\n@sealed\n',
                                               'c18c/Holder.1.0.dsdl': 'Foo.1.0 f\nFoo_1.0.1[<=2] g\n@sealed\n'}), 60))
        specs.append(('kw', keyword_namespace(random.Random(chk.rng.getrandbits(64))), 500 if quick else 6000))
    seeds = [chk.rng.getrandbits(32) for _ in specs]
    with concurrent.futures.ThreadPoolExecutor(max_workers=min(6, len(specs))) as ex:
        results = list(ex.map(lambda a: run_namespace(a[0][0], a[0][1], a[1], a[0][2], repo, exe, chk.tier, fixed_for.get(a[0][0])),
                              zip(specs, seeds)))

    # which variant does the scanned template claim to be?  (Generated/Gen_PyObj.v arrelem_quirk_gen, through the extracted model)
    tmpl_quirk: typing.Optional[bool] = None
    if exe:
        ans = core.run([exe], input='quirk\n', timeout=60).stdout.strip()
        tmpl_quirk = {'1': True, '0': False}.get(ans)
    # probe the known finding on the real classes
    witness = next((r['witness'] for r in results if r['label'] == 'probe'), None)
    if tmpl_quirk is not None and witness is not None and tmpl_quirk != bool(witness):
        broken.append('the scanned template says arrelem_quirk=%s but the witness uint4[<=3] = [200, 3] %s on the generated classes'
                      % (tmpl_quirk, 'is accepted' if witness else 'is rejected'))
    kf_live = bool(witness) and chk.is_known(FID)
    if kf_live:
        chk.report_known(FID)
    quirk = bool(witness)
    # F-PY-ARRWRAP: ndarray of another dtype wraps around on the conversion path unless the template pre-checks the source
    witness_wrap = next((r.get('witness_wrap') for r in results if r['label'] == 'probe'), None)
    tmpl_precheck: typing.Optional[bool] = None
    if exe:
        tmpl_precheck = {'1': True, '0': False}.get(core.run([exe], input='precheck\n', timeout=60).stdout.strip())
    if tmpl_precheck is not None and witness_wrap is not None and tmpl_precheck == bool(witness_wrap):
        broken.append('the scanned template says t_arr_precheck=%s but uint8[<=4] = numpy.array([256, 1], int64) %s on the generated classes'
                      % (tmpl_precheck, 'is accepted' if witness_wrap else 'is rejected'))
    wrap_live = bool(witness_wrap) and chk.is_known(FID_WRAP)
    if wrap_live:
        chk.report_known(FID_WRAP)
    witness_num = next((r.get('witness_num') for r in results if r['label'] == 'probe'), None)
    tmpl_guard = None
    try:
        gt = open(os.path.join(core.COQ, 'theories', 'Generated', 'Gen_PyObj.v'), encoding='utf-8').read()
        tmpl_guard = 't_text_guard := true' in gt if 't_text_guard' in gt else None
    except OSError:
        pass
    if tmpl_guard is not None and witness_num is not None and tmpl_guard == bool(witness_num):
        broken.append('the scanned template says t_text_guard=%s but uint8[<=4] = b\'00123\' %s on the generated classes'
                      % (tmpl_guard, 'is accepted' if witness_num else 'is rejected'))
    num_live = bool(witness_num) and chk.is_known(FID_NUM)
    if num_live:
        chk.report_known(FID_NUM)
    probe_res = next((r for r in results if r['label'] == 'probe'), {})
    gtext = ''
    try:
        gtext = open(os.path.join(core.COQ, 'theories', 'Generated', 'Gen_PyObj.v'), encoding='utf-8').read()
    except OSError:
        pass
    lives = {}
    for fid, wkey, fact, fact_when_fixed in ((FID_NPS, 'witness_nps', 't_src_exact := ', 'true'), (FID_EXC, 'witness_exc', 'exc_overflow_wrapped_gen : bool := ', 'true'),
                                             (FID_SNAN, 'witness_snan', None, None)):
        w_ = probe_res.get(wkey)
        if fact and w_ is not None and fact in gtext and ((fact + fact_when_fixed) in gtext) == bool(w_):
            broken.append('the scanned template says %s%s but the witness of %s %s' % (fact, 'true' if (fact + 'true') in gtext else 'false', fid,
                                                                                     'reproduces' if w_ else 'does not reproduce'))
        lives[fid] = bool(w_) and chk.is_known(fid)
        if lives[fid]:
            chk.report_known(fid)
        if w_ and not chk.is_known(fid):
            broken.append('witness of %s reproduces but the finding is not listed as known' % fid)
        chk.notes.append('%s: witness %s' % (fid, 'reproduces' if w_ else 'does not reproduce'))
    clash_res = next((r for r in results if r['label'] == 'clash'), None)
    witness_clash = None if clash_res is None or clash_res.get('build_failed') else any('CLASS-IDENTITY' in x for x in clash_res.get('path_bad', []))
    try:
        atext = open(os.path.join(core.COQ, 'theories', 'Generated', 'Gen_PyAlias.v'), encoding='utf-8').read()
    except OSError:
        atext = ''
    if witness_clash is not None and 'alias_guard_gen' in atext and ('alias_guard_gen : bool := true' in atext) == bool(witness_clash):
        broken.append('the translated alias filter has alias_guard_gen=%s but the package of c18c %s' % (
            'alias_guard_gen : bool := true' in atext, 'binds Foo_1_0 to the class of Foo_1.0.1' if witness_clash else 'keeps Foo_1_0'))
    lives[FID_CLASH] = bool(witness_clash) and chk.is_known(FID_CLASH)
    if lives[FID_CLASH]:
        chk.report_known(FID_CLASH)
        clash_res.pop('_pending', None)          # every object of that namespace holds the wrong class: nothing to compare
        clash_res.pop('_convs', None)
    if witness_clash and not chk.is_known(FID_CLASH):
        broken.append('witness of %s reproduces but the finding is not listed as known' % FID_CLASH)
    chk.notes.append('%s: Foo.1.0 beside Foo_1.0.1 %s' % (FID_CLASH, 'clash (Foo_1_0 is the class of Foo_1.0.1)' if witness_clash else 'do not clash'))
    witness_infer = next((r.get('witness_infer') for r in results if r['label'] == 'probe'), None)
    infer_live = bool(witness_infer) and chk.is_known(FID_INFER)
    if infer_live:
        chk.report_known(FID_INFER)
    if witness_infer and not chk.is_known(FID_INFER):
        broken.append('witness of %s reproduces (uint64[<=3] = [0, 2**64-1] is rejected) but the finding is not listed as known' % FID_INFER)
    if witness_infer is not None and tmpl_precheck and ('t_precheck_nd_only := true' in (gt if tmpl_guard is not None else '')) == bool(witness_infer):
        broken.append('the scanned template says t_precheck_nd_only=%s but uint64[<=3] = [0, 2**64-1] is %s' % (not witness_infer, 'rejected' if witness_infer else 'accepted'))
    witness_fprec = next((r.get('witness_fprec') for r in results if r['label'] == 'probe'), None)
    try:
        gen_text = open(os.path.join(core.COQ, 'theories', 'Generated', 'Gen_PyObj.v'), encoding='utf-8').read()
        tmpl_exact = 'arr_precheck_exact_gen : bool := true' in gen_text if 'arr_precheck_exact_gen' in gen_text else None
    except OSError:
        tmpl_exact = None
    if tmpl_exact is not None and witness_fprec is not None and tmpl_precheck and tmpl_exact == bool(witness_fprec):
        broken.append('the scanned template says arr_precheck_exact=%s but int16[<=3] = numpy.array([32768, 1], float16) %s on the generated classes'
                      % (tmpl_exact, 'is accepted' if witness_fprec else 'is rejected'))
    fprec_live = bool(witness_fprec) and chk.is_known(FID_FPREC)
    if fprec_live:
        chk.report_known(FID_FPREC)
    for r in results:
        if '_pending' in r:
            finish_namespace(r, exe, quirk, wrap_live, fprec_live, num_live, infer_live, lives[FID_NPS], lives[FID_EXC], lives[FID_SNAN])

    selftest_bad = float_selftest(exe, chk.rng, 300 if quick else 3000) if exe else []
    if selftest_bad:
        broken.append('model float/pick_width self-test: ' + '; '.join(selftest_bad[:3]))

    stats: typing.Dict[str, int] = {}
    distinct = set()
    mismatch, oracle, errors = [], [], []
    known_instances = model_ops = n_cases = n_types = 0
    for r in results:
        for k, v in r.get('stats', {}).items():
            stats[k] = stats.get(k, 0) + v
        distinct |= {(r['label'],) + tuple(d) for d in r.get('distinct', [])}
        for e in r['mismatch']:
            mismatch.append(dict(e, namespace=r['label'], dsdl=r['dsdl']))
        for e in r['oracle']:
            oracle.append(dict(e, namespace=r['label'], dsdl=r['dsdl']))
        errors += ['%s: %s' % (r['label'], e) for e in r['errors']]
        known_instances += r['known_instances']
        for law, (n_, ok_) in (r.get('laws') or {}).items():
            stats['numpy_' + law] = stats.get('numpy_' + law, 0) + n_
            stats['numpy_' + law + '_agree'] = stats.get('numpy_' + law + '_agree', 0) + ok_
        model_ops += r['model_ops']
        n_cases += r.get('n_cases', 0)
        n_types += r.get('n_types', 0)
    if witness is None:
        broken.append('the probe namespace c18p could not be generated/run, the known finding could not be probed: %s' % '; '.join(errors)[:600])
    if witness_num and not chk.is_known(FID_NUM):
        oracle.insert(0, {'class': 'invalid_accepted', 'detail': 'witness of %s reproduces but the finding is not listed as known' % FID_NUM,
                          'dsdl': PROBE_FILES})
    if witness_fprec and not chk.is_known(FID_FPREC):
        oracle.insert(0, {'class': 'invalid_accepted', 'detail': 'witness of %s reproduces but the finding is not listed as known' % FID_FPREC,
                          'dsdl': PROBE_FILES})
    if witness_wrap and not chk.is_known(FID_WRAP):
        oracle.insert(0, {'class': 'invalid_accepted', 'detail': 'witness of %s reproduces but the finding is not listed as known' % FID_WRAP,
                          'dsdl': PROBE_FILES})
    if witness and not chk.is_known(FID):
        oracle.insert(0, {'class': 'invalid_accepted', 'detail': 'witness of %s reproduces but the finding is not listed as known' % FID,
                          'dsdl': PROBE_FILES})
    stats['known_finding_instances'] = known_instances
    stats['namespaces'] = len(results)
    stats['types'] = n_types
    chk.coverage.update({
        'evaluations': stats.get('ops', 0) + n_cases + stats.get('model_equal', 0) + stats.get('model_differ', 0),
        'distinct_nontrivial': len(distinct),
        'rule': 'seeded random operation sequences (1-8 operations: property setters, update_from_builtin, re-construction) on every type of '
                'one hand-written and several random namespaces (tools/harness/codec/dsdlgen.py); values per field kind: in range, both '
                'boundaries, just outside, far outside, NaN/inf, wrong Python types, arrays of legal / over-capacity / wrong fixed length as '
                'list, bytes, str, ndarray (same and other dtype), scalar, nested and ragged lists, nested composites (valid, invalid, wrong '
                'class), unions set to each option; non-trivial = distinct (namespace, type, operation kind, value strata, outcome)',
        'samples': [c for r in results for c in r.get('samples', [])][:6],
        'traces_validated_against_impl': model_ops,
        'distribution': stats,
    })
    chk.notes.append('quirk model in use: %s (witness uint4[<=3] = [200, 3] %s; scanned template: arrelem_quirk=%s; live theorem: %s)'
                     % (quirk, 'reproduces' if witness else 'does not reproduce', tmpl_quirk,
                        'C18_obj_invariant_partial + C18_array_elem_range_refuted' if quirk else 'C18_obj_invariant_strict_noquirk'))
    chk.notes.append('F-PY-NUMTEXT: witness uint8[<=4] = b\'00123\' %s; scanned template: t_text_guard=%s'
                     % ('is accepted (stores [123])' if witness_num else 'is rejected', tmpl_guard))
    chk.notes.append('F-PY-ARRWRAP-FPREC: witness int16[<=3] = numpy.array([32768, 1], float16) %s' % ('is accepted (stores [-32768, 1])' if witness_fprec else 'is rejected'))
    chk.notes.append('F-PY-ARRWRAP: witness uint8[<=4] = numpy.array([256, 1], int64) %s; scanned template: t_arr_precheck=%s'
                     % ('is accepted (wraps to [0, 1])' if witness_wrap else 'is rejected', tmpl_precheck))

    if replay:
        for r in results:
            if r['label'] == 'replay':
                for e in (r['oracle'] + r['mismatch'])[:3]:
                    print('replay: %s %s\n  implementation: %s\n  model:          %s' % (e.get('class') or e.get('what'), e.get('detail', ''),
                                                                                   e.get('impl'), e.get('model')))
                if not r['oracle'] and not r['mismatch']:
                    print('replay: the case no longer fails (%d operations compared)' % r.get('model_ops', 0))
    if errors and witness is None:
        oracle = []      # without the probe nothing can be classified: report the broken harness, not instances of the known finding
    if oracle:
        e = shrink_ops(oracle[0])
        chk.violation({'what': 'the real generated class violates the data-object contract: %s (%s)' % (e['class'], e.get('detail')),
                       'failure': e, 'dsdl': e.get('dsdl'), 'n_failing': len(oracle), 'n_model_disagreements': len(mismatch), 'classes': sorted({o['class'] for o in oracle}),
                       'broken': broken}, found_input=True)
    elif mismatch:
        e = mismatch[0]
        chk.violation({'what': 'model and generated classes disagree (%s) but no operation violating the property was found' % e['what'],
                       'correspondence': 'Gen/PyObj.v (extracted) vs. real generated Python classes', 'failure': e, 'dsdl': e.get('dsdl'),
                       'n_disagreements': len(mismatch), 'broken': broken}, found_input=False)
    elif broken or errors:
        chk.violation({'broken': broken, 'errors': errors[:5], 'coq_error': res.error_text[-2000:], 'translators': res.translator_msgs,
                       'what': 'proof obligation, model build or harness no longer works; searched %d operations on the implementation'
                               % stats.get('ops', 0)}, found_input=False)
    return chk.finish()
