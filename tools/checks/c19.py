"""C19: the bundled template engine is a conservative extension of stock Jinja2."""
from __future__ import annotations

import json
import os
import re
import typing

from tools.lib import core

PROP = 'C19'
KF = 'F-JINJA-COMMENT-STAR'
KF2 = 'F-JINJA-AUTOINDENT-NONSTR'
KF3 = 'F-JINJA-AUTOINDENT-SCOPE'
KF4 = 'F-JINJA-MARKER-DELIM'
KF5 = 'F-JINJA-LINEPREFIX-TERMINATOR'
KF6 = 'F-JINJA-AUTOINDENT-FINALIZE'
KF7 = 'F-JINJA-MARKER-MINUS'

MANIFEST = dict(
    category='proof',
    technique='Coq proof about the root-state delimiter scanner (regular expressions re-extracted from the bundled lexer on every '
              'run), the translated lineprefix filter, the auto-indent desugaring and the assert/ifuses node shapes; extracted-model '
              'vs. both real lexers / filter / renderer correspondence; differential rendering bundled vs. stock Jinja2',
    text='Theorems in coq/theories/Properties/C19.v, for ALL sources: the bundled root-state scanner equals the stock scanner (same '
         'rule without the `[ \\t]*{X\\*` alternative) on every source without an opener followed by `*`, for every behaviour of the '
         'unmodified lexer states; a marker token is exactly the maximal run of spaces/tabs before the opener plus the opener; '
         'do_lineprefix yields exactly the str.splitlines() lines, non-empty ones prefixed, joined by LF (final terminator dropped, '
         'every terminator kind becomes LF); Parser.subparse wraps marker constructs in lineprefix(prefix) and leaves others alone; '
         'assert / ifuses / ifnuses evaluate as ordinary conditionals.  Tie: regexes, do_lineprefix, autoindent constants and the '
         'extension skeletons are re-translated from /repo (fail closed); the extracted model is run against Lexer.tokeniter of the '
         'bundled engine AND of stock Jinja2, against filters.do_lineprefix, against rendered auto-indent templates and against '
         'CodeGenEnvironment renderings of assert/ifuses.',
    note='Round 5: every function of all 27 vendored modules is shape-pinned (committed 733-entry digest table; upstream 2.11 is not available '
         'offline, stock 3.1 is a structural reference only); the documented-delta list is re-derived from the tree (markers, package rename, '
         'git log); end-to-end theorems over the template text (scanner for every regenerated option combination -> wrap -> subparse -> render '
         'with context) for marker-free templates and for marker print/block statements. '
         'PARTIAL: whole-engine equivalence with stock Jinja2 is NOT proved (no Gallina semantics of Jinja); it is covered only by '
         'differential execution (bundled 2.11.dev vs. stock 3.1.x plain Environments) over a grammar of the common core, restricted to '
         'constructs whose semantics did not change upstream between 2.11 and 3.1 (exclusions listed in design_notes/C19.md).  Only the '
         'default delimiters with lstrip_blocks/trim_blocks off are modelled; block/variable lexer states are a parameter of the '
         'theorems (unmodified by Nunavut).  Trusted: Coq kernel; tools/translators/gen_c19.py + regex_tr.py; hand models of '
         'str.splitlines/str.join; extraction + OCaml driver.',
    design='§5 C19')

DRIVER = os.path.join(core.VERIF, 'tools', 'harness', 'c19_impl.py')


# ---------------------------------------------------------------------------------------------
# plumbing
# ---------------------------------------------------------------------------------------------
def enc(s: str) -> str:
    return '.'.join(str(ord(c)) for c in s) if s else 'e'


def dec(s: str) -> str:
    return '' if s == 'e' else ''.join(chr(int(t)) for t in s.split('.'))


def run_impl(op: str, cases: list) -> list:
    if not cases:
        return []
    p = core.run([core.PY, DRIVER], input=json.dumps({'op': op, 'cases': cases}), env=core.repo_env(), timeout=900)
    try:
        return json.loads(p.stdout[p.stdout.rindex('@@C19@@') + 7:])['out']
    except Exception:
        return [{'harness_failure': p.stdout[-400:]}] * len(cases)


def run_model(exe: str, lines: typing.List[str]) -> typing.List[str]:
    if not lines:
        return []
    p = core.run([exe], input='\n'.join(lines) + '\n', timeout=900)
    out = p.stdout.splitlines()
    return out + ['MODEL-FAILURE'] * (len(lines) - len(out))


# ---------------------------------------------------------------------------------------------
# (1) lexer tie
# ---------------------------------------------------------------------------------------------
LEX_ATOMS = ['{', '{', '%', '%', '*', '-', '+', '#', '}', '}', ' ', ' ', '\t', '\n', 'a', 'x', '"', "'", '(', ')',
             '{%', '{{', '{#', '%}', '}}', '#}', '{%-', '{{-', '{#-', '-%}', '-}}', '-#}', '{%*', '{{*', '{#*', ' {%* ', '\t {{* ',
             '{% raw %}', '{%- raw -%}', '{% endraw %}', '{%- endraw %}', ' raw ', ' endraw ', '{% if x %}', '{% endif %}', '{{ x }}',
             '{# c #}', '{#* c #}', ' \n ', '\u00a0', '\u2003', '1', '.', '|', 'é']
ROOT_KINDS = {'data', 'block_begin', 'variable_begin', 'comment_begin', 'comment', 'comment_end', 'raw_begin', 'raw_end'}
MARKER_RE = re.compile(r'\{[%{#]\*')
DOC_MARKER_RE = re.compile(r'\{[%{]\*')
PLUS_RE = re.compile(r'\{[%{#]\+|\+[%#}]\}')


def gen_source(rng) -> str:
    n = rng.choice([1, 2, 3, 5, 8, 12, 20, 30])
    s = ''.join(rng.choice(LEX_ATOMS) for _ in range(n))
    return s.rstrip('\n')   # tokeniter drops one final newline (keep_trailing_newline off): keep the source its own normal form


MODEL_OPTS = [{}, {}, {'trim_blocks': True}, {'keep_trailing_newline': True}, {'trim_blocks': True, 'keep_trailing_newline': True}]
ASP = {'block_start_string': '<%', 'block_end_string': '%>', 'variable_start_string': '${', 'variable_end_string': '}',
       'comment_start_string': '<!--', 'comment_end_string': '-->'}
LS = {'line_statement_prefix': '%%', 'line_comment_prefix': '##'}
ORACLE_OPTS = [{}, {}, {}, LS, ASP]
COMBOS = [{}, {'lstrip_blocks': True}, {'trim_blocks': True}, {'lstrip_blocks': True, 'trim_blocks': True}, dict(LS),
          dict(LS, lstrip_blocks=True, trim_blocks=True), dict(ASP), dict(ASP, lstrip_blocks=True, trim_blocks=True),
          {'block_start_string': '<*', 'block_end_string': '*>', 'variable_start_string': '\\VAR{', 'variable_end_string': '}'}]   # = gen_c19.COMBOS
OPT_ATOMS = ['{%', '{{', '{#', '%}', '}}', '#}', '{%-', '{#-', '{{-', '-%}', '-#}', '-}}', '{%+', '{#+', '{%*', '{{*', '{#*',
             ' ', '  ', '\t', '\n', '\n', '\n  ', '\n\t', 'a', 'x', '1', '"', '(', ')', '*', '-', '+', '%', '#', '{', '}',
             '{% raw %}', '{%- raw -%}', '{%+ raw %}', '{% endraw %}', '{%- endraw %}', '{%+ endraw %}', '\n    {% endraw %}', '\n  {% raw %}',
             '\n  {# c #}', '{# c #}', '{#- c -#}', '{% if x %}', '\n  {% endif %}', '{{ x }}', ' raw ', ' endraw ',
             '\n%% if x', '\n  %% endif', '\n## note', ' ## c', '%%', '##']
OPT_CORPUS = [('a\n    {% raw %}\n    r\n    {% endraw %}\nb', {'lstrip_blocks': True}),
              ('{% raw %}x{%+ endraw %}y', {'lstrip_blocks': True}),
              ('a\n  {# c #}\n  {%+ if x %}\n', {'lstrip_blocks': True, 'trim_blocks': True, 'keep_trailing_newline': True}),
              ('  {% raw %} {{ x }}\n  {%- endraw -%}  z', {'lstrip_blocks': True, 'trim_blocks': True}),
              ('t\n%% if x\n  ok ## c\n%% endif\n', dict(LS, lstrip_blocks=True)),
              ('a\n  {% raw %}r\n  {% endraw %}\n', dict(ASP, lstrip_blocks=True))]


def gen_source_opts(rng, opts: dict) -> str:
    n = rng.choice([1, 2, 3, 5, 8, 12, 20])
    s = ''.join(rng.choice(OPT_ATOMS) for _ in range(n))
    return s if opts.get('keep_trailing_newline') else s.rstrip('\n')


def to_delims(text: str, opts: dict) -> str:
    if not any(k.endswith('_string') for k in opts):
        return text
    for a, b in (('{%', opts.get('block_start_string', '{%')), ('%}', opts.get('block_end_string', '%}')), ('{{', opts.get('variable_start_string', '{{')),
                 ('}}', opts.get('variable_end_string', '}}')), ('{#', opts.get('comment_start_string', '{#')), ('#}', opts.get('comment_end_string', '#}'))):
        text = text.replace(a, '\0' + b + '\0')
    return text.replace('\0', '')


def excluded_by_upstream_change(src: str, opts: dict) -> bool:
    """documented lexer changes of the 3.x line (design_notes/C19.md); everything else is compared"""
    bs, vs, cs = opts.get('block_start_string', '{%'), opts.get('variable_start_string', '{{'), opts.get('comment_start_string', '{#')
    be, ve, ce = opts.get('block_end_string', '%}'), opts.get('variable_end_string', '}}'), opts.get('comment_end_string', '#}')
    if vs + '+' in src or cs + '+' in src:                 # 3.x: sign group after EVERY opener; 2.x: never for variables, and the
        return True                                        # comment lstrip alternative ^[ \t]*{# has no (?!\+): '+' stays comment text
    if not opts.get('lstrip_blocks') and bs + '+' in src:  # 2.x: '+' only as part of the lstrip regex
        return True
    if '+' + be in src or '+' + ce in src or '+' + ve in src:   # 3.x: '+' sign in end rules
        return True
    if bs + '*' in src or vs + '*' in src:                 # the auto-indent markers: outside the conservativity claim
        return True
    lsp = opts.get('line_statement_prefix')
    if lsp and (lsp + '-' in src or lsp + '+' in src or lsp + '*' in src or '##-' in src or '##+' in src or '##*' in src):
        return True                                        # 3.x: sign group after line prefixes as well
    return False


TAG_END = {'block_begin': 'block_end', 'variable_begin': 'variable_end', 'linestatement_begin': 'linestatement_end',
           'linecomment_begin': 'linecomment_end'}


def split_root(toks: typing.List[typing.List[str]], err: typing.Optional[str] = None):
    """tokens yielded in the root/comment/raw states, and the number of characters consumed by each block/variable visit"""
    root, ks, i = [], [], 0
    while i < len(toks):
        k, v = toks[i]
        i += 1
        root.append((k, v))
        if k in TAG_END:
            end = TAG_END[k]
            n, closed = 0, False
            while i < len(toks):
                k2, v2 = toks[i]
                i += 1
                n += len(v2)
                if k2 == end:
                    closed = True
                    break
            if closed or not err:   # the lexer raised inside this visit: the state never popped, the model's oracle ends here
                ks.append(n)
    return root, ks


def obs_stock(toks):
    """observable common to the 2.x rule (whitespace inside the begin/end token value) and the 3.x code (data stripped in code)"""
    return [(k, v if k in ('data', 'comment') else v.lstrip()) for k, v in toks]


def parse_model_scan(line: str):
    if line == 'ERR':
        return None
    if not line.startswith('OK'):
        return 'MODEL-FAILURE: ' + line
    out = []
    for t in line.split(' ')[1:]:
        k, v = t.split('/', 1)
        out.append((k, dec(v)))
    return out


# ---------------------------------------------------------------------------------------------
# (2) lineprefix / auto-indent
# ---------------------------------------------------------------------------------------------
LP_ATOMS = ['a', 'b', ' ', '\t', '\n', '\n', '\r\n', '\r', '\v', '\f', '\x1c', '\x1d', '\x1e', '\x85', '\u2028', '\u2029', '\x1f',
            'é', '\U0001F600', '}', '\n\n']


def gen_lp(rng):
    s = ''.join(rng.choice(LP_ATOMS) for _ in range(rng.choice([0, 1, 2, 3, 5, 8, 13])))
    p = ''.join(rng.choice([' ', '\t', ' ', '//', '#', '\n']) for _ in range(rng.choice([0, 1, 2, 4])))
    return [s, p]


LINE_TERMS = '\n\r\x0b\x0c\x1c\x1d\x1e\x85\u2028\u2029'


def prefix_lines_keepends(s: str, p: str) -> str:
    """THE PROPERTY, written independently of the implementation: every non-empty line of the emitted text gets the prefix; the text is
    otherwise untouched (every line keeps its own terminator, also the last one)"""
    return ''.join((p + ln) if ln.rstrip('\r\n\x0b\x0c\x1c\x1d\x1e\x85\u2028\u2029') else ln for ln in s.splitlines(True))


def lineprefix_oracle(s: str, p: str) -> str:
    return '\n'.join((p + ln) if ln else ln for ln in s.splitlines())


VALUES = ['L1\nL2', 'one', '', 'a\n\nb\n', 'x\r\ny', '\n', 'p\n  q\n', 'a\x0bb', 'k\r', 'é\u2028z', 'a\n\n']


def gen_autoindent(rng):
    """a template with exactly one marker construct; returns (marker template set, plain construct template set, pre, ws, post, ctx)"""
    ws = ''.join(rng.choice([' ', ' ', '\t']) for _ in range(rng.choice([0, 1, 2, 4, 7])))
    pre = rng.choice(['', 'x', 'head\n', 'a:\n\n', 'b;', '{{ 1 }}\n', 'é\n']).replace('{{ 1 }}', 'one')
    post = rng.choice(['', '|', '\ntail', ';\n', '\n\nz'])
    nl = rng.choice(['\n', '\n', '\r\n'])
    ctx = {'x': rng.choice(VALUES), 'xs': [rng.choice(VALUES) for _ in range(rng.randrange(0, 4))], 'c': rng.random() < 0.8}
    kind = rng.choice(['var', 'var', 'varf', 'tuple', 'int', 'ifml', 'forml', 'if', 'for', 'include', 'set', 'filter', 'call', 'minus'])
    inc = {}
    if kind == 'var':
        cons = ('{{', ' x }}')
    elif kind == 'varf':
        cons = ('{{', ' x | upper }}')
    elif kind == 'tuple':
        cons = ('{{', rng.choice([' x, c }}', ' x, }}', ' xs|first, xs|last }}']))
    elif kind == 'int':
        cons = ('{{', rng.choice([' xs|length }}', ' 5 }}', ' c }}', ' none }}', ' xs }}']))
    elif kind == 'bind':     # the binding is used AFTER the block: part of "renders as the plain construct"
        cons = ('{%', rng.choice([' set y = x %}[{{ y }}]', ' macro mm() %}M{% endmacro %}[{{ mm() }}]', " import 'inc' as lb %}[{{ lb }}]"]))
        inc = {'inc': 'I'}
    elif kind == 'minus':
        cons = ('{{', ' x -}}  ')
    elif kind == 'ifml':      # the idiomatic multi-line block: tags on their own (indented) lines
        cons = ('{%', ' if c %}' + nl + 'a;' + nl + 'b{{ x }};' + nl + rng.choice(['', '    ', '\t']) + '{% endif %}')
    elif kind == 'forml':
        cons = ('{%', ' for i in xs %}' + nl + 'item {{ i }};' + nl + rng.choice(['', '  ']) + '{% endfor %}')
    elif kind == 'if':
        cons = ('{%', ' if c %}A' + nl + 'B{{ x }}' + nl + '{% else %}no{% endif %}')
    elif kind == 'for':
        cons = ('{%', ' for i in xs %}- {{ i }}' + nl + '{% endfor %}')
    elif kind == 'include':
        cons = ('{%', " include 'inc' %}")
        inc = {'inc': 'I1' + nl + '  I2 {{ x }}' + nl}
    elif kind == 'set':
        cons = ('{%', ' set y = x %}')
    elif kind == 'filter':
        cons = ('{%', ' filter upper %}q' + nl + '{{ x }}{% endfilter %}')
    else:
        cons = ('{%', ' macro m(a) %}M{{ a }}' + nl + 'N{% endmacro %}')
    opener, tail = cons
    marker_t = dict(inc, main=pre + ws + opener + '*' + tail + post)
    plain_t = dict(inc, main=opener + tail)
    # environment: a plain Environment or nunavut's real CodeGenEnvironment, with trim_blocks/lstrip_blocks as nnvg sets them (both or none)
    envk = rng.choice(['plain', 'plain', 'codegen'])
    opts = rng.choice([{}, {'trim_blocks': True, 'lstrip_blocks': True}])
    if envk == 'codegen':
        ctx.setdefault('y', 1)
    return {'kind': kind, 'marker': marker_t, 'plain': plain_t, 'pre': pre, 'ws': ws, 'post': post, 'ctx': ctx, 'opener': opener,
            'env': envk, 'opts': opts, 'tail': tail}


# ---------------------------------------------------------------------------------------------
# (2c) the pipeline model Gen/JinjaMini.v (scan -> wrap -> subparse -> render with a context) against the bundled engine
# ---------------------------------------------------------------------------------------------
class MiniGen:
    """templates of the mini language of Gen/JinjaMini.v: text, {{ p }}, set, if/else, for -- each optionally under the marker"""

    def __init__(self, rng, markers: bool):
        self.rng, self.markers = rng, markers

    def prim(self) -> str:
        return self.rng.choice(['x', 'y', 'n', 's', 'c', 'i', 'u', 'z', '7', '0', '"ab"', '""', 'xs'])

    def star(self) -> str:
        return '*' if self.markers and self.rng.random() < 0.45 else ''

    def indent(self, star: str) -> str:
        r = self.rng
        if star:
            return r.choice(['', '\n', 'a\n']) + ''.join(r.choice([' ', ' ', '\t']) for _ in range(r.choice([0, 1, 2, 4])))
        return r.choice(['', '', ' ', '\n  '])

    def node(self, d: int) -> str:
        r = self.rng
        k = r.randrange(9 if d < 2 else 4)
        if k == 0:
            return r.choice(['a', 'b\n', ';', ' ', '\n', 'T ', '* ', '}', '{'])
        if k in (1, 2):
            st = self.star()
            return self.indent(st) + '{{' + st + (' ' if st else r.choice([' ', '- '])) + self.prim() + ' }}'
        if k == 3 or k == 4:
            st = self.star()
            return self.indent(st) + '{%' + st + ' set ' + r.choice(['y', 'z']) + ' = ' + self.prim() + ' %}'
        if k in (5, 6):
            st = self.star()
            s_ = self.indent(st) + '{%' + st + ' if ' + self.prim() + ' %}' + self.body(d + 1)
            if r.random() < 0.5:
                s_ += '{% else %}' + self.body(d + 1)
            return s_ + '{% endif %}'
        st = self.star()
        return self.indent(st) + '{%' + st + ' for i in ' + r.choice(['xs', 'xs', 'u']) + r.choice([' %}', ' -%}']) + self.body(d + 1) + '{% endfor %}'

    def body(self, d: int) -> str:
        return ''.join(self.node(d) for _ in range(self.rng.randrange(0, 4)))

    def template(self) -> str:
        return ''.join(self.node(0) for _ in range(self.rng.randrange(1, 6))).rstrip('\n')


def mini_ctx(rng) -> dict:
    return {'x': rng.choice(['L1\nL2', 'one', '', 'a\n\nb\n', 3]), 'n': rng.randrange(0, 50), 's': rng.choice(['str', '', 'p\nq']),
            'c': rng.choice([0, 1]), 'xs': rng.choice([[1, 2, 3], [], [10, 0]])}


def mini_ctx_enc(ctx: dict) -> str:
    out = []
    for k, v in ctx.items():
        if isinstance(v, int):
            out.append('%s~I%d' % (enc(k), v))
        elif isinstance(v, str):
            out.append('%s~S%s' % (enc(k), enc(v)))
        else:
            out.append('%s~L%s' % (enc(k), '.'.join(map(str, v)) or 'e'))
    return ','.join(out) or '-'


def visits_of(toks) -> typing.Optional[str]:
    out, i = [], 0
    while i < len(toks):
        k, _v = toks[i]
        i += 1
        if k in TAG_END:
            n, inner = 0, []
            while i < len(toks):
                k2, v2 = toks[i]
                i += 1
                n += len(v2)
                inner.append('%s/%s' % (enc(k2), enc(v2)))
                if k2 == TAG_END[k]:
                    break
            out.append('%d|%s' % (n, ','.join(inner)))
    return ';'.join(out) or '-'


# ---------------------------------------------------------------------------------------------
# (3) differential rendering over a grammar of the common core
# ---------------------------------------------------------------------------------------------
# Exclusions (documented upstream changes between the 2.11 line and 3.1, none of them a Nunavut modification) -- see
# design_notes/C19.md: '+' whitespace-control sign ({%+ ... +%}) outside lstrip_blocks; source line breaks other than \n \r\n \r;
# filters indent/urlize/tojson/xmlattr/truncate/title/striptags/groupby/wordwrap/filesizeformat/random; tests added in 2.11+
# (boolean/integer/float/true/false); async; `with context` defaults of import; autoescape/Markup repr; loop.depth etc. are kept.
NAMES = ['x', 'y', 'n', 'xs', 'd', 's', 'undef']
TEXTS = ['a', 'b ', ' c', '\n', '  ', 'T\n', '\n  ', ';', 'é', '}', '{ ', '% ', '# ', '*', '-', '{ *', '\t']
SAFE_FILTERS = ['upper', 'lower', 'length', 'trim', 'first', 'last', 'string', 'list', 'capitalize', 'reverse|list', 'sort', 'abs',
                'default("dflt")', 'join(",")', 'replace("a", "b")', 'int', 'center(7)', 'e', 'sum', 'unique|list', 'min', 'max']
TESTS = ['defined', 'none', 'even', 'odd', 'string', 'number', 'mapping', 'iterable', 'sequence', 'divisibleby(2)', 'undefined']


# small self-contained fragments that walk through the rest of the parser's surface (each is legal in 2.11 and 3.1)
SYNTAX_ATOMS = [
    '{{ a, b }}', '{{ "A", "B" }}', '{{ x|first, x|last }}', '{{ n, }}', '{{ (n, s)|last }}', '{{ [n, s][1:] }}', '{{ s[::2], s[-1], s[:1] }}',
    '{{ -n + +n, 2 ** 3 ** 2, 7 // 2, 7 % 4, not n }}', '{{ "a" "b" ~ 1 }}', '{{ n is divisibleby 3, n is not odd, n is even }}',
    '{{ xs|join(d=", ") }}', '{{ "%s-%s"|format(1, 2) }}', '{{ {"a": 1, "b": [1, 2,],}|dictsort }}', '{{ d.k|default("x", true) }}',
    '{% set ns = namespace(c=0) %}{% for i in range(3) %}{% set ns.c = ns.c + i %}{% endfor %}{{ ns.c }}',
    '{% macro mm(a, b=2) %}{{ a }}{{ b }}{{ varargs }}{{ kwargs|dictsort }}{% endmacro %}{{ mm(1, 2, 3, z=4) }}{{ mm(*[5], **{"b": 6}) }}',
    '{% macro cc() %}[{{ caller(7) }}]{% endmacro %}{% call(v) cc() %}{{ v, v }}{% endcall %}',
    '{% for i in range(4) recursive %}{{ i }}{% if i == 1 %}{{ loop([9]) }}{% endif %}{% endfor %}',
    '{% for i in xs %}{{ loop.cycle("a", "b") }}{{ loop.depth }}{{ loop.previtem, loop.nextitem }}{% endfor %}',
    '{% with a=1, b=(2, 3) %}{{ a, b }}{% endwith %}', '{% with %}{% set q = 1, %}{{ q }}{% endwith %}',
    '{% filter upper|replace("A", "b") %}aa{% endfilter %}', '{% set t %}x{{ n }}{% endset %}{{ t, t|length }}',
    '{% if n is defined and (n, s) %}t{% endif %}', '{% if n in (1, 2, 3,) %}in{% else %}out{% endif %}',
    '{% from "lib" import dbl, K %}{{ dbl(K), K }}', '{% from "lib" import dbl as f, K as k2 %}{{ f(k2) }}',
    '{% block scoped_b scoped %}{{ n }}{% endblock %}', '{% include ["nope", "inc"] ignore missing with context %}',
    '{{ (n if n else s), (n if false) }}', '{{ xs|map("string")|list, xs|select("odd")|list|length }}', '{{ d["k"], d.get("zz", 5), xs[0] if xs }}',
    '{{ 1 if n, 2 }}', '{{ [a for a in xs] }}', '{{ a, b = 1 }}', '{% set a, b = 1 %}', '{% for in xs %}{% endfor %}', '{{ , }}', '{{ (,) }}',
]


class TGen:
    def __init__(self, rng, with_star_comment: bool, opts: typing.Optional[dict] = None):
        self.rng = rng
        self.star = with_star_comment
        self.macros: typing.List[str] = []
        self.opts = opts or {}
        self.lstrip = bool(self.opts.get('lstrip_blocks'))
        self.ls = 'line_statement_prefix' in self.opts

    def ws(self, side: str) -> str:
        return '-' if self.rng.random() < 0.18 else ''

    def num(self, d: int = 0) -> str:
        r = self.rng
        k = r.randrange(7 if d < 2 else 3)
        if k == 0:
            return 'n'
        if k == 1:
            return str(r.randrange(0, 40))
        if k == 2:
            return r.choice(['xs|length', 's|length', 'n|abs', 'd|length', '2.5', '(n + 1)'])
        if k == 3:
            return '(%s %s %s)' % (self.num(d + 1), r.choice(['+', '-', '*']), self.num(d + 1))
        if k == 4:
            return '(%s %s %s)' % (self.num(d + 1), r.choice(['//', '%']), r.choice(['3', '7', '(n + 1)']))
        if k == 5:
            return '(%s if %s else %s)' % (self.num(d + 1), self.boolean(d + 1), self.num(d + 1))
        return r.choice(['range(3)|list|sum', '[1, 2, 3]|max', '2 ** 3', '-n', 'n|int', '(n / 4)|round|int'])

    def string(self, d: int = 0) -> str:
        r = self.rng
        k = r.randrange(7 if d < 2 else 3)
        if k == 0:
            return 's'
        if k == 1:
            return r.choice(['"str"', "'a b'", '"L1\\nL2"', '""', '"x*y"'])
        if k == 2:
            return '%s|string' % r.choice(['n', 'x', 'xs', 'd', 'y'])
        if k == 3:
            return '(%s ~ %s)' % (self.string(d + 1), r.choice([self.string(d + 1), self.num(d + 1)]))
        if k == 4:
            return '%s | %s' % (self.string(d + 1) if d else 's', r.choice(['upper', 'lower', 'trim', 'capitalize', 'replace("a", "b")', 'center(7)', 'e', 'default("dflt")',
                                                                             'reverse|list|join', 'list|join(",")', 'string']))
        if k == 5:
            return r.choice(['s[1:]', 's[:2]', 'xs|join("-")', 'xs|map("string")|join', 'd|dictsort|string', '"%s-%s"|format(n, s)'])
        return '(%s if %s else %s)' % (self.string(d + 1), self.boolean(d + 1), self.string(d + 1))

    def boolean(self, d: int = 0) -> str:
        r = self.rng
        k = r.randrange(7 if d < 2 else 3)
        if k == 0:
            return r.choice(['true', 'false', 'n', 's', 'xs', 'd', 'x', 'y', 'undef'])
        if k == 1:
            return '(%s %s %s)' % (self.num(d + 1), r.choice(['==', '!=', '<', '>=']), self.num(d + 1))
        if k == 2:
            t = r.choice(TESTS)
            return '%s is %s%s' % ('n' if t in ('even', 'odd', 'divisibleby(2)') else r.choice(NAMES), r.choice(['', 'not ']), t)
        if k == 3:
            return '(%s %s %s)' % (self.boolean(d + 1), r.choice(['and', 'or']), self.boolean(d + 1))
        if k == 4:
            return 'not ' + self.boolean(d + 1)
        if k == 5:
            return r.choice(['(%s %s %s)' % (r.choice(['n', '1']), r.choice(['in', 'not in']), r.choice(['xs', '[1, 2, 3]', '(1, 2)'])),
                             '(%s %s %s)' % (r.choice(['"a"', 's']), r.choice(['in', 'not in']), r.choice(['s', 'd', '"xay"']))])
        return '(%s == %s)' % (self.string(d + 1), self.string(d + 1))

    def expr(self, d: int = 0) -> str:
        r = self.rng
        if r.random() < 0.93:     # well-typed: renders in both engines (the point of the differential is the OUTPUT)
            k = r.randrange(10)
            if k < 3:
                return self.num(d)
            if k < 6:
                return self.string(d)
            if k < 8:
                return self.boolean(d)
            if k == 8 and self.macros:
                return '%s(%s)' % (r.choice(self.macros), self.num(d + 1))
            return r.choice(['x', 'y', 'n', 'xs', 'd', 's', 'undef', 'xs|first', 'xs|last', 'd.k', 'd["k"]', 'd.missing', 'none', '[1, 2, 3]', '{"k": 1}', '(1, 2)',
                             'xs|sort', 'xs|unique|list', 'xs|reverse|list', 'range(3)|list', 'xs|select("odd")|list' if False else 'xs|length'])
        # untyped remainder: type errors, undefined operations -- the error paths of both engines must agree as well
        k = r.randrange(14 if d < 2 else 6)
        if k == 0:
            return r.choice(NAMES)
        if k == 1:
            return str(r.randrange(-3, 40))
        if k == 2:
            return r.choice(['"str"', "'a b'", '"L1\\nL2"', '""', '"x*y"'])
        if k == 3:
            return r.choice(['true', 'false', 'none', '[1, 2, 3]', '[]', '{"k": 1}', '(1, 2)', '1.5'])
        if k == 4:
            return r.choice(['xs[0]', 'd.k', 'd["k"]', 'xs|length', 's[1:]', 'd.missing', 'loop.index'])
        if k == 5:
            return r.choice(NAMES) + ' | ' + r.choice(SAFE_FILTERS)
        if k == 6:
            # a comparison is never an operand of an arithmetic operator: 2.x emitted `a * b != c` for `a * (b != c)`
            # (upstream fix in the 2.11/3.0 line, not a Nunavut modification)
            if r.random() < 0.5:
                return '(%s %s %s)' % (self.atom(), r.choice(['+', '-', '*', '//', '%', '~']), self.atom())
            if r.random() < 0.5:   # operands of a comparison are never comparisons themselves (same upstream fix)
                return '(%s %s %s)' % (self.atom(), r.choice(['==', '!=', '<', '>=', 'in', 'not in']), self.atom())
            return '(%s %s %s)' % (self.expr(d + 1), r.choice(['and', 'or']), self.expr(d + 1))
        if k == 7:
            return '(%s if %s else %s)' % (self.expr(d + 1), self.expr(d + 1), self.expr(d + 1))
        if k == 8:
            return 'not ' + self.expr(d + 1)
        if k == 9:
            return '%s is %s%s' % (r.choice(NAMES), r.choice(['', 'not ']), r.choice(TESTS))
        if k == 10:
            return '(%s) | %s' % (self.expr(d + 1), r.choice(SAFE_FILTERS))
        if k == 11 and self.macros:
            return '%s(%s)' % (r.choice(self.macros), self.expr(d + 1))
        if k == 12:
            return r.choice(['range(3)|list', 'xs|join("-")', 'xs|map("string")|join', 'xs|select("odd")|list', 'n * 2', 'n / 4', '2 ** n'])
        return r.choice(NAMES)

    def atom(self) -> str:
        r = self.rng
        return r.choice([r.choice(NAMES), str(r.randrange(0, 9)), '"s"', 'xs|length', 'n', '2.5', 'd.k', '(n + 1)', 'x|default(1)'])

    def text(self) -> str:
        return ''.join(self.rng.choice(TEXTS) for _ in range(self.rng.randrange(0, 4)))

    def tag(self, body: str) -> str:
        left = self.ws('l')
        if not left and self.lstrip and self.rng.random() < 0.12:
            left = '+'     # 2.x knows the '+' sign only as part of the lstrip_blocks regex; '+%}' is 3.x only and never generated
        indent = self.rng.choice(['\n  ', '\n\t', '\n    ', '  ']) if self.rng.random() < (0.3 if self.lstrip else 0.08) else ''
        return indent + '{%' + left + ' ' + body + ' ' + self.ws('r') + '%}'

    def node(self, d: int) -> str:
        r = self.rng
        k = r.randrange(18 if d < 3 else 4)
        if r.random() < 0.06:
            return r.choice(SYNTAX_ATOMS if r.random() < 0.25 else SYNTAX_ATOMS[:-7])     # the last 7 are illegal in both engines
        if r.random() < 0.004:
            # near-marker junk: a sign between opener and `*` is a syntax error in BOTH engines (2.x: operator `+`/`*`, 3.x: sign then `*`)
            return r.choice([' {%+* if x %}y{% endif %}', ' {{+* x }}', ' {%-* if x %}y{% endif %}', '\t{{-* x }}'])
        if k <= 1:
            return self.text()
        if k <= 3:
            if r.random() < 0.25:
                # print statements are parsed with parse_tuple: bare tuples, trailing comma, conditional expressions at top level
                e = r.choice(['%s, %s' % (self.expr(1), self.expr(1)), '%s,' % self.atom(), 'x|first, x|last', '%s, %s, %s' % (self.atom(), self.atom(), self.atom()),
                              '%s if %s' % (self.atom(), self.atom()), '(%s, %s)|join("+")' % (self.atom(), self.atom()), '1, (2, 3), [4, 5,], {"k": (6,)}',
                              '%s, %s if %s else %s' % (self.atom(), self.atom(), self.atom(), self.atom())])
                return '{{' + self.ws('l') + ' ' + e + ' ' + self.ws('r') + '}}'
            return '{{' + self.ws('l') + ' ' + self.expr() + ' ' + self.ws('r') + '}}'
        if k == 4:
            c = r.choice([' c ', 'c', '', ' {{ x }} ', ' {% if %} ', '-', ' * ', '#'])
            if self.star and r.random() < 0.5:
                c = '*' + c
            elif c.startswith('*') or c.startswith('-') or c.startswith('+'):
                c = ' ' + c
            if c.endswith('-') or c.endswith('+'):
                c += ' '
            indent = r.choice(['\n  ', '\n\t', '   ']) if r.random() < (0.3 if self.lstrip else 0.08) else ''
            return indent + '{#' + ('-' if r.random() < 0.1 else '') + c + ('-' if r.random() < 0.1 else '') + '#}'
        if k == 5:
            cond = self.expr()
            if r.random() < 0.15:   # parse_if uses parse_tuple(with_condexpr=False): implicit tuples are legal tests
                cond = r.choice(['n in xs, 2', 'x, y', 'n in (1, 2), 3', '(), ()', 'n,'])
            s = self.tag('if ' + cond) + self.body(d + 1)
            if r.random() < 0.4:
                s += self.tag('elif ' + self.expr()) + self.body(d + 1)
            if r.random() < 0.5:
                s += self.tag('else') + self.body(d + 1)
            return s + self.tag('endif')
        if k == 6:
            it = r.choice(['xs', 'range(3)', 'd', 's', '[]', 'xs|reverse', 'd.items()'])
            filtered = r.random() < 0.15
            head = 'for i in ' + it
            if r.random() < 0.25:   # tuple targets and implicit tuples as iterables
                head = r.choice(['for k, v in d.items()', 'for k, v in d|dictsort', 'for i in 1, 2, 3', 'for i in n, "s"', 'for (a, b) in [(1, 2), (3, 4)]',
                                 'for a, b in [(1, 2), (3, 4)]', 'for k, v in d|dictsort'])
            s = self.tag(head + (' if i' if filtered and head.startswith('for i in') else '')) + self.body(d + 1)
            if 'k, v' in head or 'a, b' in head or '(a, b)' in head:
                s += r.choice(['', '{{ k, v }}' if 'k, v' in head else '{{ a, b }}'])
            # loop.length / revindex / last of a FILTERED loop were wrong in 2.x (upstream fix): not combined
            if r.random() < 0.3 and not filtered:
                s += '{{ loop.index }}{{ loop.first }}{{ loop.last }}{{ loop.length }}{{ loop.revindex0 }}'
            if r.random() < 0.3:
                s += self.tag('else') + self.body(d + 1)
            return s + self.tag('endfor')
        if k == 7:
            if r.random() < 0.3:
                return self.tag(r.choice(['set a, b = %s, %s' % (self.atom(), self.atom()), 'set a, b = (1, 2)', 'set (a, b) = 3, 4',
                                          'set t = 1, 2', 'set t = n,'])) + r.choice(['{{ a }}', '{{ a, b }}', '{{ t }}', ''])
            return self.tag('set %s = %s' % (r.choice(['y', 'x', 'n']), self.expr()))
        if k == 8:
            return self.tag('set blk') + self.body(d + 1) + self.tag('endset') + '{{ blk }}'
        if k == 9:
            name = 'm%d' % len(self.macros)
            s = self.tag('macro %s(a, b=3)' % name) + '{{ a }}' + self.body(d + 1) + '{{ b }}' + self.tag('endmacro')
            if d == 0:
                self.macros.append(name)     # visible to the rest of the template only when defined at top level
            return s + '{{ %s(%s) }}' % (name, self.expr())
        if k == 10:
            return '{% macro cc() %}[{{ caller() }}]{% endmacro %}' + self.tag('call cc()') + self.body(d + 1) + self.tag('endcall')
        if k == 11:
            return self.tag('filter ' + r.choice(['upper', 'lower', 'trim', 'replace("a", "Z")', 'capitalize'])) + self.body(d + 1) + self.tag('endfilter')
        if k == 12:
            return self.tag('raw') + r.choice([' {{ x }} ', '{% if %}', 'r\n', ' {# ', '{{*', ' {%* x', '', '\n    raw line\n', ' {% endraw', '\n  r  ']) \
                + self.tag('endraw')
        if k == 16 and self.ls:
            return '\n%% if ' + self.atom() + '\n' + self.body(d + 1) + '\n  %% endif\n' + r.choice(['', '## whole line\n', 'text ## trailing comment\n'])
        if k == 13:
            return self.tag(r.choice(["include 'inc'", "include 'inc'", "include 'inc' ignore missing", "include 'nope' ignore missing", "include 'inc' without context",
                                      "include ['nope', 'inc']", "include 'inc' with context"] + (["include 'nope'"] if r.random() < 0.15 else [])))
        if k == 14:
            imp, use = r.choice([("import 'lib' as lib", '{{ lib.dbl(2) }}{{ lib.K }}'), ("from 'lib' import dbl", '{{ dbl(3) }}'),
                                 ("from 'lib' import dbl as d2, K", '{{ d2(4) }}{{ K }}'), ("import 'lib' as lib with context", '{{ lib.K }}')])
            return self.tag(imp) + r.choice(['', use, use])
        if k == 15:
            return self.tag('with z = ' + self.expr()) + '{{ z }}' + self.body(d + 1) + self.tag('endwith')
        return self.text()

    def body(self, d: int) -> str:
        return ''.join(self.node(d) for _ in range(self.rng.randrange(0, 4 if d < 2 else 2)))

    def template(self) -> str:
        return ''.join(self.node(0) for _ in range(self.rng.randrange(1, 6)))


def gen_ctx(rng) -> dict:
    return {'x': rng.choice(['val', 'L1\nL2', '', 7, 0, None, ['p', 'q']]), 'y': rng.choice([3, 'why', [], True]),
            'n': rng.randrange(0, 9), 'xs': rng.choice([[1, 2, 3], [], ['a', 'b'], [3, 1, 2, 1]]),
            'd': rng.choice([{'k': 1}, {'k': 'v', 'z': 2}, {}]), 's': rng.choice(['hello', '', 'aXa', 'two words'])}


DIFF_OPTS = [{}, {}, {}, LS, ASP]


def gen_diff_case(rng, with_star_comment: bool) -> dict:
    opts = dict(rng.choice(DIFF_OPTS))
    for flag in ('lstrip_blocks', 'trim_blocks', 'keep_trailing_newline'):
        if rng.random() < 0.4:
            opts[flag] = True
    g = TGen(rng, with_star_comment, opts)
    inc = TGen(rng, with_star_comment, opts)
    templates = {
        'inc': inc.body(1) + 'INC{{ x }}',
        'lib': '{% macro dbl(v) %}{{ v * 2 }}{% endmacro %}{% set K = 5 %}',
    }
    main = g.template()
    mode = rng.randrange(6)
    if mode == 0:   # inheritance
        templates['base'] = 'B[{% block a %}base-a{% endblock %}|{% block b %}' + g.body(1) + '{% endblock %}]' + g.text()
        main = "{% extends 'base' %}" + g.text() + '{% block a %}' + g.body(1) + rng.choice(['', '{{ super() }}']) + '{% endblock %}'
    elif mode == 1:
        main = g.text() + '{% block a %}' + main + '{% endblock %}' + g.text()
    templates['main'] = main
    templates = {k: to_delims(v, opts) for k, v in templates.items()}
    return {'templates': templates, 'main': 'main', 'ctx': gen_ctx(rng), 'opts': opts}


# object addresses inside reprs, also after they went through upper / replace("a", ...) filters
ADDR_RE = re.compile(r'(?i)0x[0-9a-z]{8,16}')


def same(a: dict, b: dict) -> bool:
    if 'harness_failure' in a or 'harness_failure' in b:
        return False
    if 'ok' in a and 'ok' in b:
        return ADDR_RE.sub('0x', a['ok']) == ADDR_RE.sub('0x', b['ok'])
    if 'err' in a and 'err' in b:
        # "failure where upstream fails": the same exception CLASS, and the same template line where both engines report one
        if a['err'] != b['err']:
            return False
        return a.get('lineno') is None or b.get('lineno') is None or a['lineno'] == b['lineno']
    return False


PIECE_RE = re.compile(r'(\{%.*?%\}|\{\{.*?\}\}|\{#.*?#\}|\n)', re.S)


def shrink_diff(case: dict, failing, budget: int = 120) -> dict:
    cur = case
    changed = True
    while changed and budget > 0:
        changed = False
        for name in sorted(cur['templates']):
            pieces = [p for p in PIECE_RE.split(cur['templates'][name]) if p]
            for i in range(len(pieces)):
                cand_t = dict(cur['templates'])
                cand_t[name] = ''.join(pieces[:i] + pieces[i + 1:])
                cand = dict(cur, templates=cand_t)
                budget -= 1
                if budget <= 0:
                    return cur
                if failing(cand):
                    cur, changed = cand, True
                    break
            if changed:
                break
    return cur


def seq_fails(r: dict, steps) -> bool:
    if 'n' not in r or len(r['n']) != len(steps):
        return False
    for st, n_, s_ in zip(steps, r['n'], r['s']):
        if st == 'a':
            ok = (n_.get('err') == 'TemplateAssertionError' and s_.get('ok') == 'RAISEok') or (n_.get('ok') == 'ok' and s_.get('ok') == 'ok')
        else:
            ok = 'ok' in n_ and n_.get('ok') == s_.get('ok')
        if not ok:
            return True
    return False


def shrink_seq(case: dict, budget: int = 40):
    """greedy: drop renders, then shorten scripts, while the nunavut renders still differ from the ordinary conditionals"""
    cur = case
    res = run_impl('ext_seq', [cur])[0]
    changed = True
    while changed and budget > 0:
        changed = False
        cands = [dict(cur, steps=cur['steps'][:i] + cur['steps'][i + 1:]) for i in range(len(cur['steps'])) if len(cur['steps']) > 1]
        cands += [dict(cur, scripts=dict(cur['scripts'], **{k: v[:-1]})) for k, v in cur['scripts'].items() if len(v) > 1]
        for cand in cands:
            budget -= 1
            if budget <= 0:
                break
            r = run_impl('ext_seq', [cand])[0]
            if seq_fails(r, cand['steps']):
                cur, res, changed = cand, r, True
                break
    used = set(cur['steps'])
    cur = dict(cur, templates={k: v for k, v in cur['templates'].items() if k in used}, plain={k: v for k, v in cur['plain'].items() if k in used})
    return cur, res


# ---------------------------------------------------------------------------------------------
def main(chk: core.Check, replay: typing.Optional[str] = None) -> int:
    quick = chk.tier == 'quick'
    n_lex = 2500 if quick else 30000
    n_lex2 = 2500 if quick else 30000
    n_mini = 700 if quick else 7000
    n_lp = 1200 if quick else 12000
    n_ai = 300 if quick else 3000
    n_ext = 200 if quick else 2000
    n_seq = 150 if quick else 1500
    n_diff = 1500 if quick else 20000
    rng = chk.rng

    # ---- 1. proof obligations against the regenerated translation --------------------------------
    res = core.coq_check('C19', ['uni', 'jinjascan', 'jinjarules', 'jinjapins', 'jinjavendor', 'jinjarx'])
    chk.proof_coverage(res, [
        'tools/translators/gen_c19.py: root/comment/raw rule patterns of the bundled lexer (ast-rebuilt and compared with the live compiled '
        'rule), root rule of the installed stock Jinja2, do_lineprefix shape translator, autoindent constants, extension skeletons; '
        'tools/translators/regex_tr.py',
        'T1 table of Python \\s code points taken from the running interpreter (Gen_Uni.v)',
        'hand models py_splitlines / py_join (Gen/JinjaScanBase.v), root_search / scan glue (Gen/JinjaScan.v): validated by the '
        'correspondence runs below, not verified against CPython / the tokeniter loop',
        'extraction: Require Extraction ExtrOcamlBasic only; OCaml 4.13.1; ocaml/c19_driver.ml',
        'whole-engine equivalence bundled vs. stock: differential execution only (no theorem)',
        'vendored copy (jinja2 + markupsafe, 774 shape digests): baseline = the tree itself (upstream 2.11 commit of /repo/subtree.json not available offline); the '
        'documented-delta list is self-evidenced (derived from markers / git log of the same tree): completeness of the modification set is NOT verified',
        'pipeline model Gen/JinjaMini.v: tag-internal tokens are taken from the real lexer (unmodified states); mini language only (primaries, if/else, set, for)',
    ])
    broken: typing.List[str] = []
    if not res.ok:
        broken.append('proof obligation: %s %s' % (res.failed_file or 'translator', res.failed_theorem or ''))
        if 'JinjaVendor' in (res.failed_file or ''):
            # name the edited functions of the vendored copy (they must be classified in Gen/JinjaVendorPins.v)
            try:
                from tools.translators import gen_c19
                txt = open(os.path.join(core.COQ, 'theories', 'Gen', 'JinjaVendorPins.v'), encoding='utf-8').read()
                exp = dict(re.findall(r'\(s2l "([^"]+)", s2l "([0-9a-f]{64})"\)', txt))
                cur = dict(gen_c19.vendor_tables(core.REPO)[0])
                changed = sorted(k for k in set(exp) | set(cur) if exp.get(k) != cur.get(k))
                broken.append('vendored copy: shape of %s differs from the committed digest table' % ', '.join(changed[:12]))
            except Exception as ex:  # noqa
                broken.append('vendored copy changed (could not list the functions: %r)' % (ex,))
    ok_model, exe, log = core.build_extracted('c19', 'ExtractC19.v', 'c19_driver.ml')
    if not ok_model:
        broken.append('model does not build/extract: ' + log[-300:])

    stats: typing.Dict[str, int] = {}

    def bump(k: str, n: int = 1) -> None:
        stats[k] = stats.get(k, 0) + n

    # ---- known finding probe --------------------------------------------------------------------
    # (known_findings.json is merged from known_findings.d/ by the lead; read our own fragment too so that the check is
    #  correct before and after that merge -- nothing is ever written)
    try:
        with open(os.path.join(core.VERIF, 'known_findings.d', 'C19.json'), encoding='utf-8') as f:
            chk.known += [e for e in json.load(f)['findings'] if PROP in e['properties'] and chk.known_entry(e['id']) is None]
    except OSError:
        pass
    kf_live = False
    if chk.is_known(KF):
        w = chk.known_entry(KF)['witness']
        r = run_impl('diff', [{'templates': {'main': w['template']}, 'main': 'main', 'ctx': {}}])[0]
        kf_live = r.get('b', {}).get('ok') == w['bundled'] and r.get('s', {}).get('ok') == w['stock'] and w['bundled'] != w['stock']
        if kf_live:
            chk.report_known(KF)

    kf2_live = False
    if chk.is_known(KF2):
        w2 = chk.known_entry(KF2)['witness']
        r2 = run_impl('render_b', [{'templates': {'main': w2['template']}, 'main': 'main', 'ctx': {}}])[0]
        kf2_live = r2.get('err') == w2['bundled_error']
        if kf2_live:
            chk.report_known(KF2)

    kf3_live = False
    if chk.is_known(KF3):
        w3 = chk.known_entry(KF3)['witness']
        r3 = run_impl('diff', [{'templates': {'main': w3['template']}, 'main': 'main', 'ctx': {}}, {'templates': {'main': w3['plain_construct']}, 'main': 'main', 'ctx': {}}])
        kf3_live = r3[0].get('b', {}).get('ok') == w3['bundled'] and r3[1].get('s', {}).get('ok') == w3['plain_output']
        if kf3_live:
            chk.report_known(KF3)

    kf5_live = kf6_live = kf7_live = False
    if chk.is_known(KF5):
        w5 = chk.known_entry(KF5)['witness']
        r5 = run_impl('render_b', [{'templates': {'main': w5['template']}, 'main': 'main', 'ctx': w5['ctx'], 'opts': w5['opts']}])[0]
        kf5_live = r5.get('ok') == w5['bundled'] and w5['bundled'] != w5['expected']
        if kf5_live:
            chk.report_known(KF5)
    if chk.is_known(KF6):
        w6 = chk.known_entry(KF6)['witness']
        r6 = run_impl('render_b', [{'templates': {'main': w6['template']}, 'main': 'main', 'ctx': w6['ctx'], 'opts': w6['opts']}])[0]
        kf6_live = r6.get('ok') == w6['bundled'] and w6['bundled'] != w6['expected']
        if kf6_live:
            chk.report_known(KF6)
    if chk.is_known(KF7):
        w7 = chk.known_entry(KF7)['witness']
        r7 = run_impl('render_b', [{'templates': {'main': w7['template']}, 'main': 'main', 'ctx': w7['ctx']}])[0]
        kf7_live = r7.get('ok') == w7['bundled']
        if kf7_live:
            chk.report_known(KF7)
    # every further witness of the SCOPE entry is executed too: a listed witness that stops reproducing while the finding is live is a change
    if kf3_live:
        for wm in chk.known_entry(KF3)['witness'].get('more', []):
            tpls = wm.get('templates') or {'main': wm['template']}
            rm = run_impl('render_b', [{'templates': tpls, 'main': 'main', 'ctx': {}}])[0]
            okw = (rm.get('ok') == wm['bundled']) if 'bundled' in wm else (rm.get('err') == wm.get('bundled_error'))
            bump('scope_witnesses_probed')
            if not okw:
                chk.notes.append('F-JINJA-AUTOINDENT-SCOPE: listed witness no longer reproduces: %r -> %r' % (tpls, rm))
                bump('scope_witnesses_changed')
    kf4_live = False
    if chk.is_known(KF4):
        w4 = chk.known_entry(KF4)['witness']
        r4 = run_impl('diff', [{'templates': {'main': w4['template']}, 'main': 'main', 'ctx': {}, 'opts': w4['opts']}])[0]
        kf4_live = r4.get('b', {}).get('ok') == w4['bundled'] and r4.get('s', {}).get('ok') == w4['stock'] and w4['bundled'] != w4['stock']
        if kf4_live:
            chk.report_known(KF4)

    def kf_trigger(text: str) -> bool:
        """a comment opener directly followed by `*`"""
        return '{#*' in text

    bad_oracle: typing.List[dict] = []    # property violated by the implementation (found input)
    bad_model: typing.List[dict] = []     # model/implementation correspondence broken
    distinct = set()
    samples: typing.List[typing.Any] = []

    if replay:
        doc = json.load(open(replay))
        if 'case' in doc and isinstance(doc['case'], dict) and 'templates' in doc['case']:
            r = run_impl('diff', [doc['case']])[0]
            print('replay: bundled=%r stock=%r' % (r.get('b'), r.get('s')))
            if not same(r['b'], r['s']):
                chk.violation({'case': doc['case'], 'bundled': r['b'], 'stock': r['s'], 'what': 'replayed disagreement'}, found_input=True)
            return chk.finish()

    # ---- 2. lexer: model vs. bundled tokeniter, stock model vs. stock tokeniter, bundled vs. stock (falsifier) -----
    corpus = ['a  {#* c #}b', 'x\n  {{* y }}\n', 'a {%- if x %} b', '{% raw %} {{ {% endraw %}', ' \n {%- raw -%} z {%- endraw -%} ',
              'a{#', '{{', 'a {# b', '{%* raw %}x{% endraw %}', ' \t{#*', '{{*', '\u00a0{%* x %}', '{# #}', '{%', 'a{{ "}}" }}b', '']
    sources = [c.rstrip('\n') for c in corpus] + [gen_source(rng) for _ in range(n_lex)]
    # options that leave the ROOT rule untouched are part of the model tie: trim_blocks (\n? in the comment/raw/block end rules,
    # regenerated as *_trim) and keep_trailing_newline (source normalisation only)
    src_opts = [{} for _ in corpus] + [rng.choice(MODEL_OPTS) for _ in range(n_lex)]
    sources = [(s_ + rng.choice(['', '\n', '\n\n'])) if o.get('keep_trailing_newline') else s_ for s_, o in zip(sources, src_opts)]
    lexed = run_impl('lex', [{'src': s_, 'opts': o} for s_, o in zip(sources, src_opts)])
    model_lines, plan = [], []
    for src, lx, o in zip(sources, lexed, src_opts):
        if 'harness_failure' in lx:
            bad_model.append({'tie': 'lexer harness', 'detail': lx['harness_failure']})
            break
        rb, kb = split_root(lx['b']['toks'], lx['b']['err'])
        rs, ks = split_root(lx['s']['toks'], lx['s']['err'])
        t = 't' if o.get('trim_blocks') else ''
        bump('lex_model_trim_blocks', bool(t))
        bump('lex_model_keep_trailing_newline', bool(o.get('keep_trailing_newline')))
        model_lines.append('S B%s %s %s' % (t, enc(src), ','.join(map(str, kb)) or '-'))
        model_lines.append('S K%s %s %s' % (t, enc(src), ','.join(map(str, ks)) or '-'))
        model_lines.append('M %s' % enc(src))
        plan.append((src, lx, rb, rs))
    mout = run_model(exe, model_lines) if ok_model else []
    for i, (src, lx, rb, rs) in enumerate(plan):
        has_m = bool(MARKER_RE.search(src))
        plus = bool(PLUS_RE.search(src))
        bump('lex_sources')
        bump('lex_with_marker', has_m)
        bump('lex_with_minus', '-' in src and ('{%-' in src or '{{-' in src or '{#-' in src))
        bump('lex_with_raw', any(k == 'raw_begin' for k, _ in rb))
        bump('lex_with_comment', any(k == 'comment_begin' for k, _ in rb))
        bump('lex_errors_bundled', lx['b']['err'] is not None)
        if ok_model:
            mb, ms, mm = parse_model_scan(mout[3 * i]), parse_model_scan(mout[3 * i + 1]), mout[3 * i + 2]
            exp_b = None if lx['b']['err'] else rb
            if mb != exp_b:
                bad_model.append({'tie': 'Gen/JinjaScan.v scan_bundled vs bundled Lexer.tokeniter', 'source': src, 'model': mb, 'implementation': exp_b,
                                  'impl_error': lx['b']['err']})
            bump('traces_bundled_lexer')
            if mm != ('OK 1' if has_m else 'OK 0'):
                bad_model.append({'tie': 'has_marker vs regex', 'source': src, 'model': mm})
            if not plus:
                exp_s = None if lx['s']['err'] else obs_stock(rs)
                got_s = None if ms is None else (ms if isinstance(ms, str) else obs_stock(ms))
                if got_s != exp_s:
                    bad_model.append({'tie': 'Gen/JinjaScan.v scan_stock vs stock Jinja2 Lexer.tokeniter', 'source': src, 'model': got_s,
                                      'implementation': exp_s, 'impl_error': lx['s']['err']})
                bump('traces_stock_lexer')
            else:
                bump('lex_skipped_plus_sign')
            if has_m and mb is not None and not isinstance(mb, str) and mb != ms:
                distinct.add(src)
        # falsifier at lexer level: the property's oracle = the stock lexer
        if not plus and not DOC_MARKER_RE.search(src):
            eb = ('err',) if lx['b']['err'] else obs_stock(rb)
            es = ('err',) if lx['s']['err'] else obs_stock(rs)
            # a lexer error only matters if it is the root state's doing: compare error-ness and the root tokens
            if eb != es:
                if kf_live and kf_trigger(src):
                    bump('known_finding_instances_lexer')
                else:
                    bad_oracle.append({'level': 'lexer', 'source': src, 'opts': src_opts[i], 'bundled': eb, 'stock': es})
            bump('lex_oracle_compared')
    samples += [{'source': s} for s in sources[16:22]]

    # ---- 2b. the two REAL lexers under the Environment options that reach the lexer (no model: anchors/lookaheads of the
    #          lstrip_blocks rules are outside Regex.v): lstrip_blocks x trim_blocks x keep_trailing_newline, line statement /
    #          comment prefixes, non-default delimiters; indented raw/endraw/comment tags and the {%+ / {%- forms ----------
    o_cases = []
    for src0, o in OPT_CORPUS + [(None, None)] * n_lex2:
        if src0 is None:
            o = dict(rng.choice(COMBOS))
            if rng.random() < 0.4:
                o['keep_trailing_newline'] = True
            src0 = gen_source_opts(rng, o)
        o_cases.append({'src': to_delims(src0, o), 'opts': o})
    o_lexed = run_impl('lex', o_cases)
    # the generic scanner model (Gen/JinjaRx.v) with the rule list regenerated for that option combination vs. the bundled lexer
    x_lines, x_idx = [], []
    for j, (c, lx) in enumerate(zip(o_cases, o_lexed)):
        base = {k: v for k, v in c['opts'].items() if k != 'keep_trailing_newline'}
        if 'harness_failure' in lx or base not in COMBOS:
            continue
        rb, kb = split_root(lx['b']['toks'], lx['b']['err'])
        x_lines.append('X B %d %s %s' % (COMBOS.index(base), enc(c['src']), ','.join(map(str, kb)) or '-'))
        x_idx.append((j, rb))
    x_out = run_model(exe, x_lines) if ok_model else []
    for (j, rb), line in zip(x_idx, x_out):
        lx = o_lexed[j]
        exp_b = None if lx['b']['err'] else rb
        got = parse_model_scan(line)
        bump('traces_bundled_lexer_options')
        if got != exp_b:
            bad_model.append({'tie': 'Gen/JinjaRx.v scanx (regenerated rules of the option combination) vs bundled Lexer.tokeniter', 'source': o_cases[j]['src'],
                              'opts': o_cases[j]['opts'], 'model': got, 'implementation': exp_b, 'impl_error': lx['b']['err']})
    for c, lx in zip(o_cases, o_lexed):
        if 'harness_failure' in lx:
            bad_model.append({'tie': 'lexer harness (options)', 'detail': lx['harness_failure']})
            break
        bump('lexopt_sources')
        for flag in ('lstrip_blocks', 'trim_blocks', 'keep_trailing_newline', 'line_statement_prefix', 'block_start_string'):
            bump('lexopt_' + flag, flag in c['opts'])
        if excluded_by_upstream_change(c['src'], c['opts']):
            bump('lexopt_excluded_upstream_change')
            continue
        rb, _ = split_root(lx['b']['toks'], lx['b']['err'])
        rs, _ = split_root(lx['s']['toks'], lx['s']['err'])
        eb = ('err',) if lx['b']['err'] else obs_stock(rb)
        es = ('err',) if lx['s']['err'] else obs_stock(rs)
        bump('lexopt_compared')
        bump('lexopt_with_raw', any(k == 'raw_begin' for k, _ in rb))
        if eb != es:
            bad_oracle.append({'level': 'lexer under options', 'source': c['src'], 'opts': c['opts'], 'bundled': eb, 'stock': es})
    samples += o_cases[len(OPT_CORPUS):len(OPT_CORPUS) + 4]

    # ---- 2c. the extracted PIPELINE model (Gen/JinjaMini.v: scan -> wrap -> subparse with nested bodies -> render with a context;
    #          marker decision = what the code in /repo does now) vs. the bundled engine, all regenerated option combinations,
    #          marker and marker-free templates incl. set / if / for under the marker; conservativity oracle on the marker-free ones
    m_cases = []
    for _ in range(n_mini):
        ci = rng.randrange(len(COMBOS))
        o = dict(COMBOS[ci])
        g = MiniGen(rng, markers=rng.random() < 0.7)
        src = to_delims(g.template(), o)
        m_cases.append({'ci': ci, 'templates': {'main': src}, 'main': 'main', 'ctx': mini_ctx(rng), 'opts': o, 'src': src})
    m_lex = run_impl('lex', [{'src': c['src'], 'opts': c['opts']} for c in m_cases])
    m_diff = run_impl('diff', m_cases)
    m_lines, m_idx = [], []
    for j, (c, lx) in enumerate(zip(m_cases, m_lex)):
        if 'harness_failure' in lx or lx['b']['err']:
            continue
        o = c['opts']
        sv = enc(o.get('variable_start_string', '{{'))
        sb = ','.join(enc(x) for x in [o.get('block_start_string', '{%'), o.get('line_statement_prefix')] if x)
        v = visits_of(lx['b']['toks'])
        m_lines.append('P B %d %s %s %s %s %s' % (c['ci'], sv, sb, enc(c['src']), mini_ctx_enc(c['ctx']), v))
        m_lines.append('P U %d %s %s %s %s %s' % (c['ci'], sv, sb, enc(c['src']), mini_ctx_enc(c['ctx']), v))
        m_idx.append(j)
    m_out = run_model(exe, m_lines) if ok_model else []
    for n_, j in enumerate(m_idx):
        c, r = m_cases[j], m_diff[j]
        o = c['opts']
        bump('mini_cases')
        bump('mini_combo_%d' % c['ci'])
        got = r.get('b', {})
        starts = [o.get('variable_start_string', '{{'), o.get('block_start_string', '{%')] + ([o['line_statement_prefix']] if o.get('line_statement_prefix') else [])
        uses_marker = any(st + '*' in c['src'] for st in starts)
        bump('mini_with_marker', uses_marker)
        mb_ = mu_ = None
        if ok_model:
            mb_, mu_ = m_out[2 * n_], m_out[2 * n_ + 1]
            exp = ('OK ' + enc(got['ok'])) if 'ok' in got else 'ERR'
            bump('traces_pipeline_model')
            if mb_ != exp:
                bad_model.append({'tie': 'Gen/JinjaMini.v mini_bundled (pipeline model) vs bundled render', 'case': c, 'model': (dec(mb_[3:]) if mb_.startswith('OK ') else mb_),
                                  'implementation': got})
            elif 'ok' in got and got['ok'] and uses_marker:
                distinct.add(('mini', c['src'], json.dumps(c['ctx'], sort_keys=True)))
        if not uses_marker:
            # the property's oracle: a template without the marker renders as in stock Jinja2
            bump('mini_oracle_compared')
            if not same(got, r.get('s', {})):
                quirk_reproduced = (ok_model and kf4_live and mb_ == (('OK ' + enc(got['ok'])) if 'ok' in got else 'ERR')
                                    and 'ok' in r.get('s', {}) and mu_ == 'OK ' + enc(r['s']['ok']))
                d2_trigger = any(st.endswith('*') for st in starts)
                if quirk_reproduced:
                    bump('known_finding_instances_marker_delim')
                elif kf4_live and d2_trigger and not ok_model:
                    # the model is not available (broken obligation): a known-finding instance can be neither confirmed nor refuted;
                    # it is not offered as THE failing input of an unrelated breakage
                    bump('mini_oracle_unclassified_model_unavailable')
                else:
                    bad_oracle.append({'level': 'marker-free template under options', 'case': c, 'bundled': got, 'stock': r.get('s')})
    samples += [{'mini': c['src'], 'opts': c['opts'], 'ctx': c['ctx']} for c in m_cases[:4]]

    # ---- 3. lineprefix and auto-indent rendering vs. the model ------------------------------------------------
    lps = [['a\r\n\nb\n', '  '], ['', ' '], ['\n', 'p'], ['a\n\n', '\t'], ['x', ''], ['a\x0bb\x0cc\x1cd\x85e\u2028f', '>']] + [gen_lp(rng) for _ in range(n_lp)]
    impl_lp = run_impl('lineprefix', lps)
    mlp = run_model(exe, ['L %s %s' % (enc(s), enc(p)) for s, p in lps]) if ok_model else []
    for i, (s, p) in enumerate(lps):
        got = impl_lp[i].get('ok')
        bump('lineprefix_cases')
        exp_lp = prefix_lines_keepends(s, p)          # the property, independent of the implementation
        if got != exp_lp:
            # known-finding instance only with the trigger (a final or non-LF terminator) AND the quirk-faithful model's exact output
            trig = s != '' and (s[-1:] in LINE_TERMS or any(ch in s for ch in LINE_TERMS if ch != '\n'))
            if kf5_live and trig and got == lineprefix_oracle(s, p):
                bump('known_finding_instances_lineprefix_terminator')
            else:
                bad_oracle.append({'level': 'lineprefix', 's': s, 'prefix': p, 'implementation': impl_lp[i], 'expected': exp_lp})
        if ok_model:
            bump('traces_lineprefix')
            if mlp[i] != 'OK ' + enc(got if got is not None else '\0'):
                bad_model.append({'tie': 'Generated do_lineprefix vs filters.do_lineprefix', 's': s, 'prefix': p, 'model': mlp[i], 'implementation': impl_lp[i]})
        if got is not None and got != s and s.splitlines()[1:]:
            distinct.add(('lp', s, p))

    # The expectation is built INDEPENDENTLY of the implementation: the plain construct (marker and its blank run removed) is rendered by
    # STOCK Jinja2 with the same options, every non-empty line of the emitted text is prefixed here (prefix_lines_keepends), pre/post are
    # plain text subject only to the lexer's own rules (trim_blocks after a block tag, final newline, `-}}`).  The bundled side is a plain
    # Environment or nunavut's real CodeGenEnvironment.
    ais = [gen_autoindent(rng) for _ in range(n_ai)]
    # finalize / order of stringification (D2): a few print statements under a finalize hook
    for _ in range(max(6, n_ai // 25)):
        a = gen_autoindent(rng)
        a.update(kind='var', opener='{{', tail=' x }}', env='plain', opts={'finalize': 'none_to_empty'})
        a['ctx']['x'] = rng.choice([None, None, 'a\nb', 3])
        a['marker'] = {'main': a['pre'] + a['ws'] + '{{* x }}' + a['post']}
        a['plain'] = {'main': '{{ x }}'}
        ais.append(a)

    def stock_opts(a):
        o = dict(a['opts'])
        if a['env'] == 'codegen':
            o.update(keep_trailing_newline=True, strict_undefined=True)
        return o
    plain_cases = [{'templates': a['plain'], 'main': 'main', 'ctx': a['ctx'], 'opts': stock_opts(a)} for a in ais]
    r_plain = run_impl('diff', plain_cases)
    mk_cases = [{'templates': a['marker'], 'main': 'main', 'ctx': a['ctx'], 'opts': a['opts']} for a in ais]
    r_marker = [None] * len(ais)
    for envk, op in (('plain', 'render_b'), ('codegen', 'render_cg')):
        idx = [i for i, a in enumerate(ais) if a['env'] == envk]
        for i, r in zip(idx, run_impl(op, [mk_cases[i] for i in idx])):
            r_marker[i] = r
    ai_lines = []
    for a, rp in zip(ais, r_plain):
        a['plain_out'] = rp.get('s', {}).get('ok', '')
        ai_lines.append('LM 0 %s %s' % (enc(a['plain_out']), enc(a['ws'])))      # the quirk-faithful (legacy) filter model on the stock value
        ai_lines.append('L %s %s' % (enc(a['plain_out']), enc(a['ws'])))         # the filter as translated from /repo now
    m_ai = run_model(exe, ai_lines) if ok_model else []
    for i, a in enumerate(ais):
        bump('autoindent_cases')
        bump('autoindent_' + a['kind'])
        bump('autoindent_env_' + a['env'])
        bump('autoindent_trim_lstrip', bool(a['opts'].get('trim_blocks')))
        rp = r_plain[i]
        if 'ok' not in rp.get('s', {}):
            if a['env'] == 'codegen' and 'err' in rp.get('s', {}) and 'err' in (r_marker[i] or {}):
                bump('autoindent_both_fail')      # StrictUndefined etc.: the plain construct fails in stock, the marker one in the bundled engine
                continue
            bad_oracle.append({'level': 'autoindent plain construct', 'case': a, 'bundled': rp.get('b'), 'stock': rp.get('s')})
            continue
        is_block = a['opener'] != '{{'
        post = a['post']
        if is_block and a['opts'].get('trim_blocks') and post.startswith('\n') and not a['tail'].rstrip().endswith('-%}'):
            post = post[1:]                      # trim_blocks: the first newline after a block tag
        if a['kind'] == 'minus':
            post = post.lstrip()                 # `-}}`
        if a['env'] == 'plain' and not a['opts'].get('keep_trailing_newline') and (a['pre'] + a['ws'] + a['tail'] + a['post']).endswith('\n') and post.endswith('\n'):
            post = post[:-1]                     # the lexer drops one final newline of the source (CodeGenEnvironment keeps it)
        value = a['plain_out']
        expected = a['pre'] + prefix_lines_keepends(value, a['ws']) + post
        got = (r_marker[i] or {}).get('ok')
        if got == expected:
            if a['ws'] and '\n' in value.strip('\n'):
                distinct.add(('ai', a['marker']['main'], json.dumps(a['ctx'], sort_keys=True), a['env']))
            continue
        # a deviation: it is an instance of a known finding only if the trigger holds AND the quirk-faithful model reproduces the output
        quirk = None
        if ok_model and m_ai[2 * i].startswith('OK '):
            quirk = a['pre'] + dec(m_ai[2 * i][3:]) + post
        term_trigger = value != '' and (value[-1:] in '\n\r\x0b\x0c\x1c\x1d\x1e\x85\u2028\u2029' or any(ch in value for ch in '\r\x0b\x0c\x1c\x1d\x1e\x85\u2028\u2029'))
        if kf5_live and term_trigger and quirk is not None and got == quirk:
            bump('known_finding_instances_lineprefix_terminator')
        elif kf6_live and a['opts'].get('finalize') and a['ctx'].get('x') is None and got == a['pre'] + a['ws'] + 'None' + post:
            bump('known_finding_instances_autoindent_finalize')
        elif kf2_live and a['kind'] in ('tuple', 'int') and (r_marker[i] or {}).get('err') == 'AttributeError':
            bump('known_finding_instances_autoindent_nonstr')
        else:
            bad_oracle.append({'level': 'autoindent', 'case': {k: a[k] for k in ('marker', 'plain', 'ctx', 'ws', 'kind', 'env', 'opts')}, 'implementation': r_marker[i],
                               'expected': expected, 'stock_value_of_plain_construct': value, 'quirk_model': quirk})
        if ok_model:
            bump('traces_autoindent')
    samples += [{'autoindent': a['marker']['main'], 'ctx': a['ctx'], 'env': a['env'], 'opts': a['opts']} for a in ais[:4]]

    # ---- 4. assert / ifuses in nunavut's CodeGenEnvironment vs. the model and vs. ordinary conditionals in stock Jinja2 ----
    ext_cases, ext_plain, ext_model, ext_exp = [], [], [], []
    for _ in range(n_ext):
        if rng.random() < 0.6:
            ncl = rng.randrange(1, 5)
            cls_ = [(rng.random() < 0.5, rng.random() < 0.5, j + 1) for j in range(ncl)]
            has_else = rng.random() < 0.6
            src = plain = ''
            for j, (neg, q, b) in enumerate(cls_):
                kw = ('if' if j == 0 else 'elif') + ('nuses' if neg else 'uses')
                src += '{%% %s "q%d" %%}%d' % (kw, j, b)
                plain += '{%% %s %sq%d %%}%d' % ('if' if j == 0 else 'elif', 'not ' if neg else '', j, b)
            if has_else:
                src += '{% else %}99'
                plain += '{% else %}99'
            src += '{%% %s %%}' % rng.choice(['endifuses', 'endifnuses'])
            plain += '{% endif %}'
            queries = {'q%d' % j: q for j, (neg, q, b) in enumerate(cls_)}
            ext_cases.append({'src': src, 'ctx': {}, 'queries': queries})
            ext_plain.append({'templates': {'main': plain}, 'main': 'main', 'ctx': queries})
            ext_model.append('I %d %s' % (99 if has_else else 0, ' '.join('%d,%d,%d' % (neg, q, b) for neg, q, b in cls_)))
            ext_exp.append(None)
        else:
            v = rng.choice([0, 1, '', 'a', [], [0], None, True, False, {}, {'k': 1}, 2.5])
            ext_cases.append({'src': rng.choice(['{% assert x %}ok', '{% assert x, "msg" %}ok', 'a{%- assert x -%} ok']), 'ctx': {'x': v}, 'queries': {}})
            ext_plain.append(None)
            ext_model.append('T %d' % (1 if v else 0))
            ext_exp.append(bool(v))
    r_ext = run_impl('ext', ext_cases)
    r_extp = run_impl('diff', [c for c in ext_plain if c is not None])
    m_ext = run_model(exe, ext_model) if ok_model else []
    pi = 0
    for i, c in enumerate(ext_cases):
        bump('ext_cases')
        if ext_plain[i] is not None:
            plain_out = r_extp[pi].get('s', {}).get('ok')
            pi += 1
            got = r_ext[i].get('ok')
            if got != plain_out:
                bad_oracle.append({'level': 'ifuses', 'case': c, 'implementation': r_ext[i], 'ordinary_conditional_in_stock_jinja2': plain_out})
            if ok_model:
                bump('traces_ext')
                if m_ext[i] != 'OK %s' % (got if got not in ('', None) else '0'):
                    bad_model.append({'tie': 'parse_ifuses/eval_if vs CodeGenEnvironment', 'case': c, 'model': m_ext[i], 'implementation': r_ext[i]})
            if len(c['queries']) > 1:
                distinct.add(('ext', c['src'], json.dumps(c['queries'], sort_keys=True)))
        else:
            raised = r_ext[i].get('err') == 'TemplateAssertionError'
            okout = r_ext[i].get('ok') is not None and r_ext[i]['ok'].endswith('ok')
            if raised == ext_exp[i] or okout != ext_exp[i]:
                bad_oracle.append({'level': 'assert', 'case': c, 'implementation': r_ext[i]})
            if ok_model:
                bump('traces_ext')
                if m_ext[i] != ('OK out' if okout else 'OK raise'):
                    bad_model.append({'tie': 'render_assert vs CodeGenEnvironment', 'case': c, 'model': m_ext[i], 'implementation': r_ext[i]})
    samples += ext_cases[:3]

    # ---- 4b. ONE long-lived CodeGenEnvironment, several renders, use queries whose answers change between and during renders
    #          (scripts advancing with every call; query attributes re-pointed between renders) vs. the model run over the same
    #          scripts and vs. the ordinary {% if q() %} chains rendered by stock Jinja2 over the same scripts ---------------
    seq_cases, seq_model, seq_meta = [], [], []
    for _ in range(n_seq):
        nq = rng.randrange(1, 4)
        scripts = {'q%d' % j: [rng.random() < 0.5 for _ in range(rng.randrange(1, 7))] for j in range(nq)}
        scripts['a0'] = [rng.random() < 0.7 for _ in range(rng.randrange(1, 4))]
        templates, plain, chains_of = {}, {}, {}
        for t in range(rng.randrange(1, 4)):
            src = pl = ''
            chains = []
            for _c in range(rng.randrange(1, 4)):     # several chains per template: the same query is asked again mid-render
                ncl = rng.randrange(1, 4)
                cl = [(rng.random() < 0.5, rng.randrange(nq), 10 * len(chains) + j + 1) for j in range(ncl)]
                els = 9 if rng.random() < 0.5 else 0
                for j, (neg, q, b) in enumerate(cl):
                    src += '{%% %s%s "q%d" %%}%d;' % ('if' if j == 0 else 'elif', 'nuses' if neg else 'uses', q, b)
                    pl += '{%% %s %sq%d() %%}%d;' % ('if' if j == 0 else 'elif', 'not ' if neg else '', q, b)
                if els:
                    src += '{% else %}9;'
                    pl += '{% else %}9;'
                src += '{%% %s %%}' % rng.choice(['endifuses', 'endifnuses'])
                pl += '{% endif %}'
                chains.append((els, cl))
            templates['t%d' % t], plain['t%d' % t], chains_of['t%d' % t] = src, pl, chains
        templates['a'] = '{% assert a0() %}ok'
        plain['a'] = '{% if not a0() %}RAISE{% endif %}ok'
        steps = [rng.choice(sorted(templates)) for _ in range(rng.randrange(2, 7))]
        seq_cases.append({'templates': templates, 'plain': plain, 'scripts': scripts, 'steps': steps})
        flat = [ch for st in steps if st != 'a' for ch in chains_of[st]]
        seq_meta.append((steps, chains_of))
        seq_model.append('Q %s %s' % (','.join('%s:%s' % (k[1:], '.'.join('1' if b else '0' for b in v)) for k, v in sorted(scripts.items()) if k != 'a0'),
                                      ' '.join('/'.join(['%d' % els] + ['%d,%d,%d' % (neg, q, b) for neg, q, b in cl]) for els, cl in flat)))
    r_seq = run_impl('ext_seq', seq_cases)
    m_seq = run_model(exe, seq_model) if ok_model else []
    for i, (c, r) in enumerate(zip(seq_cases, r_seq)):
        bump('seq_cases')
        if 'setup_error' in r or 'harness_failure' in r:
            bad_model.append({'tie': 'ext_seq harness', 'detail': r})
            continue
        steps, chains_of = seq_meta[i]
        # property oracle: every render equals the ordinary conditional chain in stock Jinja2 (assert: raises iff falsy)
        for j, st in enumerate(steps):
            n_, s_ = r['n'][j], r['s'][j]
            if st == 'a':
                ok = (n_.get('err') == 'TemplateAssertionError' and s_.get('ok') == 'RAISEok') or (n_.get('ok') == 'ok' and s_.get('ok') == 'ok')
            else:
                ok = 'ok' in n_ and n_.get('ok') == s_.get('ok')
            if not ok:
                small_c, small_r = c, r
                if not any(b_['level'].startswith('ifuses/assert over') for b_ in bad_oracle):
                    small_c, small_r = shrink_seq(c)     # shrink the first one only
                bad_oracle.append({'level': 'ifuses/assert over renders in one environment', 'case': small_c, 'nunavut': small_r['n'],
                                   'ordinary_conditionals_in_stock_jinja2': small_r['s']})
                break
        if ok_model and m_seq[i].startswith('OK'):
            nums = m_seq[i].split(' ')[1:]
            k, exp = 0, []
            for st in steps:
                if st == 'a':
                    exp.append(None)
                    continue
                n_ch = len(chains_of[st])
                exp.append(''.join('%s;' % x for x in nums[k:k + n_ch] if x != '0'))
                k += n_ch
            got = [None if st == 'a' else r['n'][j].get('ok') for j, st in enumerate(steps)]
            bump('traces_ext_seq')
            if got != exp:
                bad_model.append({'tie': 'render_ifuses_script (parse_ifusesT/eval_ifT) vs renders in one CodeGenEnvironment', 'case': c, 'model': exp, 'implementation': got})
        elif ok_model:
            bad_model.append({'tie': 'render_ifuses_script', 'model': m_seq[i]})
        if len(set(map(str, r['n']))) > 1:
            distinct.add(('seq', json.dumps(c, sort_keys=True)))
    samples += seq_cases[:2]

    # ---- 5. differential rendering: the part no model covers ---------------------------------------------------
    diff_cases = [gen_diff_case(rng, with_star_comment=(kf_live and rng.random() < 0.1)) for _ in range(n_diff)]
    r_diff = run_impl('diff', diff_cases)
    diff_bad = []
    for c, r in zip(diff_cases, r_diff):
        bump('diff_templates')
        text = ''.join(c['templates'].values())
        b, s = r.get('b', r), r.get('s', r)
        bump('diff_both_ok', 'ok' in b and 'ok' in s)
        bump('diff_both_fail', 'err' in b and 'err' in s)
        if 'err' in b and 'err' in s:
            bump('diff_both_fail_class_%s' % b['err'])
            bump('diff_both_fail_with_lineno', b.get('lineno') is not None and s.get('lineno') is not None)
        for flag in ('lstrip_blocks', 'trim_blocks', 'keep_trailing_newline', 'line_statement_prefix', 'block_start_string'):
            bump('diff_opt_' + flag, flag in c.get('opts', {}))
        bump('diff_has_indented_endraw', bool(re.search(r'\n[ \t]+(\{%|<%)[-+]? endraw', text)))
        bump('diff_has_plus_sign', '{%+' in text or '<%+' in text)
        for kw in ('if', 'for', 'set', 'macro', 'call', 'filter', 'raw', 'include', 'import', 'extends', 'with', '{#', '-%}', '{%-'):
            bump('diff_has_' + kw, kw in text)
        if 'ok' in b and 'ok' in s and b['ok'] == s['ok'] and len(b['ok']) > 3 and ('{%' in text):
            distinct.add(('diff', c['templates']['main']))
        if not same(b, s):
            if kf_live and kf_trigger(text):
                fixed = {k: v.replace('{#*', '{# *').replace('<!--*', '<!-- *') for k, v in c['templates'].items()}
                r2 = run_impl('diff', [dict(c, templates=fixed)])[0]
                if same(r2['b'], r2['s']):
                    bump('known_finding_instances_render')
                    continue
            diff_bad.append((c, b, s))
    samples += [{'template': c['templates']['main'], 'ctx': c['ctx'], 'opts': c['opts']} for c in diff_cases[:5]]
    # the differential is about OUTPUT: at most ~15 % of the generated templates may fail in both engines (measured every run)
    frac_fail = stats.get('diff_both_fail', 0) / max(1, stats.get('diff_templates', 1))
    chk.coverage['differential_both_fail_fraction'] = round(frac_fail, 4)
    if frac_fail > 0.20:
        bad_model.append({'tie': 'differential generator', 'detail': 'both-fail fraction %.3f exceeds the floor (0.20): the grammar no longer exercises rendering' % frac_fail})
    if diff_bad:
        c, b, s = diff_bad[0]

        def failing(cand):
            rr = run_impl('diff', [cand])[0]
            return not same(rr.get('b', rr), rr.get('s', rr))
        small = shrink_diff(c, failing)
        rr = run_impl('diff', [small])[0]
        bad_oracle.insert(0, {'level': 'differential rendering', 'case': small, 'original_case': c, 'bundled': rr.get('b'), 'stock': rr.get('s'),
                              'n_disagreements': len(diff_bad)})

    chk.coverage.update({
        'evaluations': stats.get('lex_sources', 0) + stats.get('lineprefix_cases', 0) + stats.get('autoindent_cases', 0) + stats.get('ext_cases', 0)
        + stats.get('diff_templates', 0) + stats.get('lexopt_sources', 0) + stats.get('seq_cases', 0) + stats.get('mini_cases', 0),
        'distinct_nontrivial': len(distinct),
        'rule': 'distinct cases among: lexer sources containing a marker on which the bundled and stock scanner models differ; lineprefix inputs '
                'with more than one line that the filter changes; auto-indent templates with a non-empty blank run and a multi-line construct; '
                'ifuses chains with more than one clause; differential templates with at least one block tag whose two renderings agree and '
                'are longer than 3 characters',
        'samples': samples[:30],
        'traces_validated_against_impl': sum(v for k, v in stats.items() if k.startswith('traces_')),
        'distribution': stats,
    })

    if bad_oracle:
        chk.violation({'case': bad_oracle[0].get('case', bad_oracle[0]), 'detail': bad_oracle[0], 'n_failing': len(bad_oracle), 'broken': broken,
                       'what': 'the implementation violates the property oracle (%s)' % bad_oracle[0]['level']}, found_input=True)
    elif bad_model:
        chk.violation({'correspondence': bad_model[0]['tie'], 'detail': bad_model[0], 'n_disagreements': len(bad_model), 'broken': broken,
                       'what': 'model and implementation disagree but no input violating the property was found'}, found_input=False)
    elif broken:
        chk.violation({'broken': broken, 'coq_error': res.error_text[-2000:], 'translators': res.translator_msgs,
                       'what': 'proof obligation or model build no longer checks; searched %d cases on the implementation'
                               % chk.coverage['evaluations']}, found_input=False)
    return chk.finish()
