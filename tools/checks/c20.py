"""C20: generated HTML documentation is well-formed, escaped and internally linked."""
from __future__ import annotations

import concurrent.futures
import html.parser
import json
import os
import re
import typing
import urllib.parse

from tools.lib import core

PROP = 'C20'

MANIFEST = dict(
    technique='Coq proof (induction over strings, type trees, namespace trees and template-skeleton expansions) about a model of the '
              'HTML generator whose filters, escape function, autoescape configuration, template names, template skeletons, output-site '
              'table and macro call structure are re-translated from /repo on every run; extracted model vs. real '
              '`nnvg --target-language html` output compared as html.parser token streams',
    text='Theorems in coq/theories/Properties/C20.v (history of fixed findings in coq/theories/History/C20_history.v). Escaping: both '
         'escape functions in use leave no <, >, quote or stray & and are inverted by entity decoding, for every string; a documentation '
         'sink is character data for every text iff it escapes. Output sites of the REAL templates: the translator regenerates for every '
         '{{ }} site the expression AST (Jinja precedence), all variable bindings ({% set %}, parameter defaults, call-site arguments) and '
         'a class certificate; Coq recomputes every class from visible whitelists, checks the certificate as an inductive invariant '
         '(sinks_classified_safe, vm_compute), the classifier is proved sound for an evaluation relation in which documentation, unknown '
         'attributes/filters and unbound names are arbitrary strings (cls_expr_sound), hence every value a site can print is free of < > '
         'and quotes or is display_type markup in a text position (html_site_values_ok). filter_display_type is translated and proved to '
         'render exactly the emitter pieces. Well-formedness: skeleton_balanced is sound for every instantiation of a template skeleton '
         'and every regenerated skeleton passes; the emitter pages are balanced for every tree, and -- without any per-page check -- '
         'pieces_ok holds of every namespace page whose non-documentation strings are quote_free (DSDL grammar) when the doc sinks '
         'escape, so the scanned character stream is well-formed for arbitrary documentation (ns_page_wf_now). Links: UNIVERSAL theorem '
         '-- for every site closed under references, every page at ANY namespace depth, every hyperlink (sidebar, type links incl. array '
         'elements and service halves), the relative href resolved against the page directory lands on a generated index page and its '
         'fragment is an id of that page (links_resolve_universal / _now; URL algebra by induction on path lists); the regenerated '
         'call/guard structure of the macros equals the inlining structure of the emitter.',
    note='Trusted: Coq kernel; T2 translator tools/translators/gen_c20.py on pyfun_tr.py (filters) and its template scanner (Jinja '
         'lexer, HTML state machine, Jinja expression parser/classifier; fails closed on constructs it cannot classify); extraction '
         '(ExtrOcamlBasic only) + ocaml/c20_driver.ml; Python html.parser as reference tokenizer of oracle and correspondence. The '
         'emitter model Gen/HtmlModel.v is validated against the real output on every run (namespace trees up to six levels deep, '
         'cross-root and deep cross-level references), not verified. Numbers printed by the templates are canonicalised away. '
         'Hypotheses that remain and are stated: identifiers / type expressions / printed numbers are quote_free (DSDL grammar, `nst_ok`, '
         'side conditions of `evals`); referenced composites are listed under a generated root namespace (`ref_resolves`, pydsdl). '
         'Type pages (type_base.j2) are covered by the skeleton theorems and the oracle, not by the unconditional pieces_ok theorem.',
    design='§5 C20')

HARNESS = os.path.join(core.VERIF, 'tools', 'harness', 'c20_impl.py')
KEPT_ATTRS = ('id', 'href', 'class', 'data-target', 'aria-controls', 'onclick')
VOID = {'hr', 'input', 'br', 'meta', 'link', 'img', 'area', 'base', 'col', 'embed', 'source', 'track', 'wbr'}
SPECIALS = '<>&"\''

# findings of this property (merged into known_findings.json by the lead; read from the fragment until then)
FRAGMENT = os.path.join(core.VERIF, 'known_findings.d', 'C20.json')


def enc(s: str) -> str:
    return '.'.join(str(ord(c)) for c in s) if s else 'e'


def dec(s: str) -> str:
    return '' if s in ('e', '') else ''.join(chr(int(t)) for t in s.split('.'))


# =============================================================================================
# case generation: random DSDL namespace sets
# =============================================================================================
BENIGN = ['Plain words zq%d only.', 'value = 3; (unit) [m/s] {x} 100%% zq%d', 'see zq%d: a.b.C.1.0 #tag', 'zq%d']
SENTINELS = [
    '<zq%d>bold</zq%d>',
    '<script>zqalert%d(1)</script>',
    '</pre><zq%d x="1">',
    'a < b && c > d "zq%d" \'q\'',
    '&lt;zq%d&gt; &amp; &#60;',
    '</div></div><zq%d>',
    'x <zq%d y',
    '<i>zq%d',
    '"><zq%d onload=\'x\'>',
    "5 > 3 & 2 < 4 zq%d",
    # attribute context: try to leave a quoted attribute value
    '" onmouseover="zq%d()" x="',
    "' onclick='zq%d()' x='",
    # JS-string context (onclick="toggleCollapse(event, '...')", querySelector("#...")): try to leave the string
    "');zqalert%d(1);//",
    '");zqalert%d(1);//',
    # URL context (href="..."): fragment, query, space, scheme
    '#zq%d?x=1 y&z=2',
    'javascript:zqalert%d(1)',
    # backticks (JS template literals) and characters outside the BMP / non-ASCII
    '`zq%d` ${x} \U0001F600 \u4e2d \u00e9',
]
PAYLOAD_KIND = ['element', 'script', 'close-pre', 'ops-quotes', 'entities', 'close-div', 'open-tag', 'unclosed-i', 'attr-break', 'ops',
                'attr-dq', 'attr-sq', 'js-sq', 'js-dq', 'url-frag', 'url-scheme', 'backtick-nonbmp']
HEAVY = ['<!-- zq%d']   # swallows the rest of the page in a real parser: only in a few cases

PRIMS = ['bool', 'uint8', 'uint3', 'int16', 'float32', 'truncated uint12', 'saturated int7', 'uint64', 'float16', 'truncated float64']
CONSTS = ["uint8 %s = '<'", "uint8 %s = '&'", "uint8 %s = '>'", "uint8 %s = '\"'", 'float32 %s = 1/3', 'bool %s = true',
          'int16 %s = -5', 'uint16 %s = 0x3c', "uint8 %s = '\\''"]


class CaseGen:
    def __init__(self, rng, flavour: str, cid: str):
        self.rng = rng
        self.flavour = flavour       # benign | sentinel | mixed | heavy
        self.cid = cid
        self.counter = 0
        self.docs: typing.List[str] = []     # every doc text placed into the DSDL (as written)
        self.files: typing.Dict[str, typing.Dict[str, str]] = {}
        self.kinds: typing.Dict[str, int] = {}
        self.types: typing.List[dict] = []   # generated so far: name (full), major, minor, deprecated, service, root
        self.port = 100

    def doc(self) -> str:
        r = self.rng
        self.counter += 1
        k = self.counter
        if self.flavour == 'benign' or (self.flavour == 'mixed' and r.random() < 0.5):
            t = r.choice(BENIGN)
        elif self.flavour == 'heavy' and r.random() < 0.15:
            t = r.choice(HEAVY)
        else:
            t = r.choice(SENTINELS)
        if t in SENTINELS:
            self.kinds[PAYLOAD_KIND[SENTINELS.index(t)]] = self.kinds.get(PAYLOAD_KIND[SENTINELS.index(t)], 0) + 1
        t = t % ((k,) * t.count('%d'))
        self.docs.append(t)
        return t

    def maybe_doc(self, p=0.6) -> typing.Optional[str]:
        return self.doc() if self.rng.random() < p else None

    def header(self) -> str:
        out = ''
        for _ in range(self.rng.choice([0, 1, 1, 2])):
            out += '# %s\n' % self.doc()
        return out

    def field_type(self, deprecated_ok: bool, root: str) -> str:
        r = self.rng
        cands = [t for t in self.types if not t['service'] and (deprecated_ok or not t['deprecated'])]
        k = r.random()
        if cands and k < 0.45:
            t = r.choice(cands)
            base = '%s.%d.%d' % (t['name'], t['major'], t['minor'])
            return base + r.choice(['', '', '[2]', '[<=3]', '[<3]'])
        base = r.choice(PRIMS)
        return base + r.choice(['', '', '', '[4]', '[<=10]', '[<5]'])

    def body(self, deprecated: bool, root: str, union: bool, allow_extent: bool) -> str:
        r = self.rng
        lines = []
        n = r.choice([0, 1, 2, 3, 4]) if not union else r.choice([2, 3])
        used_composite = False
        for i in range(n):
            ft = self.field_type(deprecated, root)
            if '.' in ft:
                used_composite = True
            d = self.maybe_doc()
            lines.append('%s f%d%s' % (ft, i, ('   # ' + d) if d else ''))
        if not union and r.random() < 0.3:
            lines.append('void%d' % r.choice([1, 3, 8]) + (('   # ' + self.doc()) if r.random() < 0.3 else ''))
        for i in range(r.choice([0, 0, 1, 2])):
            d = self.maybe_doc(0.4)
            lines.append(r.choice(CONSTS) % ('K%d' % i) + (('   # ' + d) if d else ''))
        r.shuffle(lines)
        if union:
            lines.insert(0, '@union')
        if allow_extent and not used_composite and r.random() < 0.3:
            lines.append('@extent 4096')
        else:
            lines.append('@sealed')
        return '\n'.join(lines) + '\n'

    def add_type(self, root: str, ns: typing.List[str], short: str, major: int, minor: int, text: str, port=None,
                 deprecated=False, service=False) -> None:
        rel = os.path.join(*(ns[1:] + ['%s%s.%d.%d.dsdl' % (('%d.' % port) if port is not None else '', short, major, minor)]))
        self.files.setdefault(root, {})[rel] = text
        self.types.append({'name': '.'.join(ns + [short]), 'major': major, 'minor': minor, 'deprecated': deprecated,
                           'service': service, 'root': root})

    def gen(self) -> dict:
        r = self.rng
        tag = ''.join(r.choice('abcdefgh') for _ in range(2))
        roots = ['r' + tag] + (['q' + tag + '_x'] if r.random() < 0.6 else [])
        nss: typing.List[typing.List[str]] = []
        for root in roots:
            nss.append([root])
            if r.random() < 0.35:   # a chain five or six levels deep; types land on every level and reference each other freely
                chain = [root]
                for lvl in range(r.choice([4, 5])):
                    chain = chain + [r.choice(['l', 'm_n', 'k']) + str(lvl)]
                    nss.append(chain)
                nss.append(chain)       # weight the deepest level
            for i in range(r.choice([0, 1, 1, 2])):
                sub = [root, r.choice(['sub', 'b_c', 'deep', 'n1']) + str(i)]
                nss.append(sub)
                if r.random() < 0.35:
                    nss.append(sub + [r.choice(['inner', 'x_y'])])
        n_types = r.choice([2, 3, 4, 5, 6]) + (3 if any(len(x) >= 5 for x in nss) else 0)
        for i in range(n_types):
            ns = r.choice(nss)
            root = ns[0]
            short = r.choice(['T', 'Msg', 'c_T', 'Node']) + str(i)
            kind = r.choice(['struct', 'struct', 'struct', 'union', 'service', 'empty', 'versions', 'minors'])
            deprecated = r.random() < 0.12
            hdr = self.header()
            dep_line = '@deprecated\n' if deprecated else ''
            port = None
            if r.random() < 0.2 and kind in ('struct', 'union', 'service'):
                self.port += 1
                port = self.port
            if kind == 'service':
                text = (hdr + dep_line + self.body(deprecated, root, False, True) + '---\n' + self.header()
                        + self.body(deprecated, root, r.random() < 0.3, True))
                self.add_type(root, ns, short, 1, 0, text, port, deprecated, True)
            elif kind == 'empty':
                self.add_type(root, ns, short, r.choice([0, 1]), r.choice([1, 2]), hdr + dep_line + '@sealed\n', None, deprecated)
            elif kind == 'versions':
                self.add_type(root, ns, short, 1, 0, hdr + dep_line + self.body(deprecated, root, False, True), None, deprecated)
                self.add_type(root, ns, short, 2, 3, self.header() + dep_line + self.body(deprecated, root, False, True), None, deprecated)
            elif kind == 'minors':
                body = 'uint8 a   # %s\n@sealed\n' % self.doc()
                self.add_type(root, ns, short, 1, 1, hdr + dep_line + body, None, deprecated)
                self.add_type(root, ns, short, 1, 10, self.header() + dep_line + body, None, deprecated)
            else:
                text = hdr + dep_line + self.body(deprecated, root, kind == 'union', True)
                major = r.choice([0, 1, 1, 3])
                self.add_type(root, ns, short, major, r.choice([0, 1, 7] if major else [1, 7]), text, port, deprecated)
        # namespace documentation pseudo types
        for ns in nss:
            if r.random() < 0.4:
                self.add_type(ns[0], ns, '_', 0, 1, '# %s\n@sealed\n' % self.doc())
                self.types.pop()
        for root in roots:
            if root not in self.files:
                self.add_type(root, [root], 'Lone', 1, 0, self.header() + 'uint8 a\n@sealed\n')
        return {'id': self.cid, 'flavour': self.flavour, 'roots': self.files, 'docs': self.docs, 'payload_kinds': self.kinds}


CORPUS = [
    {'id': 'k-escape', 'flavour': 'sentinel', 'docs': ['<script>zqalert1(1)</script>'],
     'roots': {'demo': {'Msg.1.0.dsdl': '# <script>zqalert1(1)</script>\nuint8 a\n@sealed\n'}}},
    {'id': 'k-links', 'flavour': 'benign', 'docs': [],
     'roots': {'rega': {'Inner.1.0.dsdl': 'uint8 x\n@sealed\n',
                        'sub/Outer.1.2.dsdl': 'rega.Inner.1.0 inner\nrega.Inner.1.0[3] arr\nregb.Other.1.0 other\nuint8[<=10] bytes\nvoid3\n@sealed\n',
                        'Svc.1.0.dsdl': 'uint8 a\n@sealed\n---\nrega.Inner.1.0[<=2] r\n@sealed\n'},
               'regb': {'Other.1.0.dsdl': 'float32 f\nuint8 LT = \'<\'\n@sealed\n'}}},
    # namespaces six levels deep with references into the deep levels, out of them, and between them
    {'id': 'k-deep', 'flavour': 'benign', 'docs': [],
     'roots': {'deep': {'Top.1.0.dsdl': 'deep.a.b.c.d.e.Leaf.1.0 leaf\ndeep.a.b.c.d.Mid.1.0[<=2] mids\ndeep.a.b.Third.1.0 third\n@sealed\n',
                        'Root0.1.0.dsdl': 'uint8 r\n@sealed\n',
                        'a/Up.1.0.dsdl': 'uint8 y\n@sealed\n',
                        'a/b/Third.1.0.dsdl': 'deep.a.b.c.d.e.Leaf.1.0 leaf\n@sealed\n',
                        'a/b/c/Fourth.1.0.dsdl': 'uint16 f\n@sealed\n',
                        'a/b/c/d/Mid.1.0.dsdl': 'deep.a.Up.1.0 u\ndeep.a.b.c.Fourth.1.0 f\n@sealed\n',
                        'a/b/c/d/e/Leaf.1.0.dsdl': 'uint8 x\n@sealed\n',
                        'a/b/c/d/e/Back.1.0.dsdl': 'deep.Root0.1.0 r\ndeep.a.b.c.d.e.Leaf.1.0[2] l\nother.x.y.z.w.Far.1.0 far\n@sealed\n'},
               'other': {'x/y/z/w/Far.1.0.dsdl': 'deep.a.b.c.d.e.Leaf.1.0 leaf\n@sealed\n', 'Near.1.0.dsdl': 'other.x.y.z.w.Far.1.0 far\n@sealed\n'}}},
]
ESCAPE_WITNESS = CORPUS[0]


def gen_cases(rng, n: int) -> typing.List[dict]:
    cases = [json.loads(json.dumps(c)) for c in CORPUS]
    flavours = ['benign', 'benign', 'sentinel', 'sentinel', 'mixed', 'heavy']
    i = 0
    while len(cases) < n:
        cases.append(CaseGen(rng, flavours[i % len(flavours)], 'c%04d' % i).gen())
        i += 1
    return cases


# =============================================================================================
# html.parser token streams (the reference tokenizer of the correspondence and of the oracle)
# =============================================================================================
NUM_RE = re.compile(r'\[(extent|max length) [-+.\deE]+ (bytes|bits)\]')


def collapse(s: str) -> str:
    return ' '.join(s.split())


class Tok(html.parser.HTMLParser):
    def __init__(self):
        super().__init__(convert_charrefs=True)
        self.ev: typing.List[tuple] = []

    def handle_starttag(self, tag, attrs):
        self.ev.append(('s', tag, attrs))

    def handle_endtag(self, tag):
        self.ev.append(('e', tag))

    def handle_startendtag(self, tag, attrs):
        self.ev.append(('s', tag, attrs))
        self.ev.append(('e', tag))

    def handle_data(self, data):
        self.ev.append(('t', data))

    def handle_comment(self, data):
        self.ev.append(('c', data))

    def handle_decl(self, decl):
        self.ev.append(('d', decl))

    def handle_pi(self, data):
        self.ev.append(('d', data))

    def unknown_decl(self, data):
        self.ev.append(('d', data))


def events(text: str) -> typing.List[tuple]:
    p = Tok()
    p.feed(text)
    p.close()
    return p.ev


def canon(text: str, mask_href: bool = False) -> typing.List[list]:
    """token stream with whitespace-only text dropped, adjacent text merged, only the modelled attributes kept"""
    out: typing.List[list] = []
    for e in events(text):
        if e[0] == 't':
            if out and out[-1][0] == 't':
                out[-1][1] += e[1]
            else:
                out.append(['t', e[1]])
        elif e[0] == 's':
            at = {}
            for k, v in e[2]:
                if k in KEPT_ATTRS and k not in at:
                    at[k] = collapse(v or '')
            if mask_href and 'href' in at and not at['href'].startswith(('javascript', '#', '/')):
                at['href'] = '*'
            out.append(['s', e[1], at])
        else:
            out.append([e[0], collapse(e[1])])
    res = []
    for t in out:
        if t[0] == 't':
            t[1] = NUM_RE.sub(r'[\1 # \2]', collapse(t[1]))
            if not t[1]:
                continue
        res.append(t)
    return res


def balance(ev: typing.List[tuple]) -> typing.Optional[str]:
    """None when start/end tags are balanced and properly nested (void elements need no end tag)"""
    stk: typing.List[str] = []
    for e in ev:
        if e[0] == 's' and e[1] not in VOID:
            stk.append(e[1])
        elif e[0] == 'e':
            if e[1] in VOID:
                continue
            if not stk:
                return 'end tag </%s> with no open element' % e[1]
            if stk[-1] != e[1]:
                return 'end tag </%s> closes <%s>' % (e[1], stk[-1])
            stk.pop()
    if stk:
        return 'unclosed <%s>' % stk[-1]
    return None


def region_between(text: str, start: str, end: str, last_end: bool = True) -> typing.Optional[str]:
    i = text.find(start)
    if i < 0:
        return None
    j = text.rfind(end) if last_end else text.find(end, i)
    if j < i:
        return None
    return text[i:j]


def ns_regions(text: str) -> typing.Optional[typing.List[str]]:
    a = region_between(text, '<div id="sidebar"', '</aside>', last_end=False)
    b = region_between(text, '<h2>Documentation for namespace', '<script>')
    if a is None or b is None:
        return None
    b = re.sub(r'(\s*</div>){2}\s*$', '', b)
    return [a, b]


def type_regions(text: str) -> typing.Optional[typing.List[str]]:
    if text == '':
        return ['']
    i = text.find('<body')
    j = text.rfind('</body>')
    if i < 0 or j < i:
        return None
    return [text[i:j + len('</body>')]]


# =============================================================================================
# the property as an executable oracle on the generated tree (independent of the Coq model)
# =============================================================================================
def read_tree(outdir: str) -> typing.Dict[str, str]:
    pages = {}
    for d, _, fs in os.walk(outdir):
        for f in fs:
            p = os.path.join(d, f)
            with open(p, encoding='utf-8', errors='replace') as fh:
                pages[os.path.relpath(p, outdir).replace(os.sep, '/')] = fh.read()
    return pages


def is_type_link(h: str) -> bool:
    return not (h.startswith('javascript:') or h == '/reg/Namespace.html' or h.startswith(('http:', 'https:')))


def oracle(case: dict, pages: typing.Dict[str, str]) -> typing.List[dict]:
    """list of failures: {'kind': 'balance'|'text'|'link', 'page':, ...}"""
    fails = []
    parsed = {rel: events(text) for rel, text in pages.items() if rel.endswith('.html')}
    ids = {rel: {v for e in ev if e[0] == 's' for k, v in e[2] if k == 'id'} for rel, ev in parsed.items()}
    for rel, ev in parsed.items():
        msg = balance(ev)
        if msg:
            fails.append({'kind': 'balance', 'page': rel, 'what': msg})
        # sentinels: no element or script of ours, and every doc text that reached the page is there as character data
        text_all = collapse(' '.join(e[1] for e in ev if e[0] == 't'))
        raw = pages[rel]
        in_script = False
        for e in ev:
            if e[0] == 's':
                for k, v in e[2]:
                    if 'zq' in k or (v is not None and 'zq' in v and not (k in ('content',) and False)):
                        fails.append({'kind': 'text', 'page': rel, 'what': 'DSDL text reached attribute %s=%r of <%s>' % (k, (v or '')[:40], e[1])})
            if e[0] == 's' and e[1].startswith('zq'):
                fails.append({'kind': 'text', 'page': rel, 'what': 'DSDL text became element <%s>' % e[1]})
            if e[0] == 's':
                in_script = e[1] == 'script'
            elif e[0] == 'e':
                in_script = False
            elif e[0] == 't' and in_script and 'zqalert' in e[1]:
                fails.append({'kind': 'text', 'page': rel, 'what': 'DSDL text became a script element: %s' % collapse(e[1])[:60]})
            elif e[0] == 'c' and 'zq' in e[1]:
                fails.append({'kind': 'text', 'page': rel, 'what': 'DSDL text became a comment'})
        for d in case.get('docs', []):
            m = re.search(r'zq(?:alert)?\d+', d)
            if m and re.search(re.escape(m.group(0)) + r'(?!\d)', raw) and collapse(d) not in text_all:
                fails.append({'kind': 'text', 'page': rel, 'doc': d, 'what': 'documentation text is not present as character data'})
        # links
        for e in ev:
            if e[0] == 's' and e[1] == 'a':
                for k, v in e[2]:
                    if k == 'href' and v is not None and is_type_link(v):
                        why = link_failure(rel, v, pages, ids)
                        if why:
                            fails.append({'kind': 'link', 'page': rel, 'href': v, 'what': why})
    return fails


def link_failure(rel: str, href: str, pages, ids) -> typing.Optional[str]:
    if href.startswith('#'):
        return None if href[1:] in ids.get(rel, ()) else 'no element with id %r on the page' % href[1:]
    u = urllib.parse.urlsplit(urllib.parse.urljoin('http://h/' + rel, href))
    if u.netloc != 'h':
        return 'leaves the site'
    path = u.path.lstrip('/')
    if '..' in path.split('/'):
        return 'leaves the output tree'
    if path.endswith('/') or path == '':
        path += 'index.html'
    if path not in pages:
        return 'target page %s is not generated' % path
    if u.fragment and u.fragment not in ids.get(path, ()):
        return 'page %s has no element with id %r' % (path, u.fragment)
    return None


def doc_has_special(case: dict) -> bool:
    return any(c in d for d in case.get('docs', []) for c in SPECIALS)


# =============================================================================================
# running the implementation and the model
# =============================================================================================
def run_harness(work: str, cases: typing.List[dict], selftest: typing.Optional[dict] = None) -> dict:
    req = {'work': work, 'cases': [{'id': c['id'], 'roots': c['roots']} for c in cases]}
    if selftest is not None:
        req['selftest'] = selftest
    p = core.run([core.PY, HARNESS], input=json.dumps(req), env=core.repo_env(), timeout=1500)
    try:
        return json.loads(p.stdout[p.stdout.rindex('@@C20@@') + 7:])
    except Exception:
        return {'out': [{'id': c['id'], 'err': 'harness failure: ' + p.stdout[-600:], 'cli': []} for c in cases],
                'selftest': {'err': p.stdout[-600:]}}


def run_impl(work: str, cases: typing.List[dict], jobs: int = 6) -> typing.List[dict]:
    if not cases:
        return []
    jobs = max(1, min(jobs, len(cases)))
    slices = [cases[i::jobs] for i in range(jobs)]
    res: typing.Dict[str, dict] = {}
    with concurrent.futures.ThreadPoolExecutor(max_workers=jobs) as ex:
        for doc in ex.map(lambda sl: run_harness(work, sl), slices):
            for o in doc['out']:
                res[o['id']] = o
    return [res.get(c['id'], {'id': c['id'], 'err': 'no result', 'cli': []}) for c in cases]


def run_model(exe: str, lines: typing.List[str]) -> typing.List[str]:
    p = core.run([exe], input='\n'.join(lines) + '\n', timeout=900)
    return p.stdout.splitlines()


def parse_site_output(lines: typing.List[str], pos: int) -> typing.Tuple[typing.Optional[typing.List[dict]], int]:
    """pages until END; returns (pages | None on ERR, next position)"""
    pages = []
    while pos < len(lines):
        l = lines[pos]
        pos += 1
        if l == 'END':
            return pages, pos
        if l.startswith('ERR'):
            return None, pos
        t = l.split(' ')
        if t[0] == 'PAGE':
            d = [] if t[1] == '-' else [dec(x) for x in t[1].split('/')]
            pages.append({'rel': '/'.join(d + [dec(t[2])]), 'pieces_ok': t[3] == '1', 'scan_wf': t[4] == '1', 'regions': [],
                          'ids': [], 'hrefs': []})
        elif t[0] == 'R':
            pages[-1]['regions'].append(dec(t[1]) if len(t) > 1 else '')
        elif t[0] == 'I':
            pages[-1]['ids'] = [dec(x) for x in t[1:] if x]
        elif t[0] == 'H':
            pages[-1]['hrefs'] = [(dec(x.rsplit(':', 1)[0]), x.endswith(':1')) for x in t[1:] if x]
    return None, pos


def model_sites(exe: str, impl: typing.List[dict], mode: str) -> typing.List[typing.Optional[typing.List[dict]]]:
    lines = ['SITE %s %s' % (mode, o['site']) if o.get('site') else 'SITE %s (bad)' % mode for o in impl]
    out = run_model(exe, lines)
    res, pos = [], 0
    for _ in impl:
        pages, pos = parse_site_output(out, pos)
        res.append(pages)
    return res


# =============================================================================================
# translator / hand-model self tests: extracted definitions vs. the Python originals
# =============================================================================================
def selftest_inputs(rng) -> dict:
    alpha = ['a', 'B', '<', '>', '&', '"', "'", ' ', ';', '#', 'x', '7', 'é', '中', '\U0001F600', '&amp;', '&lt;', '.', '_']
    esc = ['', '<script>alert(1)</script>', '&amp;', '&&', "'\"", 'coffee > tea'] + \
          [''.join(rng.choice(alpha) for _ in range(rng.randrange(0, 12))) for _ in range(60)]
    uniq = [['foo', 'Foo', 'fOO'], ['coffee > tea'], ['', '', 'A', 'a'], ['x_1_1', 'x_1_1', 'x_1_10', 'X_1_1']] + \
           [[rng.choice(['ab', 'Ab', 'a<b', 'T_1_0', 'T_1_00', '']) for _ in range(rng.randrange(1, 7))] for _ in range(20)]
    tag = [['a.b.C', 1, 0, 'a', 'a.b', False], ['rega.sub.Outer', 1, 2, 'rega', 'rega.sub', False], ['x_y.z.T', 0, 255, 'x_y', 'x_y.z', False],
           ['r.Svc.Request', 1, 0, 'r', 'r.Svc', True], ['r.n.Svc.Response', 2, 3, 'r', 'r.n.Svc', True]]
    for _ in range(30):
        comps = [rng.choice(['a', 'b_c', 'N1', 'x']) for _ in range(rng.randrange(2, 5))]
        half = rng.random() < 0.3
        tag.append(['.'.join(comps + (['Request'] if half else [])), rng.randrange(0, 256), rng.randrange(0, 256), comps[0],
                    '.'.join(comps if half else comps[:-1]), half])
    names = ['type_info.j2', 'x.html', 'x.HTML', 'a.htm', 'b.xml.j2', 'c.json', 'd.JSON', 'html', '.html', 'e.xhtml', 'f.j2.xml', 'g', '']
    return {'escape': esc, 'uniq': uniq, 'tag': tag, 'autoescape': names}


def selftest_compare(exe: str, req: dict, got: dict, template_names: typing.List[str]) -> typing.Tuple[int, typing.List[str]]:
    bad: typing.List[str] = []
    n = 0
    if 'err' in got:
        return 0, ['selftest harness error: ' + got['err'][-300:]]
    lines = ['ESC ' + enc(s) for s in req['escape']] + ['UNIQ ' + ' '.join(enc(s) for s in seq) for seq in req['uniq']] + \
            ['TAG 0 e %s %d %d %s %s %d' % (enc(a), b, c, enc(d), enc(e), 1 if f else 0) for a, b, c, d, e, f in req['tag']]
    out = run_model(exe, lines)
    k = 0
    for s, (he, me) in zip(req['escape'], got['escape']):
        t = out[k].split(' ')
        k += 1
        n += 1
        if not (t[0] == 'ESC' and dec(t[1]) == he and dec(t[2]) == me and dec(t[3]) == s and dec(t[4]) == s and t[5] == '1'):
            bad.append('escape(%r): model %r / python %r' % (s, [dec(x) for x in t[1:5]], [he, me]))
        if html.unescape(he) != s:
            bad.append('html.unescape(html.escape(%r)) != input' % s)
    for seq, pr in zip(req['uniq'], got['uniq']):
        t = out[k].split(' ')
        k += 1
        n += 1
        if [dec(x) for x in t[1:]] != pr:
            bad.append('make_unique%r: model %r / python %r' % (seq, [dec(x) for x in t[1:]], pr))
    for tg, pr in zip(req['tag'], got['tag']):
        t = out[k].split(' ')
        k += 1
        n += 1
        if [dec(t[1]), dec(t[2])] != pr:
            bad.append('tag_id/url%r: model %r / python %r' % (tg, [dec(t[1]), dec(t[2])], pr))
    return n, bad


def model_cfg(exe: str) -> typing.Tuple[typing.Optional[dict], typing.Dict[str, bool]]:
    out = run_model(exe, ['CFG'])
    if not out or not out[0].startswith('CFG'):
        return None, {}
    f = [x == '1' for x in out[0].split(' ')[1:]]
    keys = ['ae_ti', 'de_ti', 'ae_ni', 'de_ni', 'ae_sb', 'de_sb', 'ae_tb', 'de_tb', 'ae_ns', 'docs_escaped', 'lk_up', 'url_links_service',
            'all_dsdl_text_sinks_escaped', 'all_template_skeletons_balanced', 'sinks_classified_safe_in_coq']
    names = {}
    for l in out[1:]:
        t = l.split(' ')
        if t[0] == 'T':
            names[dec(t[1])] = t[2] == '1'
    return dict(zip(keys, f)), names


# =============================================================================================
# findings
# =============================================================================================
def load_fragment(chk: core.Check) -> None:
    """entries of known_findings.d/C20.json that the merged known_findings.json does not have yet"""
    try:
        with open(FRAGMENT, encoding='utf-8') as f:
            frag = json.load(f)['findings']
    except (OSError, ValueError, KeyError):
        return
    have = {e['id'] for e in chk.known}
    for e in frag:
        if e['id'] not in have and PROP in e['properties']:
            chk.known.append(e)


def classify_link(page: str, href: str) -> typing.Optional[str]:
    """which listed finding's trigger a failing type link satisfies"""
    if href.startswith('../') and page.count('/') >= 2:
        return 'F-HTML-LINK-SUBNS'
    if re.search(r'_(Request|Response)_\d+_\d+$', href):
        return 'F-HTML-LINK-SVC'
    return None


# =============================================================================================
def compare_case(case: dict, impl: dict, pages: typing.Dict[str, str], model_pages, mask_href: bool) -> typing.List[dict]:
    """model regions vs. real regions as canonical token streams; id sets; href lists"""
    diffs = []
    if model_pages is None:
        return [{'what': 'model rejected the site description'}]
    model_rel = {p['rel'] for p in model_pages}
    real_html = {r for r in pages if r.endswith('.html')}
    if model_rel != real_html:
        diffs.append({'what': 'page sets differ', 'model_only': sorted(model_rel - real_html), 'impl_only': sorted(real_html - model_rel)})
    for p in model_pages:
        text = pages.get(p['rel'])
        if text is None:
            continue
        regs = ns_regions(text) if p['rel'].endswith('/index.html') else type_regions(text)
        if regs is None:
            diffs.append({'what': 'cannot locate the modelled regions', 'page': p['rel']})
            continue
        for i, (mr, rr) in enumerate(zip(p['regions'], regs)):
            cm, cr = canon(mr, mask_href), canon(rr, mask_href)
            if cm != cr:
                k = next((j for j in range(min(len(cm), len(cr))) if cm[j] != cr[j]), min(len(cm), len(cr)))
                diffs.append({'what': 'token streams differ', 'page': p['rel'], 'region': i, 'at': k,
                              'model': cm[max(0, k - 2):k + 3], 'impl': cr[max(0, k - 2):k + 3]})
    return diffs


def main(chk: core.Check, replay: typing.Optional[str] = None) -> int:
    load_fragment(chk)
    n_cases = 30 if chk.tier == 'quick' else 400
    replay_doc = None
    if replay:
        replay_doc = json.load(open(replay))
        cases = [replay_doc['case']] if 'case' in replay_doc else gen_cases(chk.rng, n_cases)
    else:
        cases = gen_cases(chk.rng, n_cases)

    # 1. proof obligations against the regenerated translation
    res = core.coq_check('C20', ['html', 'htmlskel'])
    chk.proof_coverage(res, [
        'T2 translator tools/translators/gen_c20.py (on pyfun_tr.py): filter_tag_id, filter_url_from_type, filter_make_unique, '
        'filter_namespace_doc, markupsafe escape, select_autoescape keyword data + shape check of its decision function, template '
        'file names, documentation sinks and their explicit escape filters, shape of the type-link prefix; generator htmlskel: Jinja '
        'lexer + HTML state machine + Jinja expression parser/classifier producing template skeletons and the output-site table',
        'hand models in Gen/HtmlBase.v / Gen/HtmlModel.v: html.escape, UniqueNameGenerator, the template macros, URL resolution, '
        'the tag scanner -- validated by the correspondence run below, not verified',
        'extraction: Require Extraction ExtrOcamlBasic only; OCaml 4.13.1; ocaml/c20_driver.ml',
        'Python html.parser (CPython stdlib) as the reference HTML tokenizer of oracle and correspondence',
    ])
    broken: typing.List[str] = []
    if not res.ok:
        broken.append('proof obligation: %s %s' % (res.failed_file or 'translator', res.failed_theorem or ''))
    ok_model, exe, log = core.build_extracted('c20', 'ExtractC20.v', 'c20_driver.ml')
    if not ok_model:
        broken.append('model does not build/extract: ' + log[-300:])

    work = core.scratch('nnvverif-c20-')

    # 2. probe the listed findings on the implementation
    probe_cases = [json.loads(json.dumps(c)) for c in CORPUS[:2]]
    for c in probe_cases:
        c['id'] = 'probe-' + c['id']
    probe_impl = run_impl(work, probe_cases, jobs=2)
    probe_pages = [read_tree(o['outdir']) if o.get('outdir') else {} for o in probe_impl]
    probe_fails = [oracle(c, pg) for c, pg in zip(probe_cases, probe_pages)]
    live = {
        'F-HTML-ESCAPE': any(f['kind'] == 'text' for f in probe_fails[0]),
        'F-HTML-LINK-SUBNS': any(f['kind'] == 'link' and classify_link(f['page'], f['href']) == 'F-HTML-LINK-SUBNS' for f in probe_fails[1]),
        'F-HTML-LINK-SVC': any(f['kind'] == 'link' and classify_link(f['page'], f['href']) == 'F-HTML-LINK-SVC' for f in probe_fails[1]),
    }
    for fid, lv in live.items():
        if lv and chk.is_known(fid):
            chk.report_known(fid)
    esc_quirk = live['F-HTML-ESCAPE'] and chk.is_known('F-HTML-ESCAPE')
    link_quirk = {fid: live[fid] and chk.is_known(fid) for fid in ('F-HTML-LINK-SUBNS', 'F-HTML-LINK-SVC')}
    mask_href = False   # the model follows the working tree in both states of the two link findings (translated filter, lk_up)

    # 3. implementation runs
    impl = run_impl(work, cases, jobs=6)
    pages_of = [read_tree(o['outdir']) if o.get('outdir') else {} for o in impl]

    # 4. model runs: quirk-faithful (what the tree says now) and conformant (documentation escaped)
    cfg, tnames = (None, {})
    model_f = model_c = [None] * len(cases)
    st_n, st_bad = 0, []
    if ok_model:
        cfg, tnames = model_cfg(exe)
        model_f = model_sites(exe, impl, 'F')
        model_c = model_sites(exe, impl, 'C')
        req = selftest_inputs(chk.rng)
        req['autoescape'] = req['autoescape'] + sorted(tnames)
        st = run_harness(work, [], selftest=req).get('selftest', {'err': 'no selftest output'})
        st_n, st_bad = selftest_compare(exe, req, st, list(tnames))
        # autoescape decision: model vs. the bundled jinja2 select_autoescape on assorted names and the real template names
        if 'autoescape' in st and len(st['autoescape']) == len(req['autoescape']):
            out = run_model(exe, ['AE ' + enc(nm) for nm in req['autoescape']])
            for nm, py, ml in zip(req['autoescape'], st['autoescape'], out):
                st_n += 1
                if ml != 'AE ' + ('1' if py else '0'):
                    st_bad.append('autoescape_selected(%r): model %s / jinja %r' % (nm, ml, py))
        if st_bad:
            broken.append('translated/hand-modelled function disagrees with its Python original: ' + st_bad[0])

    stats = {'cases': len(cases), 'pages': 0, 'pages_compared': 0, 'regions_compared': 0, 'oracle_failures_known': 0,
             'flavour': {}, 'hrefs_checked': 0, 'ids_compared': 0, 'benign_pages_scan_wf': 0, 'model_used': {'F': 0, 'C': 0},
             'sentinel_docs': 0, 'type_links': 0, 'cross_root_links': 0, 'selftest_evals': st_n, 'nnvg_runs': 0,
             'max_namespace_depth': 0, 'cases_with_depth_ge_5': 0, 'links_into_depth_ge_4': 0, 'payload_kinds': {},
             'display_type_evals': 0}
    distinct = set()
    violations_found: typing.List[dict] = []
    corr_bad: typing.List[dict] = []

    for i, case in enumerate(cases):
        o = impl[i]
        pages = pages_of[i]
        stats['flavour'][case.get('flavour', '?')] = stats['flavour'].get(case.get('flavour', '?'), 0) + 1
        stats['nnvg_runs'] += len(o.get('cli', []))
        if o.get('err'):
            corr_bad.append({'case': case, 'what': 'generator or dump failed on a valid namespace', 'detail': o['err'], 'cli': o.get('cli')})
            continue
        stats['pages'] += len([r for r in pages if r.endswith('.html')])
        depth = max([r.count('/') for r in pages if r.endswith('/index.html')] or [0])
        stats['max_namespace_depth'] = max(stats['max_namespace_depth'], depth)
        stats['cases_with_depth_ge_5'] += depth >= 5
        stats['sentinel_docs'] += sum(1 for d in case.get('docs', []) if any(ch in d for ch in SPECIALS))
        for kk, vv in case.get('payload_kinds', {}).items():
            stats['payload_kinds'][kk] = stats['payload_kinds'].get(kk, 0) + vv
        # translated filter_display_type vs. the Python original on every attribute / array the dump met
        if ok_model and o.get('disp'):
            outm = run_model(exe, ['DISP ' + sx for sx, _ in o['disp']])
            for (sx, py), ml in zip(o['disp'], outm):
                stats['display_type_evals'] += 1
                if ml != 'DISP ' + enc(py):
                    corr_bad.append({'case': case, 'what': 'filter_display_type: translated model and Python original differ', 'node': sx,
                                     'python': py, 'model': dec(ml[5:]) if ml.startswith('DISP ') else ml})
        special = doc_has_special(case)
        # which model applies: the quirk-faithful one while F-HTML-ESCAPE reproduces, else the conformant one
        use = 'F' if (esc_quirk or not special) else 'C'
        mp = model_f[i] if use == 'F' else model_c[i]
        stats['model_used'][use] += 1
        fails = oracle(case, pages)
        # correspondence
        if ok_model:
            diffs = compare_case(case, o, pages, mp, mask_href)
            if mp is not None:
                stats['pages_compared'] += len(mp)
                stats['regions_compared'] += sum(len(p['regions']) for p in mp)
                stats['ids_compared'] += sum(len(p['ids']) for p in mp)
            for d in diffs:
                corr_bad.append(dict(d, case=case, model_mode=use))
            # link verdicts: model prediction vs. the generated tree, per href
            if mp is not None and not mask_href:
                realf = {(f['page'], f['href']) for f in fails if f['kind'] == 'link'}
                for p in mp:
                    for h, okm in p['hrefs']:
                        if not is_type_link(h):
                            continue
                        stats['hrefs_checked'] += 1
                        stats['type_links'] += 1
                        stats['links_into_depth_ge_4'] += h.split('#')[-1].count('_') >= 6 and '#' in h
                        if h.startswith('../') and not h.startswith('../' + p['rel'].split('/')[0] + '/'):
                            stats['cross_root_links'] += 1
                        if okm == ((p['rel'], h) in realf) and p['rel'] in pages:
                            corr_bad.append({'case': case, 'what': 'link verdict differs', 'page': p['rel'], 'href': h, 'model_resolves': okm})
            if mp is not None and not special:
                for p in mp:
                    if p['scan_wf'] and p['pieces_ok']:
                        stats['benign_pages_scan_wf'] += 1
                    else:
                        corr_bad.append({'case': case, 'what': 'model page of a benign case is not well-formed / not within scan_render hypotheses',
                                         'page': p['rel'], 'pieces_ok': p['pieces_ok'], 'scan_wf': p['scan_wf']})
        # oracle failures: known-finding instances or violations
        mpf = {p['rel']: p for p in (model_f[i] or [])}
        mpc = {p['rel']: p for p in (model_c[i] or [])}
        for f in fails:
            known = None
            if f['kind'] == 'link':
                fid = classify_link(f['page'], f['href'])
                if fid and link_quirk.get(fid):
                    okm = dict(mpf.get(f['page'], {'hrefs': []})['hrefs']).get(f['href'])
                    if okm is False or not ok_model:
                        known = fid
            elif f['kind'] == 'text':
                if esc_quirk and special and (not ok_model or model_reproduces(f['page'], pages, mpf)):
                    known = 'F-HTML-ESCAPE'
            elif f['kind'] == 'balance':
                # attributable to raw documentation text only if the quirk model shows the same imbalance and the conformant model none
                if esc_quirk and special and ok_model and model_reproduces(f['page'], pages, mpf) and f['page'] in mpc and mpc[f['page']]['scan_wf']:
                    known = 'F-HTML-ESCAPE'
            if known:
                stats['oracle_failures_known'] += 1
            else:
                violations_found.append({'case': case, 'failure': f})
        key = json.dumps(case['roots'], sort_keys=True)
        if len(pages) >= 2 and (special or any('.' in l.split(' ')[0] for t in case['roots'].values() for x in t.values() for l in x.splitlines())):
            distinct.add(key)

    chk.coverage.update({
        'evaluations': len(cases), 'distinct_nontrivial': len(distinct),
        'rule': 'seeded random DSDL namespace sets (1-2 root namespaces generated into one tree, nested namespaces, structs/unions/'
                'services/empty/deprecated/multi-version types, arrays of composites, cross-root references, constants such as '
                "uint8 K = '<', namespace doc types `_`) with documentation comments drawn from a benign pool or a sentinel pool "
                '(<zqN> elements, <script>, </pre>, </div>, quotes, entities, unterminated tags, comment openers); each case is '
                'generated with the real nnvg CLI and every page is parsed; non-trivial = distinct case with at least two pages '
                'and either a composite-typed attribute or a documentation text containing one of < > & " \'',
        'samples': [{'id': c['id'], 'flavour': c.get('flavour'), 'roots': c['roots']} for c in cases[:4]],
        'traces_validated_against_impl': stats['regions_compared'],
        'distribution': stats,
        'faithful_cfg': cfg, 'autoescape_by_template': tnames, 'findings_live': live,
        'model_mode': 'quirk-faithful (documentation sinks unescaped)' if esc_quirk else 'as regenerated / conformant',
    })

    if violations_found:
        v = violations_found[0]
        small = shrink_case(work, v['case'], v['failure'])
        chk.violation({'case': small['case'], 'original_case_id': v['case']['id'], 'failure': small['failure'],
                       'what': 'generated HTML violates the property: ' + small['failure']['what'], 'broken': broken,
                       'n_failures': len(violations_found)}, found_input=True)
    elif corr_bad:
        d = corr_bad[0]
        chk.violation(dict({k: v for k, v in d.items()}, correspondence='Gen/HtmlModel.v emitter vs. nnvg --target-language html',
                           broken=broken, n_disagreements=len(corr_bad),
                           note='model and implementation disagree but the generated pages satisfy the property oracle'), found_input=False)
    elif broken:
        chk.violation({'broken': broken, 'coq_error': res.error_text[-2000:], 'translators': res.translator_msgs,
                       'what': 'proof obligation or model build no longer checks; the property oracle found no failing page in %d cases' % len(cases)},
                      found_input=False)
    if replay_doc is not None:
        print('replay: oracle failures not covered by a listed finding: %d; correspondence disagreements: %d' % (len(violations_found), len(corr_bad)))
        for v in violations_found[:5]:
            print('  got:', json.dumps(v['failure']))
    return chk.finish()


def model_reproduces(rel: str, pages: typing.Dict[str, str], mp: typing.Dict[str, dict]) -> bool:
    """the quirk-faithful model renders the same token stream as the implementation for this page"""
    p = mp.get(rel)
    text = pages.get(rel)
    if p is None or text is None:
        return False
    regs = ns_regions(text) if rel.endswith('/index.html') else type_regions(text)
    if regs is None:
        return False
    return all(canon(a) == canon(b) for a, b in zip(p['regions'], regs))


def shrink_case(work: str, case: dict, failure: dict) -> dict:
    """greedy: drop files, then lines of files, while the same kind of oracle failure (outside the listed findings' triggers) remains"""
    counter = [0]

    def fails(c) -> typing.Optional[dict]:
        counter[0] += 1
        cc = dict(c, id='shrink%d' % counter[0])
        o = run_harness(work, [cc])['out'][0]
        if o.get('err') or not o.get('outdir'):
            return None
        for f in oracle(cc, read_tree(o['outdir'])):
            if f['kind'] == failure['kind'] and not (f['kind'] == 'link' and classify_link(f['page'], f['href'])):
                return f
        return None

    cur, cur_f = case, failure
    budget = 40
    changed = True
    while changed and budget > 0:
        changed = False
        for root in list(cur['roots']):
            for rel in list(cur['roots'][root]):
                if budget <= 0:
                    break
                cand = json.loads(json.dumps(cur))
                del cand['roots'][root][rel]
                if not cand['roots'][root]:
                    del cand['roots'][root]
                if not cand['roots']:
                    continue
                budget -= 1
                f = fails(cand)
                if f:
                    cur, cur_f, changed = cand, f, True
                    break
            if changed:
                break
    return {'case': cur, 'failure': cur_f}
