"""C15: line post-processing is chunking-independent and changes only what it documents."""
from __future__ import annotations

import json
import os
import typing

from tools.lib import core

PROP = 'C15'

MANIFEST = dict(
        technique='Coq proof (induction over chunk lists / line streams) about a hand model of the line buffer and T2-translated '
                  'processors; extracted-model vs. implementation correspondence',
        text='Theorems in coq/theories/Properties/C15.v: chunk independence for every pipeline state machine and EVERY chunking '
             '(write_rj = the buffering loop behind _rejoin_split_crlf, the code since fix 982f275; the loop alone is proved '
             'independent only without CR|LF seams and refuted otherwise: repaired finding F-CRLF-SPLIT), identity for no-op '
             'pipelines under every chunking, _copy_header_using_line_pps = line-by-line application to the file text, exact trimming of the translated TrimTrailingWhitespace (regex semantics in Coq), '
             'bound/keeps-non-empty/subsequence for the translated LimitEmptyLines for every N>=0. Tie: processors and both regular '
             'expressions are re-translated from /repo on every run (proofs re-checked), the buffering loop is tied by a shape pin on its '
             'normalised AST plus running the extracted model and CodeGenerator._generate_with_line_buffer on the same chunk sequences '
             '(incl. lines of 4 KiB..70 KiB against the property oracle).',
        note='Trusted: Coq kernel; T2 translator (Python ast -> Gallina) and regex parser; table of Python whitespace code points; '
             'extraction (ExtrOcamlBasic only) + OCaml driver; the hand model of the buffering loop is validated, not verified. '
             'Python text-mode newline translation when a support file is copied is assumed (py_lines), not modelled.',
        design='§5 C15')

ALPHABET = ['a', 'b', 'Z', ' ', ' ', '\t', '\n', '\n', '\n', '\r\n', '\r\n', '\r', '\f', '\v', ' ', ' ', '　',
            '\U0001F600', '\x1c', '\x85', ';']
PIPELINES = [
    [['trim']], [['limit', 0]], [['limit', 1]], [['limit', 2]], [['limit', 3]],
    [['trim'], ['limit', 0]], [['trim'], ['limit', 1]], [['trim'], ['limit', 2]],
    [['limit', 1], ['trim']], [['limit', 2], ['trim']], [['trim'], ['trim']], [['limit', 1], ['limit', 2]],
    [['limit', 3], ['limit', 0]],
]


# ---- the property as an executable oracle (independent of nunavut and of the Coq model) -------
def split_lines(text: str) -> typing.List[typing.Tuple[str, str]]:
    out, cur, i = [], '', 0
    while i < len(text):
        ch = text[i]
        if ch == '\n':
            out.append((cur, '\n'))
            cur = ''
            i += 1
        elif ch == '\r' and i + 1 < len(text) and text[i + 1] == '\n':
            out.append((cur, '\r\n'))
            cur = ''
            i += 2
        else:
            cur += ch
            i += 1
    if cur:
        out.append((cur, ''))
    return out


def oracle(chunks: typing.List[str], pps) -> str:
    lines = split_lines(''.join(chunks))
    for p in pps:
        if p[0] == 'trim':
            new = []
            for c, t in lines:
                while c and c[-1].isspace():
                    c = c[:-1]
                new.append((c, t))
            lines = new
        else:
            n, run, new = p[1], 0, []
            for c, t in lines:
                if c == '':
                    run += 1
                    new.append((c, t) if run <= n else ('', ''))
                else:
                    run = 0
                    new.append((c, t))
            lines = new
    return ''.join(c + t for c, t in lines)


def has_split_crlf(chunks: typing.List[str]) -> bool:
    prev_cr = False
    for p in chunks:
        if not p:
            continue
        if prev_cr and p[0] == '\n':
            return True
        prev_cr = p[-1] == '\r'
    return False


# ---- generators -----------------------------------------------------------------------------
def gen_text(rng, n: int) -> str:
    return ''.join(rng.choice(ALPHABET) for _ in range(n))


def gen_cuts(rng, text: str) -> typing.List[str]:
    mode = rng.randrange(5)
    if mode == 0:
        return [text]
    if mode == 1:
        return [c for c in text]
    k = rng.randrange(0, 7)
    cuts = sorted(rng.randrange(0, len(text) + 1) for _ in range(k))
    if mode == 3:  # cut inside every CRLF
        cuts = sorted(set(cuts) | {i + 1 for i in range(len(text) - 1) if text[i] == '\r' and text[i + 1] == '\n' and rng.random() < 0.7})
    chunks, prev = [], 0
    for c in cuts:
        chunks.append(text[prev:c])
        prev = c
    chunks.append(text[prev:])
    if mode == 4:
        for _ in range(2):
            chunks.insert(rng.randrange(0, len(chunks) + 1), '')
    return chunks


def gen_long_cases(rng, count: int):
    """lines around and above typical buffer sizes (4096, 8192, 65536) delivered in several chunks, with cuts right after
    trailing whitespace, right before the terminator and before blank lines (oracle-vs-implementation only: the extracted
    model is too slow on such sizes)"""
    cases = []
    sizes = [4095, 4096, 4097, 8191, 8192, 8193, 16384, 65536, 70001]
    while len(cases) < count:
        n = rng.choice(sizes)
        body = ''.join(rng.choice('ab Z\t;') for _ in range(n - 4)) + rng.choice(['  \t ', 'xx  ', '\t\tyy', ' \u00a0\u3000 '])
        term = rng.choice(['\n', '\r\n', ''])
        tail = rng.choice(['', '\n', '\n\n\nq \n', 'r  ' + term])
        text = rng.choice(['', 'p \n', '\n\n']) + body + term + tail
        k = rng.randrange(1, 6)
        cuts = sorted(set([rng.randrange(0, len(text) + 1) for _ in range(k)] + [len(text) - len(tail) - len(term)] * rng.randrange(0, 2)
                          + [len(text) - len(tail) - len(term) - rng.randrange(0, 5)]))
        chunks, prev = [], 0
        for c in cuts:
            c = max(prev, min(c, len(text)))
            chunks.append(text[prev:c])
            prev = c
        chunks.append(text[prev:])
        if has_split_crlf(chunks):
            continue
        cases.append({'chunks': chunks, 'pps': rng.choice(PIPELINES)})
    return cases


def gen_cases(rng, count: int):
    cases = []
    corpus = [
        (['abc \r', '\ndef'], [['trim']]),
        (['\r', '\n', '\r', '\n', '\r\n'], [['limit', 0]]),
        (['a\n\n\n\nb'], [['limit', 1]]),
        ([' \n', '\t\n \n', 'x  '], [['trim'], ['limit', 1]]),
        (['a\r', '', '\nb'], [['trim']]),
        ([], [['trim']]), ([''], [['limit', 1]]), (['\n'], [['limit', 0]]),
        (['x  \n', 'y 　'], [['trim']]),
    ]
    for ch, pps in corpus:
        cases.append({'chunks': ch, 'pps': pps})
    while len(cases) < count:
        text = gen_text(rng, rng.choice([0, 1, 2, 3, 5, 8, 13, 21, 40]))
        cases.append({'chunks': gen_cuts(rng, text), 'pps': rng.choice(PIPELINES)})
    return cases


# ---- running model and implementation ---------------------------------------------------------
def enc(s: str) -> str:
    return '.'.join(str(ord(c)) for c in s) if s else 'e'


def dec(s: str) -> str:
    return '' if s == 'e' else ''.join(chr(int(t)) for t in s.split('.'))


def run_model(exe: str, cases) -> typing.List[typing.Tuple[str, str]]:
    lines = []
    for c in cases:
        pps = ':'.join('T' if p[0] == 'trim' else 'L%d' % p[1] for p in c['pps']) or '-'
        lines.append(' '.join([pps] + [enc(x) for x in c['chunks']]))
    p = core.run([exe], input='\n'.join(lines) + '\n', timeout=600)
    res = []
    for l in p.stdout.splitlines():
        t = l.split(' ')
        if len(t) == 4 and t[0] == 'W':
            res.append((dec(t[1]), dec(t[3])))
        else:
            res.append(('<model error: %s>' % l[:80], ''))
    return res


def run_impl(cases) -> typing.List[dict]:
    p = core.run([core.PY, os.path.join(core.VERIF, 'tools', 'harness', 'c15_impl.py')],
                 input=json.dumps({'cases': cases}), env=core.repo_env(), timeout=600)
    try:
        return json.loads(p.stdout[p.stdout.index('{"out"'):])['out']
    except Exception:
        return [{'err': 'harness failure: ' + p.stdout[-400:]}] * len(cases)


def shrink(case: dict, failing) -> dict:
    """greedy: drop chunks, drop characters, drop processors while `failing(case)` stays true"""
    cur = case
    changed = True
    budget = 200
    while changed and budget > 0:
        changed = False
        cands = []
        ch = cur['chunks']
        for i in range(len(ch)):
            cands.append({'chunks': ch[:i] + ch[i + 1:], 'pps': cur['pps']})
        for i in range(len(ch)):
            for j in range(len(ch[i])):
                cands.append({'chunks': ch[:i] + [ch[i][:j] + ch[i][j + 1:]] + ch[i + 1:], 'pps': cur['pps']})
        for i in range(len(cur['pps'])):
            if len(cur['pps']) > 1:
                cands.append({'chunks': ch, 'pps': cur['pps'][:i] + cur['pps'][i + 1:]})
        for c in cands:
            budget -= 1
            if budget <= 0:
                break
            if failing(c):
                cur = c
                changed = True
                break
    return cur


def impl_violates(case: dict) -> bool:
    r = run_impl([case])[0]
    return r.get('ok') != oracle(case['chunks'], case['pps'])


# ---- _handle_post_processors: where the trimmer and the limiter end up ---------------------------------
def gen_handle_cases(max_len: int):
    import itertools
    kinds = [['trim'], ['limit', 5], 'other']
    givens: typing.List[typing.Optional[list]] = [None]
    for n in range(max_len + 1):
        for t in itertools.product(kinds, repeat=n):
            givens.append(list(t))
    return [{'handle': {'given': g, 'cfg_limit': lim, 'cfg_trim': tr}} for g in givens for lim in (None, 2) for tr in (False, True)]


def kinds_tok(l) -> str:
    if l is None:
        return 'N'
    return ':'.join('T' if k == ['trim'] else 'O' if k == 'other' else 'L%d' % k[1] for k in l) or '-'


def run_model_handle(exe: str, cases) -> typing.List[str]:
    lines = ['H %s %d %s' % ('-' if c['handle']['cfg_limit'] is None else c['handle']['cfg_limit'], int(c['handle']['cfg_trim']),
                             kinds_tok(c['handle']['given'])) for c in cases]
    p = core.run([exe], input='\n'.join(lines) + '\n', timeout=600)
    return [l[2:] if l.startswith('H ') else '<model error: %s>' % l[:60] for l in p.stdout.splitlines()]


def handle_order_ok(c, kinds) -> bool:
    """the property's reading of the option pair: when trimming is configured and the caller supplied no trimmer of their own,
    the trimmer runs before every limiter (so that whitespace-only lines count as empty)"""
    h = c['handle']
    if not h['cfg_trim'] or (h['given'] is not None and ['trim'] in h['given']):
        return True
    if kinds is None or ['trim'] not in kinds:
        return False
    t = kinds.index(['trim'])
    return all(not (isinstance(k, list) and k[0] == 'limit') for k in kinds[:t])


def blank_runs_ok(text: str, n: int) -> bool:
    run = 0
    for c, _t in split_lines(text):
        if c.strip() == '' and all(ch.isspace() for ch in c):
            run += 1
            if run > n:
                return False
        else:
            run = 0
    return True


def nonblank_rstripped(text: str) -> typing.List[typing.Tuple[str, str]]:
    out = []
    for c, t in split_lines(text):
        while c and c[-1].isspace():
            c = c[:-1]
        if c:
            out.append((c, t))
    return out


def gen_default_cases(rng, count: int):
    """text written through the list the real _handle_post_processors builds for a language with both options on"""
    cases = [{'handle': {'given': None, 'cfg_limit': 1, 'cfg_trim': True}, 'chunks': ['a\n    \n    \n    \nb\n']},
             {'handle': {'given': ['other', ['limit', 1]], 'cfg_limit': 2, 'cfg_trim': True}, 'chunks': ['a\n \n\t\n', ' \nb']}]
    blanks = ['\n', ' \n', '\t \n', '\r\n', '  \r\n', '\u3000\n']
    while len(cases) < count:
        text = ''
        for _ in range(rng.randrange(1, 7)):
            text += rng.choice(['a', 'b ;', ' x  ', '']) + ''.join(rng.choice(blanks) for _ in range(rng.randrange(0, 6)))
        text += rng.choice(['', 'z', ' '])
        given = rng.choice([None, [], ['other'], ['other', 'other'], [['limit', rng.randrange(0, 4)]], ['other', ['limit', rng.randrange(0, 4)]]])
        cases.append({'handle': {'given': given, 'cfg_limit': rng.randrange(0, 4), 'cfg_trim': True}, 'chunks': gen_cuts(rng, text)})
    return cases


def gen_e2e_cases(rng, count: int):
    """nnvg end to end with a user template of plain text: language configuration -> CodeGenerator.__init__ ->
    _handle_post_processors -> _generate_code -> file"""
    cases = []
    blanks = ['\n', ' \n', '\t \n', '   \n']
    combos = [('c', []), ('py', []), ('cpp', ['--experimental-languages']),
              ('c', ['--pp-max-emptylines', '0']), ('cpp', ['--experimental-languages', '--pp-max-emptylines', '2']),
              ('cpp', ['--experimental-languages', '--pp-trim-trailing-whitespace']),
              ('py', ['--pp-max-emptylines', '3', '--pp-trim-trailing-whitespace'])]
    for i in range(count):
        lang, args = combos[i % len(combos)]
        text = ''
        for _ in range(rng.randrange(2, 6)):
            text += rng.choice(['a', 'b ;', ' x  ', 'int y;\t']) + '\n' + ''.join(rng.choice(blanks) for _ in range(rng.randrange(0, 6)))
        text += rng.choice(['', 'z', 'z \n'])
        cases.append({'e2e': {'lang': lang, 'args': args, 'template_text': text}})
    return cases


def e2e_case_bad(c, r) -> typing.Optional[str]:
    if 'ok' not in r:
        return 'harness error: %r' % (r,)
    args = c['e2e']['args']
    limit = int(args[args.index('--pp-max-emptylines') + 1]) if '--pp-max-emptylines' in args else r.get('limit')
    trim = bool(r.get('trim')) or '--pp-trim-trailing-whitespace' in args
    text = c['e2e']['template_text']
    out = r['ok']
    if trim:
        if limit is not None and not blank_runs_ok(out, limit):
            return 'more than %d consecutive blank lines in the generated file' % limit
        if nonblank_rstripped(out) != nonblank_rstripped(text):
            return 'a non-blank line was removed or altered beyond its trailing whitespace'
        if any(cc != cc.rstrip() and cc.strip() != '' for cc, _t in split_lines(out)):
            return 'trailing whitespace left although trimming is configured'
    else:
        run = 0
        for cc, _t in split_lines(out):
            run = run + 1 if cc == '' else 0
            if limit is not None and run > limit:
                return 'more than %d consecutive empty lines in the generated file' % limit
        if [l for l in split_lines(out) if l[0] != ''] != [l for l in split_lines(text) if l[0] != '']:
            return 'a non-empty line was removed or altered'
    return None


def default_case_bad(c, r) -> typing.Optional[str]:
    if 'ok' not in r:
        return 'harness error: %r' % (r,)
    lim = [k[1] for k in (r.get('kinds') or []) if isinstance(k, list) and k[0] == 'limit']
    if not lim:
        return 'no limiter in the list although limit_empty_lines is configured'
    text = ''.join(c['chunks'])
    if not blank_runs_ok(r['ok'], lim[-1]):
        return 'the written file has more than %d consecutive blank lines' % lim[-1]
    if nonblank_rstripped(r['ok']) != nonblank_rstripped(text):
        return 'a non-blank line was removed or altered beyond its trailing whitespace'
    return None


def main(chk: core.Check, replay: typing.Optional[str] = None) -> int:
    n_cases = 1500 if chk.tier == 'quick' else 40000
    if replay:
        doc = json.load(open(replay))
        cases = [doc['case']] if 'case' in doc else gen_cases(chk.rng, n_cases)
    else:
        cases = gen_cases(chk.rng, n_cases)

    # 1. proof obligations against the regenerated translation
    res = core.coq_check('C15', ['uni', 'linepp', 'uniq', 'pin_linebuf'])
    chk.proof_coverage(res, [
        'T2 translator (tools/translators/pyfun_tr.py, regex_tr.py) for TrimTrailingWhitespace.__call__, LimitEmptyLines.__init__/__call__ and the two compiled patterns',
        'T1 table of Python \\s code points taken from the running interpreter',
        'hand model Gen/LinePP.v of _generate_with_line_buffer/_filter_and_write_line, tied by the shape pin (normalised AST of both functions must equal tools/translators/pins/linebuf.txt, else the obligation C15_linebuf_shape_pinned breaks) and by the correspondence run below',
        'extraction: Require Extraction ExtrOcamlBasic only; OCaml 4.13.1; ocaml/c15_driver.ml',
    ])
    broken: typing.List[str] = []
    if not res.ok:
        broken.append('proof obligation: %s %s' % (res.failed_file or 'translator', res.failed_theorem or ''))

    # 2. implementation vs. property oracle (falsifier; always run) and vs. the model
    impl = run_impl(cases)
    long_cases = gen_long_cases(chk.rng, 60 if chk.tier == 'quick' else 600) if not replay else []
    long_impl = run_impl(long_cases) if long_cases else []
    long_bad = [i for i, c in enumerate(long_cases) if long_impl[i].get('ok') != oracle(c['chunks'], c['pps'])]
    # _copy_header_using_line_pps: a real file read in text mode (universal newlines: CRLF and lone CR arrive as LF; the
    # target is written in text mode too) -> oracle = line-by-line application to the newline-translated text
    copy_cases = []
    if not replay:
        for _ in range(150 if chk.tier == 'quick' else 3000):
            copy_cases.append({'copy_text': gen_text(chk.rng, chk.rng.choice([0, 1, 2, 3, 5, 8, 13, 21, 40])), 'pps': chk.rng.choice(PIPELINES)})
        copy_cases += [{'copy_text': t, 'pps': p} for t in ['a\nbc', 'bc', 'a \r\nb  ', '\n\n\nx', 'x\r', '\r', 'a  \r\nb\rc \r\n\r\n\r\nd', '\r\n\r\n\r\n', 'q\r\r\n']
                       for p in ([['trim']], [['limit', 1]], [['trim'], ['limit', 1]])]
    copy_impl = run_impl(copy_cases) if copy_cases else []

    # several files through ONE generator object (real _generate_code): every file must be processed with fresh line
    # processors whatever came before (files ending/starting with blank lines, limits 0..3)
    file_cases = []
    if not replay:
        blank_edges = ['', '\n', '\n\n', '\n\n\n', ' \n\n']
        for _ in range(120 if chk.tier == 'quick' else 2500):
            files = []
            for _k in range(chk.rng.randrange(2, 5)):
                text = chk.rng.choice(blank_edges) + gen_text(chk.rng, chk.rng.choice([0, 2, 5, 9])) + chk.rng.choice(blank_edges)
                chunks = gen_cuts(chk.rng, text) if text else ['']
                files.append(chunks)
            file_cases.append({'files': files, 'pps': chk.rng.choice(PIPELINES)})
        file_cases.append({'files': [['a\n\n'], ['\nb']], 'pps': [['limit', 1]]})
    file_impl = run_impl(file_cases) if file_cases else []
    file_bad = [i for i, c in enumerate(file_cases)
                if file_impl[i].get('ok') != [oracle(f, c['pps']) for f in c['files']]]

    # _handle_post_processors: exhaustive small lists x configuration (implementation vs property reading; vs model below)
    handle_cases = gen_handle_cases(3 if chk.tier == 'quick' else 5) if not replay else []
    handle_impl = run_impl(handle_cases) if handle_cases else []
    handle_bad = [i for i, c in enumerate(handle_cases) if 'kinds' not in handle_impl[i] or not handle_order_ok(c, handle_impl[i]['kinds'])]
    # the caller's list object must come back unchanged (it may be shared by several generators: repaired finding F-PP-LIST-MUTATED)
    handle_bad += [i for i, c in enumerate(handle_cases) if c['handle']['given'] is not None and 'given_after' in handle_impl[i]
                   and [kinds_tok([k]) for k in handle_impl[i]['given_after']] != [kinds_tok([k]) for k in c['handle']['given']]]
    default_cases = gen_default_cases(chk.rng, 300 if chk.tier == 'quick' else 6000) if not replay else []
    if replay and 'handle' in doc.get('case', {}):
        default_cases, cases = [doc['case']], []
    default_impl = run_impl(default_cases) if default_cases else []
    default_bad = [(i, default_case_bad(c, default_impl[i])) for i, c in enumerate(default_cases) if 'chunks' in c and default_case_bad(c, default_impl[i])]

    e2e_cases = gen_e2e_cases(chk.rng, 14 if chk.tier == 'quick' else 140) if not replay else []
    if replay and 'e2e' in doc.get('case', {}):
        e2e_cases, cases = [doc['case']], []
    e2e_impl = run_impl(e2e_cases) if e2e_cases else []
    e2e_bad = [(i, e2e_case_bad(c, e2e_impl[i])) for i, c in enumerate(e2e_cases) if e2e_case_bad(c, e2e_impl[i])]

    def copy_oracle(c):   # the resource is read with newline="\n" (fix b0be4ff): plain line-by-line application to the file text
        return oracle([c['copy_text']], c['pps'])
    copy_bad = [i for i, c in enumerate(copy_cases) if copy_impl[i].get('ok') != copy_oracle(c)]
    ok_model, exe, log = core.build_extracted('c15', 'ExtractC15.v', 'c15_driver.ml')
    model = run_model(exe, cases) if ok_model else None
    if not ok_model:
        broken.append('model does not build/extract: ' + log[-300:])
    copy_model_bad = []
    if ok_model and copy_cases:
        lines = ['C %s %s' % (':'.join('T' if p[0] == 'trim' else 'L%d' % p[1] for p in c['pps']) or '-', enc(c['copy_text'])) for c in copy_cases]
        pm = core.run([exe], input='\n'.join(lines) + '\n', timeout=600).stdout.splitlines()
        copy_model_bad = [i for i, c in enumerate(copy_cases)
                          if i >= len(pm) or not pm[i].startswith('C ') or dec(pm[i][2:]) != copy_impl[i].get('ok')]
    handle_model_bad = []
    if ok_model and handle_cases:
        hm = run_model_handle(exe, handle_cases)
        handle_model_bad = [i for i, c in enumerate(handle_cases)
                            if i >= len(hm) or hm[i] != (kinds_tok(handle_impl[i]['kinds']) if 'kinds' in handle_impl[i] else '<impl error>')]

    # probe the known finding on the implementation
    kf_live = False
    if chk.is_known('F-CRLF-SPLIT'):
        w = chk.known_entry('F-CRLF-SPLIT')['witness']
        r = run_impl([{'chunks': w['chunks'], 'pps': [['trim']]}])[0]
        kf_live = r.get('ok') == w['got']
        if kf_live:
            chk.report_known('F-CRLF-SPLIT')

    stats = {'split_crlf_cases': 0, 'multi_chunk': 0, 'nontrivial': 0, 'model_vs_impl_compared': 0, 'oracle_vs_impl_compared': 0,
             'known_finding_instances': 0, 'with_crlf': 0, 'empty_chunks': 0}
    distinct = set()
    bad_oracle, bad_model = [], []
    for i, c in enumerate(cases):
        exp = oracle(c['chunks'], c['pps'])
        got = impl[i].get('ok')
        split = has_split_crlf(c['chunks'])
        text = ''.join(c['chunks'])
        stats['split_crlf_cases'] += split
        stats['multi_chunk'] += len(c['chunks']) > 1
        stats['with_crlf'] += '\r\n' in text
        stats['empty_chunks'] += '' in c['chunks']
        if exp != text and len(c['chunks']) > 1:
            key = json.dumps(c, sort_keys=True)
            if key not in distinct:
                distinct.add(key)
        stats['oracle_vs_impl_compared'] += 1
        if got != exp:
            if split and kf_live and (model is None or model[i][0] == got):
                stats['known_finding_instances'] += 1
            else:
                bad_oracle.append((i, exp, got))
        if model is not None:
            stats['model_vs_impl_compared'] += 1
            if model[i][0] != got:
                bad_model.append((i, model[i][0], got))
            if model[i][0] != model[i][1]:
                bad_model.append((i, 'model write != model linewise', got))
    stats['nontrivial'] = len(distinct)

    chk.coverage.update({
        'evaluations': len(cases), 'distinct_nontrivial': len(distinct),
        'rule': 'seeded random texts over an alphabet of letters, blanks, LF, CRLF, lone CR, FF/VT, Unicode spaces and an astral '
                'code point, cut into chunks five ways (whole, per character, random cuts, cuts inside CRLF, added empty chunks), '
                'x 13 processor pipelines (limits 0..3); non-trivial = distinct case with more than one chunk whose processed '
                'output differs from the plain concatenation',
        'samples': [cases[i] for i in range(0, min(len(cases), 60), 7)],
        'traces_validated_against_impl': stats['model_vs_impl_compared'],
        'distribution': stats,
    })

    chk.coverage['distribution']['long_line_cases'] = len(long_cases)
    chk.coverage['distribution']['copy_header_cases'] = len(copy_cases)
    chk.coverage['evaluations'] += len(long_cases) + len(copy_cases)
    chk.coverage['distribution']['multi_file_cases'] = len(file_cases)
    chk.coverage['evaluations'] += len(file_cases)
    chk.coverage['distribution']['handle_post_processors_cases'] = len(handle_cases)
    chk.coverage['distribution']['default_pipeline_file_cases'] = len(default_cases)
    chk.coverage['evaluations'] += len(handle_cases) + len(default_cases)
    chk.coverage['distribution']['nnvg_end_to_end_cases'] = len(e2e_cases)
    chk.coverage['distribution']['copy_header_model_vs_impl'] = len(copy_cases) if ok_model else 0
    chk.coverage['evaluations'] += len(e2e_cases)
    if e2e_bad and not bad_oracle:
        i, why = e2e_bad[0]
        chk.violation({'case': e2e_cases[i], 'implementation': e2e_impl[i], 'what': 'nnvg end to end (language configuration -> '
                       'CodeGenerator.__init__ -> _handle_post_processors -> file): ' + why, 'broken': broken, 'n_failing': len(e2e_bad)},
                      found_input=True)
    elif default_bad and not bad_oracle:
        i, why = default_bad[0]
        chk.violation({'case': default_cases[i], 'implementation': default_impl[i], 'what': 'text written through the processors '
                       '_handle_post_processors builds for limit_empty_lines + trim_trailing_whitespace: ' + why,
                       'broken': broken, 'n_failing': len(default_bad)}, found_input=True)
    elif handle_bad and not bad_oracle:
        c = handle_cases[handle_bad[0]]
        chk.violation({'case': c, 'implementation': handle_impl[handle_bad[0]], 'what': '_handle_post_processors does not place the trimmer '
                       'before every limiter (whitespace-only lines then reach the limiter as non-empty and more than N consecutive '
                       'empty lines can be written) or it changed the list object the caller passed in', 'broken': broken, 'n_failing': len(handle_bad)}, found_input=True)
    elif file_bad and not bad_oracle and not long_bad:
        c = file_cases[file_bad[0]]
        chk.violation({'case': c, 'expected_by_property': [oracle(f, c['pps']) for f in c['files']], 'implementation': file_impl[file_bad[0]],
                       'what': 'a file written by a generator after other files differs from line-by-line application with fresh processors '
                               '(line post-processor state leaks between files)', 'broken': broken, 'n_failing': len(file_bad)}, found_input=True)
    elif copy_bad and not bad_oracle and not long_bad:
        c = copy_cases[copy_bad[0]]
        chk.violation({'case': c, 'expected_by_property': copy_oracle(c), 'implementation': copy_impl[copy_bad[0]],
                       'what': '_copy_header_using_line_pps output differs from line-by-line application to the file text',
                       'broken': broken, 'n_failing': len(copy_bad)}, found_input=True)
    elif long_bad and not bad_oracle:
        c = long_cases[long_bad[0]]
        chk.violation({'case': c, 'expected_by_property': oracle(c['chunks'], c['pps']), 'implementation': long_impl[long_bad[0]],
                       'what': 'implementation output differs from line-by-line application on a long line (line lengths around buffer sizes)',
                       'broken': broken, 'n_failing': len(long_bad)}, found_input=True)
    elif bad_oracle:
        i, exp, got = bad_oracle[0]
        small = shrink(cases[i], impl_violates)
        chk.violation({'case': small, 'original_case': cases[i], 'expected_by_property': oracle(small['chunks'], small['pps']),
                       'implementation': run_impl([small])[0], 'what': 'implementation output differs from line-by-line application',
                       'broken': broken, 'n_failing': len(bad_oracle)}, found_input=True)
    elif bad_model:
        i, m, got = bad_model[0]
        chk.violation({'case': cases[i], 'model': m, 'implementation': got, 'correspondence': 'Gen/LinePP.v write_builtin vs CodeGenerator._generate_with_line_buffer',
                       'what': 'model and implementation disagree but no input violating the property was found', 'n_disagreements': len(bad_model)},
                      found_input=False)
    elif copy_model_bad:
        i = copy_model_bad[0]
        chk.violation({'case': copy_cases[i], 'implementation': copy_impl[i], 'correspondence': 'Gen/LinePP.v copy_header . py_lines vs SupportGenerator._copy_header_using_line_pps',
                       'what': 'model and implementation disagree but no input violating the property was found', 'n_disagreements': len(copy_model_bad)},
                      found_input=False)
    elif handle_model_bad:
        i = handle_model_bad[0]
        chk.violation({'case': handle_cases[i], 'implementation': handle_impl[i], 'correspondence': 'Gen/LinePPOrder.v handle_pps vs CodeGenerator._handle_post_processors',
                       'what': 'model and implementation disagree but no input violating the property was found', 'n_disagreements': len(handle_model_bad)},
                      found_input=False)
    elif broken:
        chk.violation({'broken': broken, 'coq_error': res.error_text[-2000:], 'translators': res.translator_msgs,
                       'what': 'proof obligation or model build no longer checks; searched %d cases on the implementation' % len(cases)},
                      found_input=False)
    return chk.finish()
