"""C13: configuration sources are merged with a fixed, order-insensitive precedence."""
from __future__ import annotations

import copy
import json
import os
import typing

from tools.lib import core

PROP = 'C13'

MANIFEST = dict(
    technique='Coq proof (structural induction over nested maps, source lists, builder op sequences; separation invariant over a heap of '
              'LanguageConfig objects) about a model whose leaf rule, deep_update body, LanguageConfig getters, cpp option validation, option '
              'groups, create() shape and CLI wiring are re-translated from /repo on every run (40 further functions shape-pinned); '
              'extracted-model vs. implementation correspondence (values, aliasing, whole contexts of several builders in one process)',
    text='Theorems in coq/theories/Properties/C13.v: the model solves the recursion equation translated from deep_update; per-key merge law for '
         'every shape; closed form of lookup after merging any list of sources; untouched keys kept; deep key-wise union; END-TO-END chain: '
         'for every sequence of builder calls create() = deep_update folded over built-in, file_1..file_n, override map, hence one precedence '
         '(fold of pick: later explicit wins, DefaultValue never displaces) for every key path; create() depends only on (ordered files, '
         'final overrides, language); CLI defaults never displace file values; EFFECTIVE option (what get_option/templates see after '
         'Language.__init__) = merged value except the keys of the cpp group selected by std (group value wins over every source) and py '
         'enable_serialization_asserts; translated getters: raw getter, get_config_value, as_bool truth table, as_dict, as_list incl. '
         'default/KeyError/TypeError; sources never reached with the regenerated copy flag; LanguageConfig objects have identity: obligation '
         'create_detaches_config = true (reflexivity on the regenerated fact) + separation invariant + non-interference for every process '
         'history (only a context\'s own get_supported_languages() changes what it reports).',
    note='Trusted: Coq kernel; translator tools/translators/gen_c13.py (ast -> Gallina for the leaf rule, deep_update, the five getters; '
         'shape-directed translation of cpp _validate_language_options, create()/_detached_builder, _create_language_context; pins; yaml '
         'tables); extraction + OCaml driver; hand models of LanguageConfig.update*, LanguageContextBuilder, Language.__init__ (pinned + '
         'validated by correspondence). Partial: closed form for paths without leaf/mapping conflict (conflicts: per-key law); "sources '
         'unmodified" on an ownership abstraction (lists are atoms: a list object is stored by reference, excluded); a cpp std shorthand '
         'selected by a LOWER-precedence source than an explicit value of one of its group keys still overwrites that value (documented '
         '"as a unit" behaviour, stated as the exception of c13_effective_option; see design_notes/C13.md); target-language inference from '
         '`extension`, section-name validation and experimental-language filtering are not modelled. History/C13_history.v keeps the '
         'refutations for code no longer in /repo (shallow copy, shared LanguageConfig).',
    design='§5 C13')

KEYS = ['a', 'b', 'c', 'x', 'y', 'options', 'std']
FLAGS = ['omit_float_serialization_support', 'enable_serialization_asserts', 'enable_override_variable_array_capacity']
LANGS = ['c', 'cpp', 'py', 'js', 'html']   # js and html configure no `options`/`defaults` at all


# ---- value helpers: V (harness JSON) <-> canonical python <-> driver text ---------------------------------------------
def L(a, d=False):
    return {'L': [d, a]}


def N(items):
    return {'N': [[k, v] for k, v in items]}


def has_sharing(v) -> bool:
    return 'R' in v or ('N' in v and any(has_sharing(x) for _, x in v['N']))


def canon(v, shared=None):
    """unordered canonical form: dict for mappings, ('L', is_default, atom) for leaves; {"R": n} is expanded to the tree of the dict
    object defined as {"N": ..., "id": n} (the VALUE of a document with shared sub-maps)"""
    shared = {} if shared is None else shared
    if 'R' in v:
        return shared[v['R']]
    if 'N' in v:
        out = {k: canon(x, shared) for k, x in v['N']}
        if v.get('id'):
            shared[v['id']] = out
        return out
    d, a = v['L']
    if isinstance(a, dict):
        a = ('O', a['O']) if 'O' in a else ('Li', a['Li'])
    elif isinstance(a, bool):
        a = ('B', a)
    return ('L', bool(d), a)


class Codec:
    """text protocol of ocaml/c13_driver.ml; opaque atoms are numbered"""

    def __init__(self):
        self.opaque: typing.Dict[str, int] = {}
        self.back: typing.Dict[int, str] = {}
        self.lists: typing.Dict[str, int] = {'[]': 0}     # AList ids; 0 is the empty list
        self.lback: typing.Dict[int, str] = {0: '[]'}

    @staticmethod
    def s(x: str) -> str:
        return '.'.join(str(ord(c)) for c in x) if x else '_'

    @staticmethod
    def us(x: str) -> str:
        return '' if x == '_' else ''.join(chr(int(t)) for t in x.split('.'))

    def atom(self, a) -> str:
        if a is None:
            return 'n'
        if isinstance(a, bool):
            return 't' if a else 'f'
        if isinstance(a, int):
            return 'i%d' % a
        if isinstance(a, str):
            return 's' + self.s(a)
        if 'Li' in a:
            if a['Li'] not in self.lists:
                self.lists[a['Li']] = len(self.lists)
                self.lback[self.lists[a['Li']]] = a['Li']
            return 'l%d' % self.lists[a['Li']]
        r = a['O']
        if r not in self.opaque:
            self.opaque[r] = len(self.opaque) + 1
            self.back[self.opaque[r]] = r
        return 'o%d' % self.opaque[r]

    def enc_dag(self, v) -> str:
        if 'R' in v:
            return '^%d' % v['R']
        if 'N' in v:
            return ('{#%d ' % v['id'] if v.get('id') else '{ ') + ''.join('%s %s ' % (self.s(k), self.enc_dag(x)) for k, x in v['N']) + '}'
        d, a = v['L']
        return ('d:' if d else 'e:') + self.atom(a)

    def enc(self, v, shared=None) -> str:
        shared = {} if shared is None else shared
        if 'R' in v:
            return shared[v['R']]
        if 'N' in v:
            t = '{ ' + ''.join('%s %s ' % (self.s(k), self.enc(x, shared)) for k, x in v['N']) + '}'
            if v.get('id'):
                shared[v['id']] = t
            return t
        d, a = v['L']
        return ('d:' if d else 'e:') + self.atom(a)

    def dec_tokens(self, toks: typing.List[str], i: int):
        """-> (canonical value, next index)"""
        t = toks[i]
        if t == '{':
            out = {}
            i += 1
            while toks[i] != '}':
                k = self.us(toks[i])
                val, i = self.dec_tokens(toks, i + 1)
                out.setdefault(k, val)
            return out, i + 1
        if t == 'ERR':
            return 'ERR', i + 1
        d = t[0] == 'd'
        a = t[2:]
        if a == 'n':
            at = None
        elif a in ('t', 'f'):
            at = ('B', a == 't')
        elif a[0] == 'i':
            at = int(a[1:])
        elif a[0] == 's':
            at = self.us(a[1:])
        elif a[0] == 'l':
            at = ('Li', self.lback[int(a[1:])])
        else:
            at = ('O', self.back[int(a[1:])])
        return ('L', d, at), i + 1


# ---- the property as an executable oracle (independent of nunavut and of the Coq model) ---------------------------------
def o_merge(t, s, ev: typing.Optional[typing.Dict[str, int]] = None):
    """precedence + deep union on canonical values; `ev` counts which rules were exercised"""
    def hit(n):
        if ev is not None:
            ev[n] = ev.get(n, 0) + 1
    if not isinstance(t, dict):
        return copy.deepcopy(s)
    out = dict(t)
    for k, v in s.items():
        cur = out.get(k)
        if isinstance(v, dict):
            if cur is None:
                hit('new_subtree')
                out[k] = o_merge({}, v, ev)
            elif isinstance(cur, dict):
                hit('nested_merge')
                out[k] = o_merge(cur, v, ev)
            else:
                hit('mapping_over_leaf')
                out[k] = copy.deepcopy(v)
        else:
            d = v[1]
            if cur is None:
                hit('new_default' if d else 'new_key')
                out[k] = v
            elif d and isinstance(cur, dict):
                hit('default_blocked_by_mapping')
            elif d and not cur[1]:
                hit('default_blocked_by_explicit')
            else:
                hit('leaf_over_mapping' if isinstance(cur, dict) else ('default_over_default' if d else 'explicit_over_value'))
                out[k] = v
    return out


NONTRIVIAL = {'mapping_over_leaf', 'default_blocked_by_mapping', 'default_blocked_by_explicit', 'leaf_over_mapping', 'default_over_default'}


# ---- generators --------------------------------------------------------------------------------------------------
def gen_atom(rng):
    r = rng.randrange(10)
    if r < 3:
        return rng.randrange(-3, 9)
    if r < 6:
        return rng.choice(['', 'a', 'v1', 'c++17', 'über', 'x y'])
    if r < 8:
        return rng.random() < 0.5
    if r == 8:
        return None
    x = rng.choice([[1, 2], [], 1.5, ['a', {'k': 1}]])
    return {'Li' if isinstance(x, list) else 'O': json.dumps(x, sort_keys=True)}


def gen_val(rng, depth: int, p_default: float):
    if depth > 0 and rng.random() < 0.45:
        n = rng.choice([0, 1, 1, 2, 2, 3])
        ks = rng.sample(KEYS[:5], n)
        return N((k, gen_val(rng, depth - 1, p_default)) for k in ks)
    return L(gen_atom(rng), rng.random() < p_default)


def gen_doc(rng, depth: int, p_default: float):
    n = rng.choice([1, 1, 2, 2, 3, 4])
    return N((k, gen_val(rng, depth, p_default)) for k in rng.sample(KEYS[:5], n))


def share_siblings(rng, v, counter):
    """makes, here and there, two keys of one mapping hold the SAME sub-map object (what a YAML anchor/alias or a dict stored under two
    keys gives)"""
    if 'N' not in v:
        return v
    items = [[k, share_siblings(rng, x, counter)] for k, x in v['N']]
    maps = [i for i, (_, x) in enumerate(items) if 'N' in x and not x.get('id')]
    if maps and rng.random() < 0.5:
        i = rng.choice(maps)
        counter[0] += 1
        items[i][1] = dict(items[i][1], id=counter[0])
        free = [k for k in KEYS[:5] if k not in [kk for kk, _ in items]]
        later = [j for j in range(i + 1, len(items))]
        if free and (not later or rng.random() < 0.6):
            items.append([rng.choice(free), {'R': counter[0]}])
        elif later:
            items[rng.choice(later)][1] = {'R': counter[0]}
        else:
            items[i][1] = {k2: v2 for k2, v2 in items[i][1].items() if k2 != 'id'}
    return {'N': items}


ALIASMAP_WITNESS = {'kind': 'merge', 'base': N([('e', L('.h'))]),
                    'srcs': [{'N': [['e', {'N': [['a', {'N': [['k', L(1)]], 'id': 1}], ['b', {'R': 1}]]}]]},
                             N([('e', N([('a', N([('k', L(2))]))]))])]}

ALIAS_WITNESS = {'kind': 'merge', 'base': N([('a', L(1))]),
                 'srcs': [N([('a', N([('x', N([('y', L(1))]))]))]), N([('a', N([('x', N([('y', L(2))]))]))])]}


def gen_merge_cases(rng, count: int):
    cases = [ALIAS_WITNESS, ALIASMAP_WITNESS,
             {'kind': 'merge', 'base': N([('a', L(1, True)), ('b', L(2))]),
              'srcs': [N([('a', L(3)), ('b', L(4, True))]), N([('a', L(5, True)), ('b', L(6))])]},
             {'kind': 'merge', 'base': N([('a', N([('one', L(1)), ('two', L(2, True))])), ('b', L('not a default')), ('c', L('one', True))]),
              'srcs': [N([('a', N([('two', N([('i', L('this')), ])), ('three', L('that', True))])), ('b', L('see', True)),
                          ('c', L('another', True)), ('d', L('happened', True))])]},
             {'kind': 'merge', 'base': N([]), 'srcs': []},
             {'kind': 'merge', 'base': N([('a', N([]))]), 'srcs': [N([('a', L(1, True))]), N([('a', N([]))])]}]
    while len(cases) < count:
        pd = rng.choice([0.0, 0.2, 0.4, 0.6])
        c = {'kind': 'merge', 'base': gen_doc(rng, 3, pd), 'srcs': [gen_doc(rng, 3, pd) for _ in range(rng.randrange(0, 5))]}
        if rng.random() < 0.25:      # documents with shared sub-maps
            c['srcs'] = [share_siblings(rng, x, [0]) for x in c['srcs']]
            # (the target is never shared inside: a configuration is always built by deep_update itself, from {} or from a rebuilt copy)
        cases.append(c)
    return cases


def gen_section_doc(rng, lang: str, explicit_only: bool):
    """a config document touching the language's section (and sometimes another one)"""
    pd = 0.0 if explicit_only else 0.3
    items = []
    if rng.random() < 0.8:
        opts = [(k, L(rng.choice([True, False]), rng.random() < pd)) for k in rng.sample(FLAGS, rng.randrange(0, 3))]
        if rng.random() < 0.4:
            opts.append(('target_endianness', L(rng.choice(['any', 'big', 'little']), rng.random() < pd)))
        if lang == 'cpp' and rng.random() < 0.5:
            opts.append(('std', L(rng.choice(['c++14', 'c++17', 'c++17-pmr', 'c++20', 'cetl++14-17']), rng.random() < pd)))
        if lang == 'cpp' and rng.random() < 0.25:      # a value that coincides with / differs from what a shorthand group would set
            opts.append(('std_flavor', L(rng.choice(['std', 'pmr', 'cetl']))))
        if lang == 'cpp' and rng.random() < 0.3:
            opts.append(('allocator_type', L(rng.choice(['', 'my::alloc']))))
        if lang == 'cpp' and rng.random() < 0.2:
            opts.append(('ctor_convention', L(rng.choice(['default', 'uses-leading-allocator', 'Uses_Trailing_Allocator', 'bogus']))))
        if rng.random() < 0.3:
            opts.append((rng.choice(['zz_extra', 'cast_format']), gen_val(rng, 1, pd)))
        items.append(('options', N(opts)))
    if rng.random() < 0.4:
        items.append((rng.choice(['extension', 'namespace_file_stem', 'zz_key', 'named_types']), gen_val(rng, 2, pd)))
    if lang == 'cpp' and rng.random() < 0.15:
        items.append(('defaults', N([('c++20', N([('std', L('c++20')), ('zz_from_group', L(1))]))])))
    secs = [('nunavut.lang.' + lang, N(items))]
    if rng.random() < 0.2:
        secs.append(('nunavut.lang.' + rng.choice([x for x in LANGS if x != lang]), N([('zz_other', gen_val(rng, 1, pd))])))
    return N(secs)


def gen_override(rng, lang: str):
    k = rng.choice(['options', 'options', 'options', 'extension', 'namespace_file_stem', 'zz_key'])
    if k == 'options':
        opts = [(f, L(True) if rng.random() < 0.4 else L(False, True)) for f in rng.sample(FLAGS, rng.randrange(0, 4))]
        if rng.random() < 0.4:
            opts.append(('target_endianness', L(rng.choice(['big', 'little']))))
        if lang == 'cpp' and rng.random() < 0.5:
            opts.append(('std', L(rng.choice(['c++14', 'c++17', 'c++17-pmr', 'c++20', 'cetl++14-17']))))
        return k, N(opts)
    return k, (gen_val(rng, 1, 0.3) if k == 'zz_key' else L(rng.choice(['.x', 'stem', '.h'])))


def gen_builder_ops(rng, i: int, lang: str, n: int):
    ops = []
    for _ in range(n):
        r = rng.random()
        if r < 0.35:
            ops.append(['file', i, gen_section_doc(rng, lang, True)])
        elif r < 0.5:
            ops.append(['upd', i, gen_section_doc(rng, lang, False)])
        elif r < 0.85:
            k, v = gen_override(rng, lang)
            ops.append(['ovr', i, k, v])
        elif r < 0.9:
            ops.append(['ovrnone', i, rng.choice(['options', 'extension'])])
        else:
            ops.append(['lang', i, lang])
    return ops


def other_value(rng, a):
    if isinstance(a, bool):
        return not a
    if a in ('any', 'big', 'little'):
        return rng.choice([x for x in ('any', 'big', 'little') if x != a])
    return 'zz_conflict'


def conflicting_file(rng, i: int, lang: str, ops):
    """a yaml document giving another explicit value to something builder i's current overrides set explicitly"""
    over = {}
    for o in ops:
        if o[0] == 'ovr' and o[3] != {'L': [False, None]}:
            over[o[2]] = o[3]
    cands = []
    for k, v in over.items():
        if 'L' in v and not v['L'][0] and not isinstance(v['L'][1], dict):
            cands.append((k, None, v['L'][1]))
        elif 'N' in v:
            for ck, cv in v['N']:
                if 'L' in cv and not cv['L'][0] and not isinstance(cv['L'][1], dict):
                    cands.append((k, ck, cv['L'][1]))
    if not cands:
        return None
    k, ck, a = rng.choice(cands)
    leaf = L(other_value(rng, a))
    return ['file', i, N([('nunavut.lang.' + lang, N([(k, leaf if ck is None else N([(ck, leaf)]))]))])]


REUSE_WITNESS_OPS = [['new'], ['lang', 0, 'c'], ['ovr', 0, 'options', N([('target_endianness', L('big'))])], ['create', 0],
                     ['ovr', 0, 'options', N([('target_endianness', L('little'))])], ['create', 0]]


def gen_proc_cases(rng, count: int):
    cases = [{'kind': 'proc', 'ops': REUSE_WITNESS_OPS},
             {'kind': 'proc', 'ops': [['new'], ['lang', 0, 'c'], ['ovr', 0, 'options', N([('target_endianness', L('big'))])], ['create', 0],
                                      ['file', 0, N([('nunavut.lang.c', N([('options', N([('target_endianness', L('little'))]))]))])],
                                      ['create', 0]]},
             {'kind': 'proc', 'ops': [['new'], ['lang', 0, 'c'], ['upd', 0, N([('nunavut.lang.c', N([('zz', L(1))]))])],
                                      ['upd', 0, N([('nunavut.lang.c', N([('zz', N([('x', N([('y', L(1))]))]))]))])],
                                      ['upd', 0, N([('nunavut.lang.c', N([('zz', N([('x', N([('y', L(2))]))]))]))])], ['create', 0]]}]
    while len(cases) < count:
        nb = rng.choice([1, 1, 2, 2, 3])
        langs = [rng.choice(LANGS) for _ in range(nb)]
        reuse = rng.random() < 0.3
        ops = []
        per = [[['new_'], ['lang', i, langs[i]]] + gen_builder_ops(rng, i, langs[i], rng.randrange(0, 6)) + [['create', i]] for i in range(nb)]
        if reuse:
            j = rng.randrange(nb)
            more = gen_builder_ops(rng, j, langs[j], rng.randrange(1, 3))
            if rng.random() < 0.5:    # a later file that contradicts an explicit override made before the first create()
                c = conflicting_file(rng, j, langs[j], per[j])
                if c is not None:
                    more.insert(rng.randrange(len(more) + 1), c)
            if rng.random() < 0.5:    # a later step of the same builder that edits the section of ANOTHER language than the context's target
                other = rng.choice([x for x in LANGS if x != langs[j]])
                more.insert(rng.randrange(len(more) + 1),
                            [rng.choice(['file', 'upd']), j, N([('nunavut.lang.' + other, N([('zz_later', gen_val(rng, 1, 0.0)), ('options', N([('zz_opt', L(rng.randrange(9)))]))]))])])
            per[j] += more + [['create', j]]
        # interleave the builders' op lists, keeping each builder's own order; `new` must come in index order
        ops = [['new'] for _ in range(nb)]
        idx = [1] * nb
        while any(idx[i] < len(per[i]) for i in range(nb)):
            i = rng.choice([i for i in range(nb) if idx[i] < len(per[i])])
            ops.append(per[i][idx[i]])
            idx[i] += 1
        cases.append({'kind': 'proc', 'ops': ops})
    return cases


def permute_single_builder(rng, ops):
    """another interleaving of one builder's calls with the same ordered files, final overrides and language (single create last)"""
    body = [o for o in ops if o[0] not in ('new', 'create')]
    files = [o for o in body if o[0] in ('file', 'upd')]
    others = [o for o in body if o[0] not in ('file', 'upd')]
    # overrides: keep only the final effective value per key, shuffle; language: keep the last
    last: typing.Dict[str, list] = {}
    for o in others:
        if o[0] == 'ovr' and o[3] != {'L': [False, None]}:
            last[o[2]] = o
    langs = [o for o in others if o[0] in ('lang', 'langnone')][-1:]
    singles = list(last.values()) + langs
    rng.shuffle(singles)
    out, fi = [['new']], 0
    slots = sorted(rng.randrange(0, len(files) + 1) for _ in singles)
    k = 0
    for pos in range(len(files) + 1):
        while k < len(singles) and slots[k] == pos:
            out.append(singles[k])
            k += 1
        if pos < len(files):
            out.append(files[pos])
    return out + [['create', 0]]


def gen_cli_cases(rng, count: int, groups: typing.Optional[dict] = None):
    groups = groups or {}
    cases = []
    for te_cli in ('any', 'big'):       # an explicit command-line value against a conflicting file value
        cases.append({'kind': 'cli', 'argv': ['--target-language', 'c', '--experimental-languages', '--target-endianness', te_cli], 'lang': 'c',
                      'files': [N([('nunavut.lang.c', N([('options', N([('target_endianness', L('little'))]))]))])]})
    # systematic family: every shorthand x every key of its group, spelled out in a file with the group's own value and with another
    for sel in sorted(groups):
        if not isinstance(groups[sel], dict):
            continue
        for k in sorted(groups[sel]):
            same = groups[sel][k][2]
            same = same[1] if isinstance(same, tuple) else same
            for val in (same, 'zz_other' if isinstance(same, str) else not same):
                cases.append({'kind': 'cli', 'argv': ['--target-language', 'cpp', '--experimental-languages', '-std', sel], 'lang': 'cpp',
                              'files': [N([('nunavut.lang.cpp', N([('options', N([(k, L(val))]))]))])]})
    count += len(cases)
    while len(cases) < count:
        lang = rng.choice(LANGS)
        argv = ['--target-language', lang] if rng.random() < 0.9 else []
        if not argv:
            lang = 'c'
        argv.append('--experimental-languages')
        for f, opt in zip(FLAGS, ['--omit-float-serialization-support', '--enable-serialization-asserts',
                                  '--enable-override-variable-array-capacity']):
            if rng.random() < 0.35:
                argv.append(opt)
        if rng.random() < 0.4:
            argv += ['--target-endianness', rng.choice(['any', 'big', 'little'])]
        if lang == 'cpp' and rng.random() < 0.6:
            argv += ['-std', rng.choice(['c++14', 'c++17', 'c++17-pmr', 'c++20', 'cetl++14-17'])]
        if rng.random() < 0.3:
            argv += ['--output-extension', rng.choice(['.x', 'hh'])]
        if rng.random() < 0.3:
            argv += ['--namespace-output-stem', 'stem']
        files = [gen_section_doc(rng, lang, True) for _ in range(rng.randrange(0, 4))]
        if '--target-endianness' in argv and rng.random() < 0.7:   # make the files disagree with the command line
            files.append(N([('nunavut.lang.' + lang, N([('options', N([('target_endianness', L(rng.choice(['any', 'big', 'little'])))]))]))]))
        sel = argv[argv.index('-std') + 1] if '-std' in argv else None
        if isinstance(groups.get(sel), dict) and rng.random() < 0.6:
            # a file that spells out part of what the selected shorthand implies: one key of its group, with the group's own value or another
            k = rng.choice(sorted(groups[sel]))
            same = groups[sel][k][2]
            same = same[1] if isinstance(same, tuple) else same
            val = same if rng.random() < 0.6 else ('zz_other' if isinstance(same, str) else not same)
            files.insert(rng.randrange(len(files) + 1), N([('nunavut.lang.cpp', N([('options', N([(k, L(val))]))]))]))
        c = {'kind': 'cli', 'argv': argv, 'files': files, 'lang': lang}
        if len(files) >= 2 and rng.random() < 0.3:      # the files spread over two --configuration options
            k = rng.randrange(1, len(files))
            c['file_groups'] = [k, len(files) - k]
        cases.append(c)
    return cases


COERCE_POOL = [True, False, None, 0, 1, -7, 10, 305, '', '0', 'false', 'False', 'FALSE', 'fAlSe', 'true', 'True', 'no', 'yes', '1', ' 0', '0 ',
               'off', 'ÀB', 'None', {'Li': '[1, 2]'}, {'Li': '[]'}, {'Li': '["a"]'}, {'O': '1.5'}]


def gen_coerce_cases(rng, count: int):
    cases = []
    for _ in range(count):
        items = []
        for i in range(rng.randrange(1, 7)):
            if rng.random() < 0.15:
                v = gen_val(rng, 2, 0.3)
            else:
                v = L(rng.choice(COERCE_POOL), rng.random() < 0.3)
            items.append(('k%d' % i, v))
        secs = N([('nunavut.lang.q', N(items))])
        qs = []
        for k in [k for k, _ in items] + ['missing']:
            for sec in ['nunavut.lang.q'] + (['nunavut.lang.none'] if rng.random() < 0.2 else []):
                qs.append([sec, k, 'v', rng.choice([None, '', 'dflt'])])
                qs.append([sec, k, 'b', rng.random() < 0.5])
                qs.append([sec, k, 'd', rng.choice([None, N([]), N([('z', L(1))])])])
                qs.append([sec, k, 'l', rng.choice([None, L({'Li': '[]'}), L({'Li': '[9]'})])])
        cases.append({'kind': 'coerce', 'sections': secs, 'queries': qs})
    return cases


def coerce_oracle(sections_v, q):
    """the documented behaviour of the getters on the documented value forms; None = not specified here"""
    sec, k, kind, d = q
    m = canon(sections_v).get(sec)
    ent = m.get(k) if isinstance(m, dict) else None
    if kind == 'd':
        if isinstance(ent, dict):
            return ['ok', ent]
        if ent is None:
            return ['ok', canon(d)] if d is not None else ['keyerror']
        return ['ok', canon(d)] if d is not None else ['typeerror']
    if kind == 'l':
        if ent is not None and not isinstance(ent, dict) and isinstance(ent[2], tuple) and ent[2][0] == 'Li':
            return ['ok', ('L', False, ent[2])]
        if ent is None:
            return ['ok', canon(d)] if d is not None else ['keyerror']
        return ['ok', canon(d)] if d is not None else ['typeerror']
    if isinstance(ent, dict) or (ent is not None and isinstance(ent[2], tuple) and ent[2][0] in ('O', 'Li')):
        return None
    if ent is None:
        if kind == 'b':
            return ['ok', d]
        return ['ok', d] if d is not None else ['keyerror']
    a = ent[2]
    a = a[1] if isinstance(a, tuple) else a           # ('B', bool)
    if kind == 'v':
        return ['ok', '' if a is None else str(a)]
    if a is None:
        return ['ok', False]
    if isinstance(a, (bool, int)):
        return ['ok', bool(a)]
    return ['ok', not (a.lower() == 'false' or a == '0' or a == '')]


# ---- running model and implementation ---------------------------------------------------------------------------
def run_impl(reqs) -> typing.List[dict]:
    p = core.run([core.PY, os.path.join(core.VERIF, 'tools', 'harness', 'c13_impl.py')],
                 input=json.dumps({'reqs': reqs}), env=core.repo_env(), timeout=900)
    try:
        return json.loads(p.stdout[p.stdout.rindex('\n{"out"'):])['out']
    except Exception:
        return [{'err': 'harness failure: ' + p.stdout[-400:]}] * len(reqs)


def model_lines(codec: Codec, builtin_v, reqs) -> typing.List[str]:
    b = codec.enc(builtin_v)
    lines = []
    for r in reqs:
        if r['kind'] == 'merge':
            if any(has_sharing(x) for x in [r['base']] + r['srcs']):
                lines.append('D %s %s' % (codec.enc_dag(r['base']), ' '.join(codec.enc_dag(s) for s in r['srcs'])))
            else:
                lines.append('M %s %s' % (codec.enc(r['base']), ' '.join(codec.enc(s) for s in r['srcs'])))
        elif r['kind'] == 'proc':
            parts = []
            for o in r['ops']:
                if o[0] == 'new':
                    parts.append('new')
                elif o[0] in ('file', 'upd'):
                    parts.append('file %d %s' % (o[1], codec.enc(o[2])))
                elif o[0] == 'ovr' and o[3] == {'L': [False, None]}:   # the API ignores a None value
                    parts.append('ovrnone %d %s' % (o[1], codec.s(o[2])))
                elif o[0] == 'ovr':
                    parts.append('ovr %d %s %s' % (o[1], codec.s(o[2]), codec.enc(o[3])))
                elif o[0] == 'ovrnone':
                    parts.append('ovrnone %d %s' % (o[1], codec.s(o[2])))
                elif o[0] == 'lang':
                    parts.append('lang %d %s' % (o[1], codec.s(o[2])))
                elif o[0] == 'langnone':
                    parts.append('langnone %d' % o[1])
                elif o[0] == 'create':
                    parts.append('create %d' % o[1])
            lines.append('P %s %s' % (b, ' '.join(parts)))
        else:
            args = ' '.join('%s %s' % (codec.s(k), codec.atom(v)) for k, v in r['args'].items() if v is not None)
            fe = r.get('files_eff', r['files'])
            lines.append('C %s %d %s %s' % (b, len(fe), ' '.join(codec.enc(f) for f in fe), args))
    return lines


def run_model(exe: str, codec: Codec, lines: typing.List[str]):
    p = core.run([exe], input='\n'.join(lines) + '\n', timeout=900)
    out = []
    for l in p.stdout.splitlines():
        toks = l.split()
        try:
            if toks[0] == 'R':
                r, i = codec.dec_tokens(toks, 1)
                h, i = codec.dec_tokens(toks, i + 1)
                ss = []
                while toks[i] == 'S':
                    s, i = codec.dec_tokens(toks, i + 1)
                    ss.append(s)
                out.append({'result': r, 'heap': h, 'srcs_after': ss, 'shares': toks[i + 1] == '1'})
            elif toks[0] in ('C', 'F'):
                i, creates = 0, []
                while toks[i] == 'C':
                    bi = int(toks[i + 1])
                    sec, j = codec.dec_tokens(toks, i + 2)
                    opt, j = codec.dec_tokens(toks, j)
                    allo, j = codec.dec_tokens(toks, j)
                    if isinstance(allo, dict):
                        allo = {k[len('nunavut.lang.'):]: v for k, v in allo.items()}
                    creates.append({'i': bi, 'sections': sec, 'options': opt, 'all_options': allo})
                    i = j + 1
                final, ctxs = [], []
                i += 1
                while i < len(toks) and toks[i] != 'X':
                    sec, i = codec.dec_tokens(toks, i)
                    final.append(sec)
                    i += 1
                i += 1
                while i < len(toks):
                    sec, i = codec.dec_tokens(toks, i)
                    ctxs.append(sec)
                    i += 1
                out.append({'creates': creates, 'final': final, 'ctx_final': ctxs})
            else:
                out.append({'err': l[:200]})
        except Exception as ex:  # noqa
            out.append({'err': 'unparsable model output %r: %s' % (ex, l[:200])})
    while len(out) < len(lines):
        out.append({'err': 'model produced no output: ' + p.stdout[-200:]})
    return out


_PARSER_TABLE = None


def given_dests(argv) -> typing.Set[str]:
    """argparse dests whose option string literally occurs in argv (regenerated table of cli/__init__.py add_argument calls)"""
    global _PARSER_TABLE
    if _PARSER_TABLE is None:
        from tools.translators import gen_c13
        try:
            _PARSER_TABLE = {f: r['dest'] for r in gen_c13.parser_table() for f in r['flags']}
        except Exception:  # noqa: translator fails closed elsewhere; fall back to the long-option convention
            _PARSER_TABLE = {}
    out = set()
    for t in argv:
        if t.startswith('-'):
            out.add(_PARSER_TABLE.get(t, t.lstrip('-').replace('-', '_')))
    return out


def doc_group_mismatches() -> typing.Optional[typing.List[typing.List[str]]]:
    """(shorthand, key) where docs/languages.rst documents another value than properties.yaml applies"""
    from tools.translators import gen_c13
    try:
        docs = gen_c13.documented_shorthand_groups()
        props = gen_c13.load_properties()['nunavut.lang.cpp'].get('defaults', {})
    except Exception:  # noqa
        return None
    out = []
    for n, g in docs.items():
        for k, v in g.items():
            if props.get(n, {}).get(k) != v:
                out.append([n, k])
    out += [[n, ''] for n in props if n not in docs] + [[n, ''] for n in docs if n not in props]
    return out


def known_entries(chk: core.Check) -> None:
    """entries of known_findings.d/C13.json not yet merged into known_findings.json by the lead"""
    path = os.path.join(core.VERIF, 'known_findings.d', 'C13.json')
    have = {e['id'] for e in chk.known}
    try:
        for e in json.load(open(path, encoding='utf-8'))['findings']:
            if e['id'] not in have and PROP in e['properties']:
                chk.known.append(e)
    except (OSError, ValueError, KeyError):
        pass


def touched_after_create(ops) -> typing.Dict[int, bool]:
    """trigger of F-CFG-REUSE per builder: some call on the builder after its first create()"""
    created, reused = set(), {}
    for o in ops:
        if o[0] == 'new':
            continue
        i = o[1]
        if i in created:
            reused[i] = True
        if o[0] == 'create':
            created.add(i)
    return reused


def non_target_options(ob):
    return {n: canon(v) for n, v in ob['all_options'].items() if n != ob['language']}


def observation_defects(ob):
    """oracles on one full observation of a context (independent of the model):
    - provenance: every option a language reports is configured for THAT language (its own `options` map or one of its `defaults`
      groups) or is the one option its validator is documented to force (py: enable_serialization_asserts);
    - `options` / `ln.<lang>.options` seen by a probe template are the API's get_options() of the same languages."""
    bad = []
    secs = canon(ob['sections'])
    for n, v in ob['all_options'].items():
        sec = secs.get('nunavut.lang.' + n, {})
        allowed = set(sec['options']) if isinstance(sec.get('options'), dict) else set()
        if isinstance(sec.get('defaults'), dict):
            for g in sec['defaults'].values():
                if isinstance(g, dict):
                    allowed |= set(g)
        if n == 'py':
            allowed.add('enable_serialization_asserts')
        extra = sorted(set(canon(v)) - allowed)
        if extra:
            bad.append(('language %s reports options %s that nothing configured for it' % (n, extra), sorted(allowed), sorted(canon(v))))
    if ob.get('template_expected') is not None and ob['template'] != ob['template_expected']:
        bad.append(('a probe template sees other options than the API reports', ob['template_expected'], ob['template']))
    return bad


def canon_obs(ob):
    return {'all_options': {n: canon(v) for n, v in ob['all_options'].items()}, 'options': canon(ob['options']),
            'template': ob.get('template'), 'sections': canon(ob['sections']), 'language': ob.get('language')}


def unmark(x):
    return ('L', False, x[2]) if isinstance(x, tuple) and len(x) == 3 and x[0] == 'L' else x


def wrapper_defects(ob):
    """oracle: what a context reports are plain values, never nunavut.DefaultValue marker objects -- get_options() of every
    language, `options`/`ln.<lang>.options` in a template, --list-configuration"""
    bad = []
    for n, v in list(ob.get('all_options', {}).items()) + [('target', ob['options'])]:
        w = sorted(k for k, x in canon(v).items() if isinstance(x, tuple) and x[1])
        if w:
            bad.append(('get_options() of %s reports DefaultValue marker objects' % n, [], w))
    for n, kv in (ob.get('template') or {}).items():
        if isinstance(kv, dict):
            w = sorted(k for k, t in kv.items() if isinstance(t, str) and t.startswith('DefaultValue('))
            if w:
                bad.append(('a template prints `DefaultValue(...)` for options of %s' % n, [], w))
    if ob.get('listed_has_wrapper'):
        bad.append(('--list-configuration prints DefaultValue objects (python/object tags, not loadable with yaml.safe_load)', [], True))
    return bad[:1]


def strip_obs(ob):
    return {k: ob.get(k) for k in ('all_options', 'options', 'template', 'sections', 'language')}


def explicit_overrides_win(ops, creates):
    """oracle: at every successful create() each explicit (not DefaultValue) value of the builder's current override map is what the
    new context reports, whatever files were added before or after the override was set.  Exempt: options a language's validator
    is documented to force (py enable_serialization_asserts; cpp keys of the std groups)."""
    over: typing.Dict[int, typing.Dict[str, typing.Any]] = {}
    lang: typing.Dict[int, str] = {}
    bad = []
    ci = 0
    for op in ops:
        if op[0] == 'ovr' and op[3] != {'L': [False, None]}:
            over.setdefault(op[1], {})[op[2]] = canon(op[3])
        elif op[0] == 'lang':
            lang[op[1]] = op[2]
        elif op[0] == 'langnone':
            lang[op[1]] = 'c'
        elif op[0] == 'create':
            c = creates[ci]
            ci += 1
            if c['options'] == 'ERR' or op[1] not in lang:
                continue
            l = lang[op[1]]
            sec = canon(c['sections']).get('nunavut.lang.' + l, {})
            forced = set()
            if l == 'py':
                forced.add('enable_serialization_asserts')
            if l == 'cpp' and isinstance(sec.get('defaults'), dict):
                forced.add('std')
                for g in sec['defaults'].values():
                    if isinstance(g, dict):
                        forced |= set(g)
            for k, v in over.get(op[1], {}).items():
                if not isinstance(v, dict):
                    if not v[1] and sec.get(k) != v:
                        bad.append(('explicit API override %s is not what the new context reports' % k, v, sec.get(k)))
                    continue
                have = sec.get(k) if isinstance(sec.get(k), dict) else {}
                for ck, cvv in v.items():
                    if isinstance(cvv, dict) or cvv[1] or (k == 'options' and ck in forced):
                        continue
                    if have.get(ck) != cvv:
                        bad.append(('explicit API override %s.%s is not what the new context reports' % (k, ck), cvv, have.get(ck)))
    return bad


def main(chk: core.Check, replay: typing.Optional[str] = None) -> int:
    quick = chk.tier == 'quick'
    n_merge, n_proc, n_cli = (1200, 70, 50) if quick else (30000, 900, 500)
    known_entries(chk)
    rng = chk.rng
    if replay:
        doc = json.load(open(replay))
        reqs = [doc['case']] if 'case' in doc else []
        merge_cases = [r for r in reqs if r['kind'] == 'merge']
        proc_cases = [r for r in reqs if r['kind'] == 'proc']
        cli_cases = [r for r in reqs if r['kind'] == 'cli']
    else:
        merge_cases = gen_merge_cases(rng, n_merge)
        proc_cases = gen_proc_cases(rng, n_proc)
        cli_cases = None      # generated once the built-in configuration (shorthand groups) is known

    # 1. proof obligations against the regenerated translation
    res = core.coq_check('C13', ['c13'])
    chk.proof_coverage(res, [
        'translator tools/translators/gen_c13.py: Python ast -> Gallina for DefaultValue.assign_to_if_not_default and the body of deep_update '
        '(open recursion), shape-pinned translation of cpp Language._validate_language_options / ConstructorConvention.from_string and of '
        'ArgparseRunner._create_language_context, yaml tables of nunavut.lang.cpp options/defaults, documented groups of docs/languages.rst',
        'hand models Gen/Config.v (LanguageConfig, LanguageContextBuilder, Language.__init__, processes) and Gen/ConfigAlias.v (ownership and '
        'heap models of object identity), tied by the correspondence run below',
        'extraction: Require Extraction ExtrOcamlBasic only; OCaml 4.13.1; ocaml/c13_driver.ml',
    ])
    broken: typing.List[str] = []
    if not res.ok:
        broken.append('proof obligation: %s %s' % (res.failed_file or 'translator', res.failed_theorem or ''))

    # 2. implementation runs (falsifier oracle always) and model runs
    builtin = run_impl([{'kind': 'builtin'}])[0]
    if 'sections' not in builtin:
        chk.violation({'what': 'harness cannot load the built-in configuration', 'detail': builtin, 'broken': broken}, found_input=False)
        return chk.finish()
    builtin_v = builtin['sections']
    builtin_c = canon(builtin_v)
    if cli_cases is None:
        grp = builtin_c.get('nunavut.lang.cpp', {}).get('defaults', {})
        cli_cases = gen_cli_cases(rng, n_cli, grp if isinstance(grp, dict) else {})

    perm_cases = []
    for c in proc_cases:
        if sum(1 for o in c['ops'] if o[0] == 'new') == 1 and sum(1 for o in c['ops'] if o[0] == 'create') == 1:
            perm_cases.append({'kind': 'proc', 'ops': permute_single_builder(rng, c['ops']), 'perm_of': id(c)})
    all_reqs = merge_cases + proc_cases + perm_cases + cli_cases
    impl = run_impl(all_reqs)
    for r, o in zip(all_reqs, impl):
        if r['kind'] == 'cli':
            # the model gets only what is literally GIVEN on the command line (decided from argv with the regenerated argparse table);
            # the values of given options are taken as parsed (type= conversions); everything else comes from the regenerated defaults
            r['args'] = {d: v for d, v in o.get('args', {}).items() if d in given_dests(r['argv'])}
    ok_model, exe, log = core.build_extracted('c13', 'ExtractC13.v', 'c13_driver.ml')

    live: typing.Dict[str, bool] = {}
    probe_violations: typing.List[str] = []
    # 3. probe the known finding F-CFG-REUSE on the implementation
    reuse_live = False
    probe = run_impl([{'kind': 'proc', 'ops': REUSE_WITNESS_OPS}])[0]
    try:
        first = canon(probe['creates'][0]['sections'])['nunavut.lang.c']['options']['target_endianness']
        now = canon(probe['ctx_final'][0][1])['nunavut.lang.c']['options']['target_endianness']
        reuse_live = first == ('L', False, 'big') and now == ('L', False, 'little')
    except Exception:  # noqa
        reuse_live = False
    if reuse_live and chk.is_known('F-CFG-REUSE'):
        chk.report_known('F-CFG-REUSE')

    # 3b. probe the pending findings (design_notes/C13_*_fix.patch) on the implementation
    g1 = N([('nunavut.lang.c', N([('options', N([('target_endianness', L('big'))]))]))])
    g2 = N([('nunavut.lang.c', N([('options', N([('enable_serialization_asserts', L(True))]))]))])
    pr = run_impl([ALIASMAP_WITNESS, {'kind': 'cli', 'argv': ['--target-language', 'py', '--experimental-languages'], 'files': []},
                   {'kind': 'emptydoc'},
                   {'kind': 'cli', 'argv': ['--target-language', 'c', '--experimental-languages'], 'files': [g1, g2], 'file_groups': [1, 1]}])
    probes = {}
    try:
        probes['F-CFG-ALIASMAP'] = canon(pr[0]['result'])['e']['b']['k'] == ('L', False, 2)
        probes['F-CFG-WRAPPER'] = bool(pr[1].get('listed_has_wrapper')) or any(isinstance(x, tuple) and x[1] for x in canon(pr[1]['options']).values())
        probes['F-CFG-EMPTYDOC'] = str(pr[2].get('empty', '')).startswith('raised') or str(pr[2].get('comment', '')).startswith('raised')
        probes['F-CFG-REPEATC'] = canon(pr[3]['options']).get('target_endianness') != ('L', False, 'big')
    except Exception as ex:  # noqa
        chk.notes.append('probe failure: %r' % (ex,))
    for fid, is_live in probes.items():
        if is_live and chk.is_known(fid):
            chk.report_known(fid)
            live[fid] = True
        elif is_live:
            probe_violations.append(fid)
    if 'changed' in (pr[2].get('empty'), pr[2].get('comment')):
        probe_violations.append('an empty configuration file changes the configuration')

    # documented shorthand groups vs applied groups (values): known documentation defect F-DOC-STDGROUP
    doc_mis = doc_group_mismatches()
    doc_other = None
    if doc_mis is not None:
        known_pair = ['c++17-pmr', 'allocator_include']
        if known_pair in doc_mis and chk.is_known('F-DOC-STDGROUP'):
            chk.report_known('F-DOC-STDGROUP')
            doc_other = [m for m in doc_mis if m != known_pair]
        else:
            doc_other = doc_mis

    # the files a CLI case effectively merges: all of them, in command-line order -- unless repeated --configuration options are still
    # replaced by the last one (F-CFG-REPEATC live), which the model (fed by the check) then follows
    for r in all_reqs:
        if r['kind'] == 'cli':
            groups = r.get('file_groups') or [len(r['files'])]
            r['files_eff'] = r['files'][len(r['files']) - groups[-1]:] if (live.get('F-CFG-REPEATC') and len(groups) > 1) else r['files']
    codec = Codec()
    model = None
    if ok_model:
        model = run_model(exe, codec, model_lines(codec, builtin_v, all_reqs))
    else:
        broken.append('model does not build/extract: ' + log[-300:])

    stats: typing.Dict[str, int] = {'merge_cases': len(merge_cases), 'proc_cases': len(proc_cases), 'cli_cases': len(cli_cases),
                                    'permuted_interleavings': len(perm_cases), 'model_vs_impl_compared': 0, 'oracle_vs_impl_compared': 0,
                                    'known_finding_instances': 0, 'create_raised': 0, 'reuse_cases': 0, 'multi_builder_cases': 0}
    events: typing.Dict[str, int] = {}
    distinct = set()
    bad_oracle: typing.List[typing.Tuple[dict, str, typing.Any, typing.Any]] = []
    bad_model: typing.List[typing.Tuple[dict, str, typing.Any, typing.Any]] = []
    by_id = {id(c): (c, o) for c, o in zip(all_reqs, impl)}

    for n, (r, o) in enumerate(zip(all_reqs, impl)):
        m = model[n] if model is not None else None
        if 'err' in o:
            bad_model.append((r, 'harness error', None, o['err']))
            continue
        if m is not None and 'err' in m:
            bad_model.append((r, 'model error', m['err'], None))
            m = None
        if r['kind'] == 'merge':
            ev: typing.Dict[str, int] = {}
            exp = canon(r['base'])
            for s in r['srcs']:
                exp = o_merge(exp, canon(s), ev)
            for k, v in ev.items():
                events[k] = events.get(k, 0) + v
            if set(ev) & NONTRIVIAL:
                distinct.add(json.dumps([r['base'], r['srcs']], sort_keys=True))
            stats['oracle_vs_impl_compared'] += 1
            got = canon(o['result'])
            shared_case = any(has_sharing(x) for x in [r['base']] + r['srcs'])
            stats['merge_cases_with_shared_submaps'] = stats.get('merge_cases_with_shared_submaps', 0) + shared_case
            if got != exp:
                if shared_case and live.get('F-CFG-ALIASMAP') and (m is None or m.get('result') == got):
                    stats['known_finding_instances'] += 1
                else:
                    bad_oracle.append((r, 'merged value differs from precedence/deep-union oracle', exp, got))
            after = [canon(s) for s in o['srcs_after']]
            if after != [canon(s) for s in r['srcs']]:
                bad_oracle.append((r, 'a source document was modified by the merge', [canon(s) for s in r['srcs']], after))
            elif o['shares']:
                bad_oracle.append((r, 'the merged configuration shares a dict object with a source document', False, True))
            if m is not None:
                stats['model_vs_impl_compared'] += 1
                if m['result'] != got or m['heap'] != got:
                    bad_model.append((r, 'Config.du / ConfigAlias.hdu vs deep_update: value', m['result'], got))
                elif m['srcs_after'] != after or m['shares'] != o['shares']:
                    bad_model.append((r, 'ConfigAlias.hdu/tdu vs deep_update: aliasing', [m['srcs_after'], m['shares']], [after, o['shares']]))
        elif r['kind'] == 'proc':
            reused = touched_after_create(r['ops'])
            stats['reuse_cases'] += bool(reused)
            stats['multi_builder_cases'] += sum(1 for x in r['ops'] if x[0] == 'new') > 1
            stats['create_raised'] += sum(1 for c in o['creates'] if c['options'] == 'ERR')
            stats['oracle_vs_impl_compared'] += 1
            stats['yaml_documents_deep_compared'] = stats.get('yaml_documents_deep_compared', 0) + o.get('yaml_docs', {}).get('checked', 0)
            if o.get('yaml_docs', {}).get('modified'):
                bad_oracle.append((r, 'a yaml-loaded source document (dicts / nested lists) was modified by the builder operations',
                                   [], o['yaml_docs']['modified']))
            if not o['docs_unmodified']:
                bad_oracle.append((r, 'a document or override value passed to the API was modified', None, None))
            # earlier-context stability: every context must still report what it reported when it was created
            nth_create: typing.Dict[int, int] = {}
            seen_create = 0
            for ci, (bi, final_v) in enumerate(o['ctx_final']):
                ok_creates = [c for c in o['creates'] if c['options'] != 'ERR']
                at_create = canon(ok_creates[ci]['sections'])
                if canon(final_v) != at_create:
                    # later creates of the SAME builder come after this context in ctx_final order
                    later_same = any(b2 == bi for b2, _ in o['ctx_final'][ci + 1:]) or reused.get(bi, False)
                    if later_same and reuse_live and chk.is_known('F-CFG-REUSE'):
                        stats['known_finding_instances'] += 1
                    else:
                        bad_oracle.append((r, 'context %d (builder %d) reports something else than when it was created' % (ci, bi),
                                           at_create, canon(final_v)))
            for what, exp, got in explicit_overrides_win(r['ops'], o['creates']):
                bad_oracle.append((r, what, exp, got))
            ok_obs = [c for c in o['creates'] if c['options'] != 'ERR']
            for ob in ok_obs:
                for what, exp, got in wrapper_defects(ob):
                    if live.get('F-CFG-WRAPPER'):
                        stats['known_finding_instances'] += 1
                    else:
                        bad_oracle.append((r, what, exp, got))
            for ci, ob in enumerate(ok_obs):
                for what, exp, got in observation_defects(ob):
                    bad_oracle.append((r, what, exp, got))
                fin = o['ctx_obs_final'][ci]
                if strip_obs(fin) != strip_obs(ob) and not (reuse_live and chk.is_known('F-CFG-REUSE') and reused.get(ob['i'], False)):
                    d = [k for k in ('all_options', 'options', 'template', 'sections') if fin.get(k) != ob.get(k)]
                    bad_oracle.append((r, 'context %d reports other %s at the end of the process than when it was created' % (ci, d),
                                       {k: ob.get(k) for k in d if k != 'sections'}, {k: fin.get(k) for k in d if k != 'sections'}))
            if 'perm_of' in r:
                base_case, base_out = by_id[r['perm_of']]
                if 'err' not in base_out and canon(base_out['final'][0]) != canon(o['final'][0]):
                    bad_oracle.append(({'kind': 'proc', 'ops': base_case['ops'], 'permuted': r['ops']},
                                       'two interleavings with the same files, overrides and language give different configurations',
                                       canon(base_out['final'][0]), canon(o['final'][0])))
            if m is not None:
                stats['model_vs_impl_compared'] += 1
                if len(m['creates']) != len(o['creates']):
                    bad_model.append((r, 'number of create() results', len(m['creates']), len(o['creates'])))
                else:
                    for mc, oc in zip(m['creates'], o['creates']):
                        osec = canon(oc['sections'])
                        oopt = 'ERR' if oc['options'] == 'ERR' else canon(oc['options'])
                        if mc['sections'] != osec:
                            bad_model.append((r, 'Config.bcreate_st vs LanguageContextBuilder.create: sections', mc['sections'], osec))
                            break
                        if mc['options'] != oopt:
                            bad_model.append((r, 'Config.language_init vs Language.get_options', mc['options'], oopt))
                            break
                        if oopt != 'ERR' and mc['all_options'] != non_target_options(oc):
                            bad_model.append((r, 'Config.observe_ctx vs get_options() of every non-target language of the context',
                                              mc['all_options'], non_target_options(oc)))
                            break
                    else:
                        if m['final'] != [canon(x) for x in o['final']]:
                            bad_model.append((r, 'Config.prun vs builders: final configuration of every builder', m['final'],
                                              [canon(x) for x in o['final']]))
                        elif m['ctx_final'] != [canon(x) for _, x in o['ctx_final']]:
                            bad_model.append((r, 'Config.ctx_report vs what every context reports at the end', m['ctx_final'],
                                              [canon(x) for _, x in o['ctx_final']]))
        else:  # cli
            stats['oracle_vs_impl_compared'] += 1
            if o['options'] != 'ERR':
                for what, exp, got in observation_defects(o):
                    bad_oracle.append((r, what, exp, got))
                # oracle: file values for the three flags survive unless the flag is given; given flags are True
                exp_sec = builtin_c
                for f in r['files_eff']:
                    exp_sec = o_merge(exp_sec, canon(f))
                if len(r['files_eff']) != len(r['files']):      # only when F-CFG-REPEATC is live and known
                    stats['known_finding_instances'] += 1
                file_opts = exp_sec.get('nunavut.lang.' + r['lang'], {}).get('options', {})
                got_opts = canon(o['options'])
                for what, exp, got in wrapper_defects(o):
                    if live.get('F-CFG-WRAPPER'):
                        stats['known_finding_instances'] += 1
                    else:
                        bad_oracle.append((r, what, exp, got))
                # observation channel `nnvg --list-configuration`: prints what the context holds; its options are get_options()
                if o.get('listed') is None:
                    bad_oracle.append((r, '--list-configuration failed', None, o.get('listed_error')))
                else:
                    stats['list_configuration_outputs_compared'] = stats.get('list_configuration_outputs_compared', 0) + 1
                    listed = canon(o['listed'])
                    if listed != canon(o['sections']):
                        bad_oracle.append((r, '--list-configuration prints something else than the context holds', canon(o['sections']), listed))
                    lo = listed.get('nunavut.lang.' + r['lang'], {}).get('options')
                    if isinstance(lo, dict) and lo != got_opts:
                        bad_oracle.append((r, '--list-configuration options differ from get_options() of the target language', got_opts, lo))
                    if o.get('listed_target') != "target_language: '%s'" % r['lang']:
                        bad_oracle.append((r, '--list-configuration names another target language', r['lang'], o.get('listed_target')))
                stats['yaml_documents_deep_compared'] = stats.get('yaml_documents_deep_compared', 0) + o.get('yaml_docs', {}).get('checked', 0)
                if o.get('yaml_docs', {}).get('modified'):
                    bad_oracle.append((r, 'a yaml-loaded source document was modified by the CLI context creation', [], o['yaml_docs']['modified']))
                gd = given_dests(r['argv'])
                # oracle: an option that is NOT on the command line leaves the merged file value in force
                if 'target_endianness' not in gd and got_opts.get('target_endianness') != file_opts.get('target_endianness'):
                    bad_oracle.append((r, 'target_endianness is not given on the command line but the effective value is not the file value',
                                       file_opts.get('target_endianness'), got_opts.get('target_endianness')))
                if 'language_standard' not in gd and r['lang'] != 'cpp' and got_opts.get('std') != file_opts.get('std'):
                    bad_oracle.append((r, 'std is not given on the command line but the effective value is not the file value',
                                       file_opts.get('std'), got_opts.get('std')))
                for f in FLAGS:
                    given = f in gd
                    if r['lang'] == 'py' and f == 'enable_serialization_asserts':
                        continue
                    want = ('L', False, ('B', True)) if given else file_opts.get(f, ('L', True, ('B', False)))
                    if unmark(got_opts.get(f)) != unmark(want):      # (whether a DefaultValue marker leaks is the business of wrapper_defects)
                        bad_oracle.append((r, 'CLI flag %s: effective value is not (flag given ? True : file value)' % f, want, got_opts.get(f)))
                # oracle: an option given explicitly on the command line beats every file
                if '--target-endianness' in r['argv']:
                    want = ('L', False, r['argv'][r['argv'].index('--target-endianness') + 1])
                    if got_opts.get('target_endianness') != want:
                        bad_oracle.append((r, 'explicit --target-endianness does not win over the configuration files', want,
                                           got_opts.get('target_endianness')))
                # oracle: a -std shorthand given on the command line sets its whole (merged) group
                std = o['args'].get('language_standard') if 'language_standard' in gd else None
                if std is None and isinstance(file_opts.get('std'), tuple) and isinstance(file_opts['std'][2], str):
                    std = file_opts['std'][2]          # the shorthand may also be selected by a configuration file
                grp = exp_sec.get('nunavut.lang.cpp', {}).get('defaults', {}).get(std) if r['lang'] == 'cpp' and isinstance(std, str) else None
                if isinstance(grp, dict):
                    for k, want in grp.items():
                        if got_opts.get(k) != want:
                            bad_oracle.append((r, '-std %s: option %s does not have the value of the shorthand group' % (std, k), want, got_opts.get(k)))
                distinct.add(json.dumps([r['argv'], r['files']], sort_keys=True))
            else:
                stats['create_raised'] += 1
            if m is not None:
                stats['model_vs_impl_compared'] += 1
                mc = m['creates'][0] if m.get('creates') else {'sections': None, 'options': None}
                oopt = 'ERR' if o['options'] == 'ERR' else canon(o['options'])
                if mc['options'] != oopt:
                    bad_model.append((r, 'translated cli_ops + Config.bcreate_st vs _create_language_context: options', mc['options'], oopt))
                elif oopt != 'ERR' and mc.get('all_options') != non_target_options(o):
                    bad_model.append((r, 'Config.observe_ctx vs get_options() of every non-target language (CLI context)',
                                      mc.get('all_options'), non_target_options(o)))
                elif o.get('listed') is not None and mc['sections'] != canon(o['listed']):
                    bad_model.append((r, 'Config.bcreate_st (sections the context holds) vs the output of --list-configuration', mc['sections'],
                                      canon(o['listed'])))
                elif 'sections' in o and mc['sections'] != canon(o['sections']):
                    bad_model.append((r, 'translated cli_ops + Config.bcreate_st vs _create_language_context: sections', mc['sections'],
                                      canon(o['sections'])))

    # getters and coercions of LanguageConfig: implementation vs documented forms (oracle) vs model
    coerce_cases = gen_coerce_cases(rng, 60 if quick else 1500) if not replay else [c for c in reqs if c['kind'] == 'coerce']
    c_impl = run_impl(coerce_cases) if coerce_cases else []
    c_lines = []
    for c in coerce_cases:
        sv = codec.enc(c['sections'])
        for sec, k, kind, d in c['queries']:
            if kind == 'l':
                ds = '-' if d is None else codec.atom(d['L'][1])[1:]
            else:
                ds = ('-' if d is None else codec.s(d)) if kind == 'v' else (('t' if d else 'f') if kind == 'b' else ('-' if d is None else codec.enc(d)))
            c_lines.append('G %s %s %s %s %s' % (sv, codec.s(sec), codec.s(k), kind, ds))
    c_model = core.run([exe], input='\n'.join(c_lines) + '\n', timeout=600).stdout.splitlines() if (ok_model and c_lines) else None
    qi = 0
    stats['getter_queries'] = 0
    for c, o in zip(coerce_cases, c_impl):
        for j, q in enumerate(c['queries']):
            got = o['results'][j] if 'results' in o else ['harness error', o.get('err')]
            if got[0] == 'ok' and q[2] in ('d', 'l'):
                got = ['ok', canon(got[1])]
            stats['getter_queries'] += 1
            want = coerce_oracle(c['sections'], q)
            one = {'kind': 'coerce', 'sections': c['sections'], 'queries': [q]}
            if want is not None and want != got:
                bad_oracle.append((one, 'LanguageConfig getter returns something else than documented for this value form', want, got))
            if c_model is not None:
                ml = c_model[qi].split() if qi < len(c_model) else ['ERR']
                if ml[:2] == ['G', 'unmodelled']:
                    pass
                elif ml[:2] == ['G', 'ok']:
                    if q[2] == 'v':
                        mv = ['ok', codec.us(ml[2][1:])]
                    elif q[2] == 'b':
                        mv = ['ok', ml[2] == 't']
                    elif q[2] == 'l':
                        mv = ['ok', ('L', False, ('Li', codec.lback[int(ml[2][1:])]))]
                    else:
                        mv = ['ok', codec.dec_tokens(ml, 2)[0]]
                    if mv != got:
                        bad_model.append((one, 'Config.config_value* vs LanguageConfig.get_config_value*', mv, got))
                elif ml[1:2] != got[:1]:
                    bad_model.append((one, 'Config.config_value* vs LanguageConfig.get_config_value*', ml[1:], got))
            qi += 1

    # fresh-process oracle: a context reports what a brand-new process given only its own builder's calls reports
    n_fresh = 6 if quick else 36
    picks = []
    for r, o in zip(all_reqs, impl):
        if r['kind'] == 'proc' and 'err' not in o and 'perm_of' not in r and sum(1 for x in r['ops'] if x[0] == 'new') > 1:
            seen = 0
            for k, op in enumerate(r['ops']):
                if op[0] == 'create':
                    ob = o['creates'][seen]
                    seen += 1
                    if ob['options'] != 'ERR':
                        own = [['new']] + [[x[0], 0] + list(x[2:]) for x in r['ops'][:k + 1] if x[0] != 'new' and x[1] == op[1]]
                        picks.append((r, ob, own))
    rng.shuffle(picks)
    picks = picks[:n_fresh]
    if picks:
        from concurrent.futures import ThreadPoolExecutor
        with ThreadPoolExecutor(max_workers=6) as ex:
            fresh = list(ex.map(lambda p: run_impl([{'kind': 'proc', 'ops': p[2]}])[0], picks))
        for (r, ob, own), fo in zip(picks, fresh):
            stats['fresh_process_comparisons'] = stats.get('fresh_process_comparisons', 0) + 1
            fob = [c for c in fo.get('creates', []) if c['options'] != 'ERR'][-1:] if 'err' not in fo else []
            if not fob or canon_obs(fob[0]) != canon_obs(ob):
                bad_oracle.append(({'kind': 'proc', 'ops': r['ops'], 'isolated': own},
                                   'a context reports something else than a fresh process given only its own builder\'s calls',
                                   canon_obs(fob[0]) if fob else fo, canon_obs(ob)))

    stats.update({'rule_' + k: v for k, v in sorted(events.items())})
    chk.coverage.update({
        'evaluations': len(all_reqs), 'distinct_nontrivial': len(distinct),
        'rule': 'seeded random nested maps (depth <= 4, keys from a 5-letter alphabet so that paths collide, atoms int/str/bool/None/list/float, '
                'DefaultValue markings with probability 0..0.6) merged from 0..4 sources; builder scenarios with 1..3 builders for c/cpp/py in '
                'one process (yaml files, dict updates with DefaultValue, overrides, re-use of a builder in 30%), each single-builder scenario '
                'also re-run under a second interleaving; CLI scenarios through the real argparse parser. Non-trivial = distinct merge case '
                'exercising a shape conflict or a default-vs-existing-value rule, or distinct CLI case that created a context',
        'samples': [merge_cases[i] for i in range(0, min(len(merge_cases), 40), 8)] + [c['ops'] for c in proc_cases[:3]]
                   + [{'argv': c['argv'], 'files': c['files']} for c in cli_cases[:3]],
        'traces_validated_against_impl': stats['model_vs_impl_compared'],
        'distribution': stats,
    })

    def strip(r):
        return {k: v for k, v in r.items() if k not in ('perm_of',)}

    for pv in probe_violations:
        bad_oracle.append(({'kind': 'probe', 'finding': pv}, 'a witness of a configuration defect reproduces but is not a listed known finding: %s' % pv,
                           None, pv))
    if doc_other:
        bad_oracle.append(({'kind': 'docs', 'mismatches': doc_other},
                           'docs/languages.rst documents another option group for a -std shorthand than properties.yaml applies', [], doc_other))
    if bad_oracle:
        r, what, exp, got = bad_oracle[0]
        chk.violation({'case': strip(r), 'what': what, 'expected_by_property': exp, 'implementation': got, 'broken': broken,
                       'n_failing': len(bad_oracle)}, found_input=True)
    elif bad_model:
        r, what, mv, got = bad_model[0]
        chk.violation({'case': strip(r), 'correspondence': what, 'model': mv, 'implementation': got, 'broken': broken,
                       'what': 'model and implementation disagree but no input violating the property was found',
                       'n_disagreements': len(bad_model)}, found_input=False)
    elif broken:
        chk.violation({'broken': broken, 'coq_error': res.error_text[-2000:], 'translators': res.translator_msgs,
                       'what': 'proof obligation or model build no longer checks; searched %d cases on the implementation' % len(all_reqs)},
                      found_input=False)
    return chk.finish()
