"""C08: listing and dry-run modes tell the build system the truth."""
from __future__ import annotations

import concurrent.futures
import json
import os
import re
import shutil
import time
import typing

from tools.lib import core
from tools.translators import gen as _gen  # noqa: F401  (must be imported first: it discovers gen_c08)
from tools.translators import gen_c08

PROP = 'C08'

MANIFEST = dict(
    technique='Coq proof about a model of the nnvg runner whose control structure is re-translated from cli/runners.py on every run '
              '(decidable mode-consistency conditions discharged by computation over all flag combinations, generic theorems by '
              'induction over traces, item lists and the template reference closure); fail-closed effect scan of the whole '
              'listing/dry-run call path; model vs. real nnvg correspondence in all modes with file-system snapshots and influence probes',
    text='Theorems in coq/theories/Properties/C08.v for ALL configurations, inputs and file systems (directories, files with content '
         'and mode): list_outputs_exact (listing = files a successful real run creates from an empty tree; created directories are '
         'parents of listed files), list_modes_pure (list-outputs/list-inputs/list-configuration/dry-run leave every file system '
         'unchanged; rests on the dry-run guards of the leaves and on the effect scan of every function of the call path), '
         'list_inputs_complete (every template of the include/import/extends closure DERIVED in the model from the regenerated '
         'template reference graph, every copied support resource and every DSDL file of the dependency closure is listed; '
         'configuration files are excluded explicitly), its _partial form over effective triggers, listed_templates_are_servable_paths, '
         'rejected_does_nothing. History of the three repaired --list-inputs findings: coq/theories/History/C08_history.v.',
    note='Trusted: Coq kernel; the fail-closed translator gen_c08.py (statement structure, call arguments, effect scan with pinned '
         'callee allow-sets, shape pins of the enumeration functions, template reference scanner); the hand model of what the '
         'generators enumerate is validated by correspondence, not verified; the derived influence set is checked to cover the '
         'measured template loads (get_source trace) and pydsdl dependencies, and spot-checked by editing inputs. Not covered: names '
         'that need stropping, --list-configuration combined with another listing mode, rendering errors. properties.yaml and '
         'Explicit exclusions of list_inputs_complete: __init__.py/byte code of a templates package; templates included by a '
         '--support-templates override (F-LIST-INPUTS-SUPREFS, known). properties.yaml and '
         '--configuration files influence the output and are not listed by --list-inputs: outside the property wording '
         '("every template and every DSDL file"), stated as an exclusion in the theorem and counted in the evidence.',
    design='§5 C08')

FRAGMENT = os.path.join(core.VERIF, 'known_findings.d', 'C08.json')
LANGS = ['c', 'cpp', 'py', 'html']
MODES = ['as-needed', 'always', 'never', 'only']
MODE_COQ = {'always': 'SAlways', 'never': 'SNever', 'as-needed': 'SAsNeeded', 'only': 'SOnly'}
CLS_OF_STEM = {'StructureType': 'CStructure', 'UnionType': 'CUnion', 'DelimitedType': 'CDelimited', 'ServiceType': 'CService',
               'CompositeType': 'CComposite', 'SerializableType': 'CSerializable', 'Any': 'CAny', 'Namespace': 'CNamespace'}
KIND_COQ = {'structure': 'KStructure', 'union': 'KUnion', 'delimited': 'KDelimited', 'service': 'KService'}
SUPPORT_TPL = {'c': ['serialization.j2'], 'cpp': ['serialization.j2'], 'py': ['nunavut_support.j2'], 'html': []}
ANY_J2 = 'generated for {{ T.full_name }}\n'
CREF_FORMS = ['capacity', 'const', 'assert', 'extent']
CONFIG_YAML = 'nunavut.lang.%s:\n  options:\n    enable_serialization_asserts: true\n'
# nested template directories with the same basename in several sub-directories, all loaded by relative path from the
# language's base template (include, include from an included file, macro import)
BASE_TPL = {'c': 'base.j2', 'cpp': 'base.j2', 'py': 'base.j2', 'html': 'type_base.j2'}
NESTED_FILES = {
    'tpl/body.j2': 'top level body\n',
    'tpl/message/body.j2': 'message body\n{% include "message/deep/body.j2" %}\n',
    'tpl/message/deep/body.j2': 'deep message body\n',
    'tpl/service/body.j2': '{% macro svc_body() %}service body macro{% endmacro %}\n',
    'tpl/service/unused/body.j2': 'never loaded\n',
}
NESTED_APPEND = ('\n{% include "message/body.j2" %}\n{% from "service/body.j2" import svc_body %}{{ svc_body() }}\n'
                 '{% include "body.j2" %}\n')
NESTED_PROBES = [
    {'id': 'tpl:nested', 'path': 'tpl/message/body.j2', 'append': 'probe line\n'},
    {'id': 'tpl:nested', 'path': 'tpl/message/deep/body.j2', 'append': 'probe line\n'},
    {'id': 'tpl:nested', 'path': 'tpl/service/body.j2', 'text': '{% macro svc_body() %}service body macro probe{% endmacro %}\n'},
    {'id': 'tpl:nested', 'path': 'tpl/body.j2', 'append': 'probe line\n'},
    {'id': 'tpl:nested-unused', 'path': 'tpl/service/unused/body.j2', 'append': 'probe line\n'},
]


# ---------------------------------------------------------------------------------------------
# case generation
# ---------------------------------------------------------------------------------------------
def full_name(d: dict) -> str:
    return '%s.%s.%d.%d' % ('.'.join(d['ns']), d['name'], d['major'], d['minor'])


def dsdl_text(t: dict, extra_field: bool = False, cmax: int = 5) -> str:
    """every non-service type carries the constant CMAX; `crefs` are references to another definition's CMAX that occur ONLY
    inside expressions (array capacity, constant value, @assert, @extent)"""
    def fields(prefix: str, deps: typing.List[str], n: int) -> typing.List[str]:
        out = ['uint8 %sf%d' % (prefix, j) for j in range(n)]
        out += ['%s %sd%d' % (d, prefix, j) for j, d in enumerate(deps)]
        return out
    # a dependency is the type of a plain field, of a fixed-length or of a variable-length array (chosen per (type, dependency))
    forms = ['', '[2]', '[<=3]', '', '[<=2]']
    deps = [full_name(d) + forms[(t['key'] * 7 + d['key'] * 3 + j) % len(forms)] for j, d in enumerate(t['dep_types'])]
    body = fields('', deps, max(t['nfields'], 2 if t['kind'] == 'union' and not deps else t['nfields']))
    if t['kind'] == 'union' and len(body) < 2:
        body.append('uint16 pad0')
    if extra_field:
        body.append('uint32 probe_extra')
    if t['kind'] != 'service':
        body.insert(0, 'uint8 CMAX = %d' % cmax)
    extent = '%d * 8' % (64 * 4 ** (t['key'] + 1))
    for j, cr in enumerate(t.get('crefs', [])):
        ref = full_name(cr['target']) + '.CMAX'
        if cr['form'] == 'capacity':
            body.append('uint8[<=%s] ca%d' % (ref, j))
        elif cr['form'] == 'const' or (cr['form'] == 'extent' and t['kind'] != 'delimited') or (cr['form'] == 'const' and t['kind'] == 'service'):
            body.insert(0, 'uint16 KC%d = %s + 1' % (j, ref))
        elif cr['form'] == 'assert':
            body.append('@assert %s > 0' % ref)
        else:
            extent = '(%d + %s) * 8' % (64 * 4 ** (t['key'] + 1), ref)
    if t['kind'] == 'structure':
        return '\n'.join(body + ['@sealed']) + '\n'
    if t['kind'] == 'delimited':
        return '\n'.join(body + ['@extent ' + extent]) + '\n'
    if t['kind'] == 'union':
        return '\n'.join(['@union'] + body + ['@sealed']) + '\n'
    return '\n'.join(body + ['@sealed', '---', 'uint8 r0', '@sealed']) + '\n'


def type_rel(t: dict, base: str) -> str:
    return '/'.join([base] + t['ns'] + ['%s.%d.%d.dsdl' % (t['name'], t['major'], t['minor'])])


def gen_namespace(rng, with_lookup: bool, tag: str) -> typing.Tuple[typing.List[dict], typing.List[dict]]:
    root = 'rt' + tag
    lk = 'lk' + tag
    lookups: typing.List[dict] = []
    if with_lookup:
        n = rng.choice([1, 2, 3])
        for j in range(n):
            sub = rng.choice([[], ['lsub']])
            deps = [rng.choice(lookups)] if lookups and rng.random() < 0.5 else []
            crefs = []
            cand = [x for x in lookups if x not in deps]
            if cand and rng.random() < 0.4:
                crefs.append({'target': rng.choice(cand), 'form': rng.choice(CREF_FORMS)})
            lookups.append({'key': 100 + j, 'ns': [lk] + sub, 'name': 'Dep' + 'abc'[j], 'major': 1, 'minor': 0, 'kind': 'structure',
                            'nfields': rng.choice([1, 2]), 'dep_types': deps, 'crefs': crefs})
    subs = [[], ['suba'], ['suba', 'deep'], ['gap', 'inner'], ['subb']]
    roots: typing.List[dict] = []
    n = rng.choice([1, 2, 3, 4, 5])
    used = set()
    for j in range(n):
        sub = rng.choice(subs)
        name = 'Msg' + rng.choice('abcdefg')
        major = 1
        while (tuple(sub), name, major) in used:
            major += 1
        used.add((tuple(sub), name, major))
        kind = rng.choice(['structure', 'structure', 'union', 'delimited', 'service'])
        deps = []
        cand = [r for r in roots if r['kind'] != 'service']
        if cand and rng.random() < 0.5:
            deps.append(rng.choice(cand))
        if lookups and rng.random() < (0.7 if j == 0 else 0.3):
            deps.append(rng.choice(lookups))
        crefs = []
        ccand = [x for x in cand + lookups if x not in deps]
        if ccand and rng.random() < 0.4:
            crefs.append({'target': rng.choice(ccand), 'form': rng.choice(CREF_FORMS)})
        roots.append({'key': 1 + j, 'ns': [root] + sub, 'name': name, 'major': major, 'minor': 0, 'kind': kind,
                      'nfields': rng.choice([0, 1, 2]) if (deps or kind != 'union') else 2, 'dep_types': deps, 'crefs': crefs})
    return roots, lookups


def norm_ext(e: typing.Optional[str]) -> typing.Optional[str]:
    if e is None:
        return None
    return ('.' + e) if (len(e) > 0 and not e.startswith('.')) else e


def make_case(rng, idx: int, forced: typing.Optional[dict] = None) -> dict:
    f = forced or {}
    lang = f.get('lang', LANGS[idx % 4])
    mode = f.get('mode', MODES[(idx // 4) % 4])
    omit = f.get('omit', rng.random() < (0.25 if mode == 'always' else 0.4))
    ns_types = f.get('ns_types', rng.random() < 0.4)
    tpl = f.get('tpl', rng.choice([None, None, 'copy', 'copy+any', 'copy+extra', 'copy+nested', 'copy+nested', 'copy+empty', 'copy+res']))
    if ns_types and lang in ('c', 'cpp') and 'tpl' not in f and rng.random() < 0.7:
        tpl = rng.choice(['copy+any', 'copy+any', 'copy+empty'])
    sup = f.get('sup', rng.choice([None, None, None, 'other', 'shadow', 'shadow+refs']))
    with_lookup = f.get('lookup', rng.random() < 0.5)
    roots, lookups = f.get('types') or gen_namespace(rng, with_lookup, 'abcdefgh'[idx % 8])
    return {'idx': idx, 'lang': lang, 'mode': mode, 'omit': omit, 'ns_types': ns_types,
            'ext': f.get('ext', rng.choice([None, None, '.xx', 'gen', '.x.y', '.tar.h'])),
            'stem': f.get('stem', rng.choice([None, None, 'nsx', 'ns.x'])),
            'tpl': tpl, 'sup': sup, 'roots': roots, 'lookups': lookups, 'probes': f.get('probes', 'auto'), 'tag': f.get('tag', 'random'),
            'now': f.get('now', rng.random() < 0.25), 'embed': f.get('embed', rng.random() < 0.25), 'lc': f.get('lc', rng.random() < 0.2),
            'config': f.get('config', lang in ('c', 'cpp') and rng.random() < 0.3),
            'outdir_kind': f.get('outdir_kind', 'symlink' if rng.random() < 0.12 else 'plain')}


def outdir_of(case: dict) -> str:
    """--outdir as spelled on the command line; 'symlink': through a symbolic link and '..' (lexical normalisation is wrong there)"""
    return 'lnk/../gen' if case.get('outdir_kind') == 'symlink' else 'out'


def job_of(case: dict, work: str, rng) -> dict:
    files = {}
    for t in case['roots']:
        files[type_rel(t, 'ns')] = dsdl_text(t)
    for t in case['lookups']:
        files[type_rel(t, 'lk')] = dsdl_text(t)
    lang = case['lang']
    copies, inventory = [], []
    appends: typing.Dict[str, str] = {}
    symlinks: typing.Dict[str, str] = {'lnk': 'scratch/volume'} if case.get('outdir_kind') == 'symlink' else {}
    args = (['--configuration', 'cfg.yaml'] if case.get('config') else []) + ['-l', lang] + (['-Xlang'] if lang in ('cpp', 'html') else []) \
        + ['--generate-support', case['mode']]
    if case.get('config'):
        files['cfg.yaml'] = CONFIG_YAML % lang
    if case.get('now'):
        args.append('--no-overwrite')
    if case.get('embed'):
        args.append('--embed-auditing-info')
    if case['omit']:
        args.append('--omit-serialization-support')
    if case['ns_types']:
        args.append('--generate-namespace-types')
    if case['ext'] is not None:
        args += ['--output-extension', case['ext']]
    if case['stem'] is not None:
        args += ['--namespace-output-stem', case['stem']]
    if case['tpl']:
        copies.append({'from': '%s/templates' % lang, 'to': 'tpl'})
        if case['tpl'] == 'copy+any':
            files['tpl/Any.j2'] = ANY_J2
        if case['tpl'] == 'copy+extra':
            files['tpl/extra/Unused.j2'] = 'never used\n'
            files['tpl/notes.txt'] = 'not a template\n'
            files['tpl/helper.py'] = '# a Python file next to the templates\n'
        if case['tpl'] == 'copy+res':        # a .py resource and a template below a symbolically linked sub-directory, both included
            files['tpl/snippet.py'] = 'text of a python resource\n'
            files['shared/x.j2'] = 'text of a linked template\n'
            symlinks['tpl/sl'] = '../shared'
            appends['tpl/' + BASE_TPL[lang]] = '\n{% include "snippet.py" %}\n{% include "sl/x.j2" %}\n'
        if case['tpl'] == 'copy+empty':      # user templates that render nothing: the file is still created (empty)
            files['tpl/UnionType.j2'] = ''
            files['tpl/Any.j2'] = ''
        if case['tpl'] == 'copy+nested':
            files.update(NESTED_FILES)
            appends['tpl/' + BASE_TPL[lang]] = NESTED_APPEND
        args += ['--templates', 'tpl']
        inventory.append('tpl')
    if case['sup']:
        if case['sup'] in ('shadow', 'shadow+refs'):
            copies.append({'from': '%s/support' % lang, 'to': 'sup', 'only': SUPPORT_TPL[lang]})
            files['sup/readme.txt'] = 'x\n'
            if case['sup'] == 'shadow+refs' and SUPPORT_TPL[lang]:      # the override includes a further template of its directory
                files['sup/helper.j2'] = 'text included by the support override\n'
                appends['sup/' + SUPPORT_TPL[lang][0]] = '\n{% include "helper.j2" %}\n'
        else:
            files['sup/other.j2'] = 'unrelated\n'
            files['sup/a/part.j2'] = 'unrelated a\n'
            files['sup/b/part.j2'] = 'unrelated b\n'
        args += ['--support-templates', 'sup']
        inventory.append('sup')
    root_dir = 'ns/' + case['roots'][0]['ns'][0]
    lk_dirs = sorted({'lk/' + t['ns'][0] for t in case['lookups']})
    probes = []
    if case['probes'] == 'auto':
        cands = []
        for t in case['roots'][:2]:
            cands.append({'id': 'root-dsdl', 'path': type_rel(t, 'ns'), 'text': dsdl_text(t, True)})
        for t in case['lookups'][:2]:
            cands.append({'id': 'lookup-dsdl', 'path': type_rel(t, 'lk'), 'text': dsdl_text(t, True)})
        const_probes = []
        for t in case['roots'] + case['lookups']:
            for cr in t.get('crefs', []):
                tg = cr['target']
                const_probes.append({'id': 'const-only:' + cr['form'], 'path': type_rel(tg, 'lk' if tg in case['lookups'] else 'ns'),
                                     'text': dsdl_text(tg, False, cmax=9)})
        if case['tpl']:
            cands.append({'id': 'tpl:j2', 'path': 'tpl/' + ('base.j2' if lang in ('c', 'cpp', 'py') else 'type_base.j2'),
                          'append': '\nprobe line\n'})
            if lang == 'html':
                cands.append({'id': 'tpl:nonj2', 'path': 'tpl/namespace_base.js', 'append': '\n// probe line\n'})
            if case['tpl'] == 'copy+extra':
                cands.append({'id': 'tpl:unused', 'path': 'tpl/extra/Unused.j2', 'append': 'probe\n'})
        if case['sup'] == 'shadow+refs' and SUPPORT_TPL[lang]:
            cands.insert(0, {'id': 'sup:included', 'path': 'sup/helper.j2', 'append': 'probe line\n'})
        if case['tpl'] == 'copy+res':
            cands.insert(0, {'id': 'tpl:pyres', 'path': 'tpl/snippet.py', 'append': 'probe line\n'})
            cands.insert(0, {'id': 'tpl:linked', 'path': 'shared/x.j2', 'append': 'probe line\n'})
        if case['sup'] in ('shadow', 'shadow+refs') and SUPPORT_TPL[lang]:
            cands.append({'id': 'sup:shadow', 'path': 'sup/' + SUPPORT_TPL[lang][0], 'append': '\nprobe line\n'})
        if case['sup'] == 'other':
            cands.append({'id': 'sup:other', 'path': rng.choice(['sup/other.j2', 'sup/a/part.j2', 'sup/b/part.j2']), 'append': 'probe\n'})
        rng.shuffle(cands)
        if case.get('config'):
            cands.insert(0, {'id': 'config', 'path': 'cfg.yaml', 'text': (CONFIG_YAML % lang) + '    target_endianness: little\n'})
        probes = cands[:case.get('n_probes', 2)]
        probes = const_probes[:1] + probes        # a constant that is referred to only inside an expression is edited
        if case['tpl'] == 'copy+nested':      # every nested file is edited once
            nested = [dict(p) for p in NESTED_PROBES]
            probes = (nested if case['tag'] == 'nested-templates' else rng.sample(nested, 2)) + probes[:1]
    elif isinstance(case['probes'], list):
        probes = case['probes']
    return {'work': work, 'files': files, 'appends': appends, 'copies': copies, 'args': args, 'root': root_dir, 'lookups': lk_dirs, 'probes': probes,
            'inventory': inventory, 'want_trace': True, 'list_configuration': bool(case.get('lc')), 'outdir': outdir_of(case),
            'mkdirs': ['scratch/volume'] if case.get('outdir_kind') == 'symlink' else [],
            'symlinks': symlinks}


def run_case(job: dict) -> dict:
    p = core.run([core.PY, os.path.join(core.VERIF, 'tools', 'harness', 'c08_impl.py')], input=json.dumps(job),
                 env=core.repo_env(), timeout=900)
    for line in p.stdout.splitlines():
        if line.startswith('RESULT'):
            return json.loads(line[6:])
    return {'error': 'harness failure: ' + p.stdout[-500:]}


# ---------------------------------------------------------------------------------------------
# the model (Eval vm_compute over a generated cases file)
# ---------------------------------------------------------------------------------------------
def s2c(s: str) -> str:
    return '[' + '; '.join(str(ord(ch)) for ch in s) + ']'


def coq_path(p: str) -> str:
    return '[%s]' % '; '.join(s2c(c) for c in p.split('/'))


def coq_bool(b: bool) -> str:
    return 'true' if b else 'false'


def coq_tdir(work: str, d: str, inv: typing.List[str]) -> str:
    items = []
    for name in inv:
        j2 = os.path.splitext(name)[1] == '.j2'
        stem = os.path.splitext(os.path.basename(name))[0]
        cls = CLS_OF_STEM.get(stem) if (j2 and '/' not in name) else None
        py = os.path.splitext(name)[1] in ('.py', '.pyc', '.pyo') or '__pycache__' in name.split('/')
        refs, dyn = gen_c08.scan_refs_file('%s/%s/%s' % (work, d, name))
        pkg = os.path.basename(name) == '__init__.py' or os.path.splitext(name)[1] in ('.pyc', '.pyo') or '__pycache__' in name.split('/')
        real = os.path.realpath('%s/%s/%s' % (work, d, name))       # --list-inputs prints resolved paths
        linked = not real.startswith(os.path.realpath('%s/%s' % (work, d)) + '/')
        items.append('{| tf_name := %s; tf_path := %s; tf_j2 := %s; tf_py := %s; tf_pkg := %s; tf_linked := %s; tf_cls := %s; '
                     'tf_refs := [%s]; tf_dyn := %s |}' % (
                         s2c(name), coq_path(real), coq_bool(j2), coq_bool(py), coq_bool(pkg), coq_bool(linked),
                         ('Some %s' % cls) if cls else 'None', '; '.join(s2c(r) for r in refs), coq_bool(dyn)))
    return 'Some [%s]' % '; '.join(items)


def coq_case(case: dict, res: dict) -> str:
    work = res['work']
    inv = res.get('inventories', {})

    def dtype(t: dict, base: str) -> str:
        return ('{| t_key := %d; t_ns := [%s]; t_stem := %s; t_kind := %s; t_src := %s; t_deps := [%s]; t_crefs := [%s] |}' % (
            t['key'], '; '.join(s2c(x) for x in t['ns']), s2c('%s_%d_%d' % (t['name'], t['major'], t['minor'])), KIND_COQ[t['kind']],
            coq_path(work + '/' + type_rel(t, base)), '; '.join(str(d['key']) for d in t['dep_types']),
            '; '.join(str(cr['target']['key']) for cr in t.get('crefs', []))))
    cfg = ('{| c_lang := lang_%s; c_flags := {| f_support := %s; f_omit := %s; f_ns := %s; f_dry := false; f_lo := false; f_li := false; '
           'f_lc := false; f_now := %s; f_embed := %s |}; c_ext := %s; c_stem := %s; c_templates := %s; c_support_templates := %s; '
           'c_config_files := [%s]; c_outdir := [%s] |}' % (
               case['lang'], MODE_COQ[case['mode']], coq_bool(case['omit']), coq_bool(case['ns_types']),
               coq_bool(bool(case.get('now'))), coq_bool(bool(case.get('embed'))),
               'None' if case['ext'] is None else 'Some ' + s2c(norm_ext(case['ext'])),
               'None' if case['stem'] is None else 'Some ' + s2c(case['stem']),
               coq_tdir(work, 'tpl', inv.get('tpl', [])) if case['tpl'] else 'None',
               coq_tdir(work, 'sup', inv.get('sup', [])) if case['sup'] else 'None',
               coq_path(work + '/cfg.yaml') if case.get('config') else '', '; '.join(s2c(x) for x in outdir_of(case).split('/'))))
    inp = '{| i_roots := [%s]; i_lookup := [%s]; i_root_dir := %s |}' % (
        '; '.join(dtype(t, 'ns') for t in case['roots']), '; '.join(dtype(t, 'lk') for t in case['lookups']),
        coq_path(work + '/ns/' + case['roots'][0]['ns'][0]))
    return 'Eval vm_compute in (report the_code\n  %s\n  %s).\n' % (cfg, inp)


CASES_HEAD = ('From Coq Require Import List NArith Bool.\nFrom Verif Require Import Str Listing Gen_Listing.\nImport ListNotations.\n'
              'Open Scope N_scope.\n')


def run_model(cases: typing.List[dict], results: typing.List[dict], scratch: str) -> typing.Tuple[typing.Optional[typing.List[dict]], str]:
    todo = [i for i, r in enumerate(results) if 'error' not in r]
    shards = [todo[j::6] for j in range(6)]
    outs: typing.Dict[int, dict] = {}

    def one(k: int) -> str:
        if not shards[k]:
            return ''
        path = os.path.join(scratch, 'cases%d.v' % k)
        with open(path, 'w') as f:
            f.write(CASES_HEAD + '\n'.join(coq_case(cases[i], results[i]) for i in shards[k]))
        p = core.run(['coqc', '-Q', os.path.join(core.COQ, 'theories'), 'Verif', '-w', '-notation-overridden', path], cwd=scratch, timeout=900)
        if p.returncode != 0:
            return 'coqc failed on model cases: ' + p.stdout[-600:]
        found = re.findall(r'=\s*\[(.*?)\]\s*:\s*list N', p.stdout, flags=re.S)
        if len(found) != len(shards[k]):
            return 'could not parse model output (%d of %d)' % (len(found), len(shards[k]))
        for i, body in zip(shards[k], found):
            text = ''.join(chr(int(x)) for x in re.findall(r'\d+', body))
            ln = text.split('\n')
            if len(ln) != 10:
                return 'model report has %d lines' % len(ln)
            sp = lambda s: [x for x in s.split(';') if x != '']
            outs[i] = {'r_real': int(ln[0]), 'r_lo': int(ln[1]), 'lo': sp(ln[2]), 'r_li': int(ln[3]), 'li': sp(ln[4]), 'r_dry': int(ln[5]),
                       'created': sp(ln[6]), 'influence': sp(ln[7]), 'trig_lookup': ln[8][0] == '1', 'trig_nonj2': ln[8][1] == '1',
                       'trig_sup': ln[8][2] == '1', 'consistent': ln[8][3] == '1', 'fix_lookup': ln[8][4] == '1',
                       'fix_nonj2': ln[8][5] == '1', 'fix_suptpl': ln[8][6] == '1', 'trig_py': ln[8][7] == '1',
                       'path_pure': ln[8][8] == '1', 'trig_sup_refs': ln[8][9] == '1', 'fix_constref': ln[8][10] == '1',
                       'trig_constref': ln[8][11] == '1', 'stem_check': ln[8][12] == '1', 'fix_pyres': ln[8][13] == '1',
                       'fix_linkdir': ln[8][14] == '1', 'eff_trig_tpl': ln[8][15] == '1', 'r_rerun': int(ln[8][16]), 'dirs': sp(ln[9])}
        return ''
    with concurrent.futures.ThreadPoolExecutor(max_workers=6) as ex:
        errs = [e for e in ex.map(one, range(6)) if e]
    if errs:
        return None, errs[0]
    return [outs.get(i, {}) for i in range(len(cases))], ''


# ---------------------------------------------------------------------------------------------
# known findings
# ---------------------------------------------------------------------------------------------
def witness_types() -> typing.Tuple[typing.List[dict], typing.List[dict]]:
    # UsesDep -> Dep[<=3] -> Deep[2]: the looked-up types are reached through array element types only
    deep = {'key': 102, 'ns': ['lkw', 'items'], 'name': 'Deep', 'major': 1, 'minor': 0, 'kind': 'structure', 'nfields': 1, 'dep_types': []}
    dep = {'key': 100, 'ns': ['lkw'], 'name': 'Dep', 'major': 1, 'minor': 0, 'kind': 'structure', 'nfields': 1, 'dep_types': [deep]}
    a = {'key': 1, 'ns': ['rtw'], 'name': 'UsesDep', 'major': 1, 'minor': 0, 'kind': 'structure', 'nfields': 1, 'dep_types': [dep]}
    return [a], [dep, deep]


def constref_types() -> typing.Tuple[typing.List[dict], typing.List[dict]]:
    lim = {'key': 100, 'ns': ['lkc'], 'name': 'Limits', 'major': 1, 'minor': 0, 'kind': 'structure', 'nfields': 1, 'dep_types': [], 'crefs': []}
    user = {'key': 1, 'ns': ['rtc'], 'name': 'User', 'major': 1, 'minor': 0, 'kind': 'structure', 'nfields': 0, 'dep_types': [],
            'crefs': [{'target': lim, 'form': 'capacity'}, {'target': lim, 'form': 'const'}]}
    return [user], [lim]


def plain_types() -> typing.Tuple[typing.List[dict], typing.List[dict]]:
    a = {'key': 1, 'ns': ['rtp'], 'name': 'Plain', 'major': 1, 'minor': 0, 'kind': 'structure', 'nfields': 2, 'dep_types': []}
    b = {'key': 2, 'ns': ['rtp', 'sub'], 'name': 'Other', 'major': 1, 'minor': 0, 'kind': 'structure', 'nfields': 1, 'dep_types': [a]}
    return [a, b], []


def union_types() -> typing.Tuple[typing.List[dict], typing.List[dict]]:
    roots, _ = plain_types()
    roots = [dict(t, ns=['rtu'] + t['ns'][1:]) for t in roots]
    roots[1]['dep_types'] = [roots[0]]
    roots.append({'key': 3, 'ns': ['rtu', 'sub'], 'name': 'Choice', 'major': 1, 'minor': 0, 'kind': 'union', 'nfields': 2, 'dep_types': []})
    return roots, []


def witness_cases() -> typing.List[dict]:
    wr, wl = witness_types()
    base = dict(omit=False, ns_types=False, ext=None, stem=None, mode='as-needed')
    return [
        dict(base, lang='c', tpl=None, sup=None, types=(wr, wl), tag='F-LIST-INPUTS-LOOKUP',
             probes=[{'id': 'lookup-dsdl', 'path': type_rel(wl[0], 'lk'), 'text': dsdl_text(wl[0], True)}]),
        dict(base, lang='html', tpl='copy', sup=None, types=plain_types(), tag='F-LIST-INPUTS-NONJ2',
             probes=[{'id': 'tpl:nonj2', 'path': 'tpl/namespace_base.js', 'append': '\n// probe line\n'}]),
        dict(base, lang='c', tpl=None, sup='shadow', types=plain_types(), tag='F-LIST-INPUTS-SUPTPL',
             probes=[{'id': 'sup:shadow', 'path': 'sup/serialization.j2', 'append': '\nprobe line\n'}]),
        dict(base, lang='c', tpl=None, sup=None, types=constref_types(), tag='F-LIST-INPUTS-CONSTREF', config=False,
             probes=[{'id': 'const-only:capacity', 'path': 'lk/lkc/Limits.1.0.dsdl', 'text': dsdl_text(constref_types()[1][0], False, cmax=9)}]),
        dict(base, lang='c', mode='never', tpl='copy+res', sup=None, types=plain_types(), tag='F-LIST-INPUTS-PYRES', config=False,
             probes=[{'id': 'tpl:pyres', 'path': 'tpl/snippet.py', 'append': 'probe line\n'}]),
        dict(base, lang='py', mode='never', tpl='copy+res', sup=None, types=plain_types(), tag='F-LIST-INPUTS-SYMLINKDIR', config=False,
             probes=[{'id': 'tpl:linked', 'path': 'shared/x.j2', 'append': 'probe line\n'}]),
        dict(base, lang='c', tpl=None, sup='shadow+refs', types=plain_types(), tag='F-LIST-INPUTS-SUPREFS', config=False,
             probes=[{'id': 'sup:included', 'path': 'sup/helper.j2', 'append': 'probe line\n'}]),
        # the repaired F-LIST-ONLY-POD must stay repaired
        dict(base, lang='c', mode='only', omit=True, tpl=None, sup=None, types=plain_types(), tag='fixed:F-LIST-ONLY-POD', probes=[]),
        dict(base, lang='c', mode='always', omit=True, tpl=None, sup=None, types=plain_types(), tag='rejected', probes=[]),
        # --outdir spelled through a symbolic link and '..': the listing must denote the files the run creates
        dict(base, lang='c', tpl=None, sup=None, types=plain_types(), tag='symlink-outdir', outdir_kind='symlink', probes=[]),
        # nested custom template directories with duplicate basenames, every file edited once
        dict(base, lang='c', mode='never', tpl='copy+nested', sup=None, types=plain_types(), tag='nested-templates', probes='auto'),
        dict(base, lang='py', mode='as-needed', tpl='copy+nested', sup='other', types=plain_types(), tag='nested-templates', probes='auto'),
        # user templates that render nothing (namespace file through an empty Any.j2, a union through an empty UnionType.j2)
        dict(base, lang='c', mode='never', ns_types=True, tpl='copy+empty', sup=None, types=union_types(), tag='empty-templates', probes=[]),
        # a namespace file stem spelled like a type's file name: refused in every mode, nothing listed, nothing written
        dict(base, lang='c', mode='never', stem='Plain_1_0', tpl=None, sup=None, types=plain_types(), tag='ns-clash', probes=[]),
        # a namespace file stem that is not a plain file name (`..`, `a/b`): refused in every mode like the clash above
        dict(base, lang='py', mode='never', stem='..', tpl=None, sup=None, types=plain_types(), tag='bad-stem', probes=[]),
        dict(base, lang='c', mode='only', stem='a/b', tpl=None, sup=None, types=plain_types(), tag='bad-stem', probes=[]),
        # Python imports its (de)serialization templates unconditionally: they influence the output also with -pod
        dict(base, lang='py', mode='never', omit=True, tpl=None, sup=None, types=plain_types(), tag='py-omit', probes=[]),
    ]


def known_entries(chk: core.Check) -> None:
    """entries of known_findings.d/C08.json that the merged known_findings.json does not carry yet"""
    try:
        with open(FRAGMENT, encoding='utf-8') as f:
            for e in json.load(f)['findings']:
                if PROP in e['properties'] and chk.known_entry(e['id']) is None:
                    chk.known.append(e)
    except (OSError, ValueError, KeyError):
        pass


def composite_reach(case: dict, work: str) -> typing.Set[str]:
    """the .dsdl files reachable from the root types through the types of FIELDS only (what DependencyBuilder follows)"""
    seen: typing.Set[str] = set()
    todo = list(case['roots'])
    while todo:
        t = todo.pop()
        p = work + '/' + type_rel(t, 'lk' if t in case['lookups'] else 'ns')
        if p not in seen:
            seen.add(p)
            todo += t['dep_types']
    return seen


def category(path: str, work: str, root_dir: str, comp: typing.Optional[typing.Set[str]] = None) -> str:
    if path.endswith(('.yaml', '.yml')):
        return 'config'       # outside the property's wording ("every template and every DSDL file"): counted, not a violation
    if path.endswith('.dsdl') and not path.startswith(root_dir + '/'):
        # reached only through a constant used in an expression, or (also) as the type of a field
        return 'F-LIST-INPUTS-LOOKUP' if (comp is None or path in comp) else 'F-LIST-INPUTS-CONSTREF'
    if path.startswith(work + '/sup/'):
        # the override of a packaged resource itself, or something the override includes
        return 'F-LIST-INPUTS-SUPTPL' if os.path.basename(path) in sum(SUPPORT_TPL.values(), []) else 'F-LIST-INPUTS-SUPREFS'
    if path.startswith(work + '/shared/'):
        return 'F-LIST-INPUTS-SYMLINKDIR'
    if path.endswith('.py'):
        return 'F-LIST-INPUTS-PYRES'
    if not path.endswith('.j2') and not path.endswith('.dsdl'):
        return 'F-LIST-INPUTS-NONJ2'
    return 'other'


# ---------------------------------------------------------------------------------------------
def main(chk: core.Check, replay: typing.Optional[str] = None) -> int:
    known_entries(chk)
    n_random = 29 if chk.tier == 'quick' else 300
    rng = chk.rng
    cases = [make_case(rng, i, forced=w) for i, w in enumerate(witness_cases())]
    if replay:
        doc = json.load(open(replay))
        if 'case' in doc:
            cases = [doc['case']]
            n_random = 0
    for j in range(n_random):
        cases.append(make_case(rng, len(cases)))

    # 1. proof obligations against the regenerated translation
    res = core.coq_check('C08', ['listing', 'pin_c08_enum'])
    chk.proof_coverage(res, [
        'translator tools/translators/gen_c08.py (statement structure and call arguments of ArgparseRunner.run/_list_outputs_only/'
        '_list_inputs_only/_generate, _should_generate_support, _post_process_args, namespace-type decision, SupportGenerator.get_templates, '
        'dry-run guards; structural checks of the generate_all loops; package data read from the tree)',
        'shape pin c08_enum (tools/translators/shape_pin.py): normalised AST of DSDLTemplateLoader.__init__/get_source/get_templates/'
        '_filter_template_list_by_suffix, CodeGenerator.get_templates, SupportGenerator.get_templates/_get_templates_by_support_type, '
        'Language.get_support_files, iter_package_resources -- the enumeration logic the hand model describes',
        'hand model Gen/Listing.v of namespace index, output paths, loader chains and support resources, tied by the correspondence run',
        'template loads are measured by wrapping DSDLTemplateLoader.get_source in the harness; DSDL dependencies are read from pydsdl',
        'model evaluation: Eval vm_compute in generated case files (no extraction)',
    ])
    broken: typing.List[str] = []
    if not res.ok:
        broken.append('proof obligation: %s %s' % (res.failed_file or 'translator', res.failed_theorem or ''))

    t_coq = time.time() - chk.t0
    # 2. the implementation in four modes
    scratch = core.scratch('nnvverif-c08-')
    jobs = [job_of(c, os.path.join(scratch, 'case%d' % c['idx']), rng) for c in cases]
    with concurrent.futures.ThreadPoolExecutor(max_workers=6) as ex:
        results = list(ex.map(run_case, jobs))
    for r in results:       # read-only outputs
        if 'work' in r:
            for dirpath, dirnames, filenames in os.walk(r['work']):
                for n in dirnames + filenames:
                    try:
                        os.chmod(os.path.join(dirpath, n), 0o700)
                    except OSError:
                        pass

    t_impl = time.time() - chk.t0 - t_coq
    # 3. the model on the same cases
    model, merr = (None, 'model not built')
    gl = os.path.join(core.COQ, 'theories', 'Generated', 'Gen_Listing.v')
    listing_ok = any(m.startswith('listing: ok') for m in res.translator_msgs)   # a broken shape pin alone does not stop the model
    if listing_ok and os.path.exists(gl + 'o') and os.path.getmtime(gl + 'o') >= os.path.getmtime(gl):
        model, merr = run_model(cases, results, scratch)
    if model is None:
        broken.append('model cannot be evaluated: ' + merr)

    chk.notes.append('phases: coq (incl. waiting for the shared build lock) %.0fs, implementation %.0fs, model %.0fs'
                     % (t_coq, t_impl, time.time() - chk.t0 - t_coq - t_impl))
    # 4. known findings: probe the witnesses on the implementation
    live = {}
    for i, c in enumerate(cases):
        fid = c['tag']
        if fid.startswith('F-LIST-INPUTS') and 'error' not in results[i]:
            r = results[i]
            listed = set(r['modes']['list_inputs']['listing'])
            pr = r['probes'][0] if r.get('probes') else None
            live[fid] = bool(pr and pr['n_changed'] > 0 and pr['path'] not in listed)
            if live[fid] and chk.is_known(fid):
                chk.report_known(fid)

    stats = {'cases': len(cases), 'rejected': 0, 'failed_runs': 0, 'successful': 0, 'probes': 0, 'probes_changed': 0,
             'probes_unlisted_changed_known': 0, 'known_finding_instances': 0, 'model_compared': 0, 'with_lookup_deps': 0,
             'custom_templates': 0, 'custom_support_templates': 0, 'ns_files_listed': 0, 'support_files_listed': 0,
             'ext_override': 0, 'stem_override': 0, 'by_lang': {}, 'by_mode': {}, 'influential_inputs_checked': 0,
             'config_inputs_influential_and_unlisted': 0, 'derived_influence_total': 0, 'derived_influence_not_observed': 0,
             'rerun_refused_no_overwrite': 0, 'namespace_clash_refused': 0, 'list_configuration_runs': 0, 'no_overwrite': 0, 'embed_auditing_info': 0, 'configuration_file': 0}
    distinct = set()
    bad: typing.List[dict] = []        # property violated by the implementation (failing input)
    mism: typing.List[dict] = []       # model and implementation disagree
    samples = []

    for i, c in enumerate(cases):
        r = results[i]
        desc = {k: c.get(k) for k in ('idx', 'lang', 'mode', 'omit', 'ns_types', 'ext', 'stem', 'tpl', 'sup', 'tag', 'now', 'embed', 'lc', 'config')}
        desc['n_roots'], desc['n_lookup'] = len(c['roots']), len(c['lookups'])
        if i % 6 == 0 and len(samples) < 12:
            samples.append(desc)
        if 'error' in r:
            mism.append({'case': c, 'what': r['error']})
            continue
        stats['by_lang'][c['lang']] = stats['by_lang'].get(c['lang'], 0) + 1
        stats['by_mode'][c['mode']] = stats['by_mode'].get(c['mode'], 0) + 1
        stats['with_lookup_deps'] += any(d in c['lookups'] for t in c['roots'] for d in t['dep_types'])
        stats['custom_templates'] += bool(c['tpl'])
        stats['custom_support_templates'] += bool(c['sup'])
        stats['ext_override'] += c['ext'] is not None
        stats['stem_override'] += c['stem'] is not None
        stats['no_overwrite'] += bool(c.get('now'))
        stats['embed_auditing_info'] += bool(c.get('embed'))
        stats['configuration_file'] += bool(c.get('config'))
        md = r['modes']
        work = r['work']
        root_dir = work + '/ns/' + c['roots'][0]['ns'][0]
        comp = composite_reach(c, work)
        m = model[i] if model is not None else None
        rcs = [md[x]['rc'] for x in ('list_outputs', 'list_inputs', 'dry_run', 'real')]

        def fail(what: str, **kw) -> None:
            bad.append(dict({'case': c, 'what': what, 'args': jobs[i]['args'], 'root': jobs[i]['root'], 'lookups': jobs[i]['lookups']}, **kw))

        # purity: nothing on disk may change in the three modes (also over an existing output tree)
        for mode in ('list_outputs', 'list_inputs', 'dry_run'):
            if md[mode]['fs_diff']:
                fail('%s changed the file system' % mode, fs_diff=md[mode]['fs_diff'])
        if md['over_existing']['fs_diff']:
            fail('listing/dry-run over an existing output tree changed the file system', fs_diff=md['over_existing']['fs_diff'])
        # rejection / failure classes
        if all(x == 2 for x in rcs):
            stats['rejected'] += 1
            if m is not None:
                stats['model_compared'] += 1
                if m['r_real'] != 2:
                    mism.append({'case': c, 'what': 'implementation rejects the arguments, model does not', 'model': m['r_real']})
            if md['real']['created_files'] or md['real']['created_dirs']:
                fail('rejected invocation created files', created=md['real']['created_files'])
            continue
        if m is not None and m['r_real'] == 2:
            mism.append({'case': c, 'what': 'model rejects the arguments, implementation does not', 'rcs': rcs})
            continue
        if md['real']['rc'] != 0:
            stats['failed_runs'] += 1
            if m is not None:
                stats['model_compared'] += 1
                if m['r_real'] == 0:
                    mism.append({'case': c, 'what': 'real run fails, model run succeeds', 'stderr': md['real']['stderr']})
                if m['r_real'] == 5:      # namespace file / type file clash: no mode does anything
                    stats['namespace_clash_refused'] += 1
                    if any(x == 0 for x in rcs) or md['real']['created_files'] or md['real']['created_dirs'] \
                            or md['list_outputs']['listing'] or md['list_inputs']['listing']:
                        fail('a namespace-file/type-file clash is not refused in every mode before anything is listed or written',
                             rcs=rcs, created=md['real']['created_files'])
                elif 'would both be generated at' in md['real']['stderr']:
                    mism.append({'case': c, 'what': 'implementation reports a namespace-file/type-file clash, model does not'})
            continue
        stats['successful'] += 1
        # ---- the property on the implementation (falsifier / oracle) ----
        # paths are compared as the files they denote (real paths relative to the scratch tree): the output directory may be
        # spelled through a symbolic link and '..'
        real_out = r.get('real_outdir', 'out')
        pre_dirs = set(r.get('pre_dirs', []))

        def real_rel(p: str) -> str:
            return os.path.relpath(os.path.realpath(os.path.join(work, p)), work)
        created = set(md['real']['created_files'])
        stray = sorted(p for p in created if not p.startswith(real_out + '/'))
        listed_out = md['list_outputs']['listing']
        listed_real = set(md['list_outputs'].get('listing_real', listed_out))
        if md['list_outputs']['rc'] != 0:
            fail('real run succeeds but --list-outputs fails', stderr=md['list_outputs']['stderr'])
        elif listed_real != created:
            fail('--list-outputs differs from the files the real run created', listed_only=sorted(listed_real - created),
                 created_only=sorted(created - listed_real))
        touched = [p for p in md['real']['touched_existing'] if not (real_out + '/').startswith(p + '/')]
        if stray or touched:
            fail('real run wrote outside the output directory', stray=stray, touched=touched)
        if set(md['over_existing']['listing']) != set(listed_out):
            fail('--list-outputs changes when the output tree exists')
        exp_dirs = set()
        for p in created:
            parts = p.split('/')
            for k in range(1, len(parts)):
                exp_dirs.add('/'.join(parts[:k]))
        exp_dirs -= pre_dirs
        if set(md['real']['created_dirs']) != exp_dirs:
            fail('directories created by the real run are not exactly the parents of the created files',
                 dirs=md['real']['created_dirs'], expected=sorted(exp_dirs))
        rr0 = md.get('rerun')
        if rr0 is not None and rr0['files_changed']:
            fail('a second real run changed the set of files', rerun=rr0)
        if rr0 is not None and rr0['rc'] != 0 and not c.get('now'):
            fail('a second real run over existing output fails without --no-overwrite', rerun=rr0)
        lcm = md.get('list_configuration')
        if lcm is not None:
            stats['list_configuration_runs'] += 1
            if lcm['fs_diff'] or any(x != 0 for x in lcm['rc']):
                fail('--list-configuration changed the file system or failed', lc=lcm)
        if md['dry_run']['rc'] != 0 or md['list_inputs']['rc'] != 0:
            fail('real run succeeds but dry-run/list-inputs fails', rcs=rcs)
        ns_stem = c['stem'] or {'c': '_namespace_', 'cpp': '_namespace_', 'py': '__init__', 'html': 'index'}[c['lang']]
        stats['ns_files_listed'] += any(os.path.basename(p).split('.')[0] == ns_stem for p in listed_out)
        stats['support_files_listed'] += any('support' in p for p in listed_out)
        # influence: measured on the implementation
        tr = r.get('trace') or {}
        listed_in = set(md['list_inputs']['listing'])
        if tr.get('loaded') is None or tr.get('error'):
            mism.append({'case': c, 'what': 'trace run failed', 'trace': tr})
            continue
        measured = set(fn for _, fn in tr['loaded']['types'] if fn) | set(fn for _, fn in tr['loaded']['support'] if fn)
        if c['mode'] != 'only':
            measured |= set(tr['closure'])
        stats['influential_inputs_checked'] += len(measured)
        missing = sorted(measured - listed_in)
        for x in missing:
            cat = category(x, work, root_dir, comp)
            explained = (cat in live and live[cat] and chk.is_known(cat)
                         and (m is None or (x in m['influence'] and x not in m['li']))
                         and (m is None or {'F-LIST-INPUTS-LOOKUP': m['trig_lookup'], 'F-LIST-INPUTS-NONJ2': m['trig_nonj2'],
                                            'F-LIST-INPUTS-SUPTPL': m['trig_sup'],
                                            'F-LIST-INPUTS-CONSTREF': m['trig_constref'] and not m['fix_constref'],
                                            'F-LIST-INPUTS-PYRES': m['eff_trig_tpl'] and not m['fix_pyres'],
                                            'F-LIST-INPUTS-SYMLINKDIR': m['eff_trig_tpl'] and not m['fix_linkdir'],
                                            'F-LIST-INPUTS-SUPREFS': m['trig_sup_refs']}[cat]))
            if explained:
                stats['known_finding_instances'] += 1
            else:
                fail('--list-inputs does not name an input that influences the output', missing=x, category=cat)
        for pr in r.get('probes', []):
            stats['probes'] += 1
            if pr['rc'] != 0:
                mism.append({'case': c, 'what': 'probe run failed', 'probe': pr})
                continue
            if pr['n_changed'] > 0:
                stats['probes_changed'] += 1
                if pr['path'] not in listed_in:
                    cat = category(pr['path'], work, root_dir, comp)
                    if cat == 'config':
                        stats['config_inputs_influential_and_unlisted'] += 1
                    elif cat in live and live[cat] and chk.is_known(cat) and pr['path'] in measured:
                        stats['probes_unlisted_changed_known'] += 1
                    else:
                        fail('editing an input that --list-inputs does not name changed the generated output', probe=pr, category=cat)
                if pr['path'] not in measured and category(pr['path'], work, root_dir, comp) != 'config':
                    mism.append({'case': c, 'what': 'an edited input changed the output but is not in the measured influence set', 'probe': pr})
                if m is not None and pr['path'] not in m['influence'] and category(pr['path'], work, root_dir, comp) != 'config':
                    mism.append({'case': c, 'what': 'an edited input changed the output but is not in the influence set the model derives',
                                 'probe': pr})
        # ---- model vs. implementation ----
        if m is not None:
            stats['model_compared'] += 1
            if m['r_real'] != 0 or m['r_lo'] != 0 or m['r_li'] != 0 or m['r_dry'] != 0:
                mism.append({'case': c, 'what': 'model run fails, implementation succeeds', 'model': [m['r_real'], m['r_lo'], m['r_li'], m['r_dry']]})
                continue
            if set(m['lo']) != set(listed_out) or set(real_rel(p) for p in m['created']) != created:
                mism.append({'case': c, 'what': 'output listing / created files: model vs implementation',
                             'model_only': sorted((set(m['lo']) | set(m['created'])) - set(listed_out) - created),
                             'impl_only': sorted((set(listed_out) | created) - set(m['lo']) - set(m['created']))})
            # a finding that no longer reproduces although the translator does not recognise its repair: the quirk model is off
            quirk_off = ((m['trig_lookup'] and not m['fix_lookup'] and not live.get('F-LIST-INPUTS-LOOKUP', True))
                         or (m['trig_constref'] and not m['fix_constref'] and not live.get('F-LIST-INPUTS-CONSTREF', True))
                         or (m['trig_nonj2'] and not m['fix_nonj2'] and not live.get('F-LIST-INPUTS-NONJ2', True))
                         or (m['trig_sup'] and not m['fix_suptpl'] and not live.get('F-LIST-INPUTS-SUPTPL', True)))
            if not quirk_off and set(m['li']) != listed_in:
                mism.append({'case': c, 'what': 'input listing: model vs implementation', 'model_only': sorted(set(m['li']) - listed_in),
                             'impl_only': sorted(listed_in - set(m['li']))})
            # the model DERIVES the influence set (reference closure of the selectable class templates): it must cover what the
            # implementation is observed to load and depend on
            if not measured <= set(m['influence']):
                mism.append({'case': c, 'what': 'influence set: the derived closure misses measured inputs',
                             'impl_only': sorted(measured - set(m['influence']))})
            stats['derived_influence_total'] += len(set(m['influence']))
            stats['derived_influence_not_observed'] += len(set(m['influence']) - measured)
            if set(real_rel(p) for p in m['dirs']) - pre_dirs != set(md['real']['created_dirs']):
                mism.append({'case': c, 'what': 'created directories: model vs implementation', 'model': m['dirs'], 'impl': md['real']['created_dirs']})
            rr = md.get('rerun')
            if rr is not None:
                if (m['r_rerun'] == 0) != (rr['rc'] == 0):
                    mism.append({'case': c, 'what': 'second real run over existing output: model vs implementation', 'model': m['r_rerun'], 'impl': rr})
                stats['rerun_refused_no_overwrite'] += rr['rc'] != 0
            if not m['consistent']:
                mism.append({'case': c, 'what': 'packaged support resources are not found by the package support loader (support_consistent)'})
            key = (c['lang'], c['mode'], c['omit'], c['ns_types'] or c['lang'] in ('py', 'html'), bool(c['tpl']), bool(c['sup']),
                   c['ext'] is not None, c['stem'] is not None, m['trig_lookup'], len(set(listed_out)))
            if len(set(listed_out)) > 0:
                distinct.add(key)

    chk.coverage.update({
        'evaluations': len(cases) * 6, 'distinct_nontrivial': len(distinct),
        'rule': 'each case = one random DSDL namespace set (1-5 types of four kinds in nested namespaces incl. empty intermediate ones, '
                'optional lookup namespace with transitive dependencies) x language x --generate-support mode x omit flag x namespace '
                'types x custom --templates (copy / +Any.j2 / +unused and non-template files) x --support-templates (unrelated / shadowing) x '
                'extension and namespace-stem overrides, run through list-outputs, list-inputs, dry-run, real run, a get_source trace run '
                'and up to two input edits; distinct non-trivial = distinct (language, mode, omit, effective namespace types, custom dirs, '
                'overrides, lookup trigger, number of listed files) among successful runs that list at least one file and were compared '
                'with the model',
        'samples': samples, 'traces_validated_against_impl': stats['model_compared'], 'distribution': stats,
        'known_findings_live': live,
        'list_inputs_repairs_recognised_in_tree': ({k: model[0][k] for k in ('fix_lookup', 'fix_constref', 'fix_nonj2', 'fix_suptpl')}
                                                   if model and model[0] else None),
    })

    if bad:
        b = bad[0]
        small = dict(b)
        small['case'] = shrink_case(b['case'], b['what'], chk) if not replay else b['case']
        small['n_failing'] = len(bad)
        small['all'] = [x['what'] for x in bad[:10]]
        small['broken'] = broken
        chk.violation(small, found_input=True)
    elif mism:
        d = dict(mism[0])
        d.update({'correspondence': 'Gen/Listing.v run/report vs nnvg', 'n_disagreements': len(mism), 'all': [x['what'] for x in mism[:10]],
                  'broken': broken, 'what_kind': 'model and implementation disagree but no input violating the property was found'})
        chk.violation(d, found_input=False)
    elif broken:
        chk.violation({'broken': broken, 'coq_error': res.error_text[-2000:], 'translators': res.translator_msgs,
                       'what': 'proof obligation or model no longer checks; searched %d cases on the implementation with the property oracle'
                               % len(cases)}, found_input=False)
    shutil.rmtree(scratch, ignore_errors=True)
    return chk.finish()


def shrink_case(case: dict, what: str, chk: core.Check) -> dict:
    """greedy: drop types / custom dirs / overrides while the same failure message persists"""
    def failing(c: dict) -> bool:
        sc = core.scratch('nnvverif-c08s-')
        try:
            r = run_case(job_of(c, os.path.join(sc, 'w'), chk.rng))
            if 'error' in r:
                return False
            md = r['modes']
            if 'changed the file system' in what:
                return any(md[x]['fs_diff'] for x in ('list_outputs', 'list_inputs', 'dry_run', 'over_existing'))
            if 'list-outputs' in what:
                created = set(md['real']['created_files'])
                return md['real']['rc'] == 0 and (md['list_outputs']['rc'] != 0 or set(md['list_outputs']['listing']) != created)
            return False
        finally:
            for dirpath, dirnames, filenames in os.walk(sc):
                for n in dirnames + filenames:
                    try:
                        os.chmod(os.path.join(dirpath, n), 0o700)
                    except OSError:
                        pass
            shutil.rmtree(sc, ignore_errors=True)
    cur = dict(case)
    cur['probes'] = []
    if not failing(cur):
        return case
    for key, val in (('tpl', None), ('sup', None), ('ext', None), ('stem', None), ('lookups', [])):
        cand = dict(cur)
        cand[key] = val
        if key == 'lookups':
            cand['roots'] = [dict(t, dep_types=[d for d in t['dep_types'] if d in cur['roots']]) for t in cur['roots']]
        if failing(cand):
            cur = cand
    changed = True
    while changed and len(cur['roots']) > 1:
        changed = False
        for k in range(len(cur['roots']) - 1, -1, -1):
            victim = cur['roots'][k]
            rest = [dict(t, dep_types=[d for d in t['dep_types'] if d is not victim and d != victim]) for j, t in enumerate(cur['roots']) if j != k]
            cand = dict(cur, roots=rest)
            if rest and failing(cand):
                cur = cand
                changed = True
                break
    return cur
