"""C07: reproducible output -- a pure function of inputs, options and tool version."""
from __future__ import annotations

import json
import os
import re
import shutil
import typing

from tools.lib import core

PROP = 'C07'
FID = 'F-PY-PICKLEPATH'
FID_STATE = 'F-PY-PICKLESTATE'
FID_LOCALE = 'F-DSDL-LOCALE-DECODE'
FID_SITE = 'F-PY-BUILTINS-SITE'
SITE_NAMES = ('copyright', 'credits', 'exit', 'help', 'license', 'quit')
FRAGMENT = os.path.join(core.VERIF, 'known_findings.d', 'C07.json')

MANIFEST = dict(
    technique='Coq proof (non-interference over an environment record with a permutation oracle at every hash-ordered '
              'iteration) about a hand model of the generator pipeline, parameterised by tables of ambient-use sites and '
              'source facts that a translator regenerates from /repo; paired real nnvg runs for correspondence',
    text='Theorems in coq/theories/Properties/C07.v: sorted() is canonical under permutation; namespace-tree children and the '
         'multiset of generated items do not depend on set iteration order; every use of now_utc / absolute source path / '
         'platform data in the built-in templates of c, cpp, py, html is gated by nunavut.embed_auditing_info and every set '
         'iteration / ambient read in the Python sources is accounted for (vm_compute over tables regenerated from /repo); '
         'hence for every template body, option set with auditing off, input and pair of environments (clock, hash order, cwd, '
         'absolute location) the C, C++ and HTML outputs are identical file by file; for Python the same holds when the '
         'absolute location is equal (full statement refuted by witness: known finding F-PY-PICKLEPATH). Tie: the tables are '
         're-extracted on every run (un-gating a timestamp or dropping a sorted() breaks a proof; the inventories of set iterations, '
         'ambient reads, path orderings, keyed sorts, template functions and included files are consulted by the model run, so an '
         'unaccounted row breaks the main theorem) and real nnvg runs that '
         'differ in PYTHONHASHSEED, wall clock, a patched clock, cwd (absolute arguments, and a directory inside the project with every relative argument re-spelled, incl. two --configuration files), absolute location, and a reused output directory are compared by sha256 with the '
         'model\'s predicted equal/unequal relation, path sets and include lists.',
    note='Trusted: Coq kernel; tools/translators/gen_c07.py (Jinja block scanner incl. include closure, Python ast scans); the named '
         'premise render_sees_only_body_view (the template body looks at the environment only through the audit view and the '
         'unaccounted inventory rows; backed by the scan of every registered filter/test/uses-query) -- ambient reads inside the vendored Jinja2 or pydsdl '
         'are visible only through the paired runs; the hand model of build_namespace_tree / IncludeGenerator is validated, not '
         'verified. Not covered: user templates; generator state leaking between files (C10, F-LEL-LEAK) under a changed '
         'generation order; Python version as part of "tool version".',
    design='§5 C07')

LANG = {
    'c': dict(coq='LC', ext='.h', stem='_', gen_ns=False, sys=True, base=[], sup='nunavut/support/serialization.h'),
    'cpp': dict(coq='LCpp', ext='.hpp', stem='_', gen_ns=False, sys=False, base=['--experimental-languages'], sup='nunavut/support/serialization.hpp'),
    'py': dict(coq='LPy', ext='.py', stem='__init__', gen_ns=True, sys=False, base=[], sup=None),
    'html': dict(coq='LHtml', ext='.html', stem='index', gen_ns=True, sys=False, base=['--experimental-languages'], sup=None),
}
OPTION_SETS = {
    'c': [[], ['--omit-serialization-support'], ['--target-endianness', 'big', '--enable-override-variable-array-capacity']],
    'cpp': [[], ['--language-standard', 'c++17-pmr'], ['--omit-serialization-support']],
    'py': [[], ['--omit-serialization-support']],
    'html': [[]],
}
FIVE_YEARS = 157766400


# ---- random DSDL namespaces ---------------------------------------------------------------------------------------------
ROOTS = ['nsa', 'zoo', 'regx', 'acme', 'm1']
SUBS = ['help', 'sub', 'top', 'inner', 'aa', 'zz', 'b2', 'mid', 'u7', 'u07', 'u007', 'x10', 'x010', 'Abc', 'abc']   # u7/u07...: tie under natural sort
TIE_PARTNER = {'u7': 'u07', 'u07': 'u007', 'u007': 'u7', 'x10': 'x010', 'x010': 'x10', 'Abc': 'abc', 'abc': 'Abc'}
SHORTS = ['T7', 'T07', 'V1x', 'V01x', 'Alpha', 'Beta', 'Gamma', 'Delta', 'Eps', 'Zeta', 'Eta', 'Theta', 'Iota', 'Kappa', 'A', 'Z9', 'Mu_x']
PRIMS = ['uint8', 'int16', 'float32', 'bool', 'uint7', 'float64', 'uint8[3]', 'int32[<=4]', 'bool[5]', 'float16']


def gen_namespace(rng, size: int) -> dict:
    root = rng.choice(ROOTS)
    nss = [[root]]
    for _ in range(rng.randrange(0, 4)):
        parent = rng.choice(nss)
        if len(parent) < 3:
            sibs = [x[-1] for x in nss if x[:-1] == parent and x[-1] in TIE_PARTNER]
            n = parent + [TIE_PARTNER[rng.choice(sibs)] if sibs and rng.random() < 0.5 else rng.choice(SUBS)]
            if n not in nss:
                nss.append(n)
    # lookup roots (found through --lookup-dir, not generated): up to three, each under its OWN parent directory, with chains
    # across roots through scalar fields, fixed / variable arrays and unions: gam (leaves) <- bet / dep <- the generated root
    lookup_types: typing.List[dict] = []
    if rng.random() < 0.8:
        leaves = []
        if rng.random() < 0.7:
            for i in range(rng.randrange(1, 3)):
                leaves.append(dict(ns=['gam'] if rng.random() < 0.6 else ['gam', 'deep'], short='G%d' % i, major=1, minor=rng.randrange(0, 3),
                                   kind='struct', fields=[('prim', rng.choice(PRIMS))], resp=[]))
        mids = []
        for i in range(rng.randrange(1, 4)):
            root2 = rng.choice(['dep', 'dep', 'bet'])
            ns2 = [root2] if rng.random() < 0.7 else [root2, 'far']
            fs = [('prim', 'uint8')]
            for _ in range(rng.randrange(0, 3)):
                if leaves and rng.random() < 0.8:
                    fs.append(('comp', rng.choice(leaves), rng.choice(['', '[2]', '[<=3]', '[<=2]'])))
                elif mids and rng.random() < 0.5:
                    fs.append(('comp', rng.choice(mids), rng.choice(['', '[<=2]'])))
            kind2 = 'union' if len(fs) >= 2 and rng.random() < 0.3 else 'struct'
            mids.append(dict(ns=ns2, short='D%d' % i, major=rng.randrange(0, 3), minor=rng.randrange(1, 3), kind=kind2, fields=fs, resp=[]))
        lookup_types = leaves + mids
    types: typing.List[dict] = []
    names = set()
    docs = rng.random() < 0.35          # non-ASCII documentation comments (locale finding): in a third of the namespaces
    for _ in range(size):
        ns = rng.choice(nss)
        short = rng.choice(SHORTS)
        major, minor = rng.randrange(0, 3), rng.randrange(0, 4)
        if (major, minor) == (0, 0):
            minor = 1
        if (tuple(ns), short.lower()) in names:
            continue
        names.add((tuple(ns), short.lower()))
        kind = rng.choice(['struct', 'struct', 'union', 'service', 'delimited'])
        pool = types + lookup_types

        def fields(lo: int, prefix_ok: bool = True) -> list:
            fs = []
            for _ in range(rng.randrange(lo, lo + 4)):
                if pool and rng.random() < 0.55:
                    t = rng.choice(pool)
                    if t['kind'] == 'service':
                        fs.append(('prim', rng.choice(PRIMS)))
                        continue
                    fs.append(('comp', t, rng.choice(['', '', '[2]', '[<=2]'])))
                else:
                    fs.append(('prim', rng.choice(PRIMS)))
            if prefix_ok and rng.random() < 0.15:
                fs.append(('prim', 'uint8', rng.choice(['exit', 'quit', 'license', 'credits', 'copyright'])))
            return fs
        t = dict(ns=ns, short=short, major=major, minor=minor, kind=kind, doc=docs and rng.random() < 0.6, fields=fields(2 if kind == 'union' else 0),
                 resp=fields(0, False) if kind == 'service' else [])
        types.append(t)
    if not types:
        types.append(dict(ns=[root], short='Only', major=1, minor=0, kind='struct', fields=[('prim', 'uint8')], resp=[]))
    return dict(root=root, types=types, lookup=lookup_types)


def tname(t: dict) -> str:
    return '%s.%s.%d.%d' % ('.'.join(t['ns']), t['short'], t['major'], t['minor'])


def render_fields(fs: list, prefix: str) -> typing.List[str]:
    out = []
    for i, f in enumerate(fs):
        if f[0] == 'prim' and len(f) > 2:            # a field with a given name (names `site` puts into builtins)
            out.append('%s %s' % (f[1], f[2]))
            continue
        if f[0] == 'prim':
            ty = f[1]
            m = re.match(r'^(\w+)(\[.*\])$', ty)
            out.append('%s %s%d' % (ty, prefix, i) if not m else '%s%s %s%d' % (m.group(1), m.group(2), prefix, i))
        else:
            out.append('%s%s %s%d' % (tname(f[1]), f[2], prefix, i))
    return out


def render_type(t: dict) -> str:
    lines = []
    if t.get('doc'):
        lines.append('# Gr\u00f6\u00dfe \u00b5 \u2014 \u2603 ' + t['short'])       # non-ASCII documentation comment (ends up in the output)
    if t['kind'] == 'union':
        lines.append('@union')
    lines += render_fields(t['fields'], 'f')
    lines.append('@extent 65536 * 8' if t['kind'] == 'delimited' else '@sealed')
    if t['kind'] == 'service':
        lines.append('---')
        lines += render_fields(t['resp'], 'r')
        lines.append('@sealed')
    return '\n'.join(lines) + '\n'


def relpath(t: dict) -> str:
    return '/'.join(t['ns'] + ['%s.%d.%d.dsdl' % (t['short'], t['major'], t['minor'])])


def deps_of(t: dict) -> typing.List[dict]:
    return [f[1] for f in t['fields'] + t['resp'] if f[0] == 'comp']


def case_files(ns: dict) -> typing.Tuple[dict, dict]:
    return ({relpath(t): render_type(t) for t in ns['types']}, {relpath(t): render_type(t) for t in ns['lookup']})


# ---- runs ---------------------------------------------------------------------------------------------------------------
ENV_EXTRA = {'LANG': 'C', 'LC_ALL': 'C', 'LC_CTYPE': 'C', 'LANGUAGE': 'de:fr', 'TZ': 'Pacific/Kiritimati', 'HOME': '/nonexistent-home',
             'USER': 'somebody', 'LOGNAME': 'somebody', 'COLUMNS': '37', 'LINES': '9', 'PYTHONIOENCODING': 'latin-1', 'PYTHONUTF8': '0',
             'PYTHONCOERCECLOCALE': '0', 'TMPDIR': '$CDIR/tmpx', 'TERM': 'dumb', 'NO_COLOR': '1', 'SOURCE_DATE_EPOCH': '86400',
             'NUNAVUT_BANNER': 'hello', 'DSDL_INCLUDE_PATH': None}


def runs_audit_off() -> typing.List[dict]:
    return [
        dict(name='R0', hashseed='0', loc='A', cwd='loc', paths='rel', wave=0, want_includes=True),
        dict(name='Rh1', hashseed='1', loc='A', cwd='loc', paths='rel', wave=1),
        dict(name='Rh2', hashseed='2', loc='A', cwd='loc', paths='rel', wave=1),
        dict(name='Rhr', hashseed='random', loc='A', cwd='loc', paths='rel', wave=1),
        dict(name='Rclk', hashseed='0', loc='A', cwd='loc', paths='rel', wave=1, fake_offset=FIVE_YEARS),
        dict(name='Rcwd', hashseed='0', loc='A', cwd='other', paths='abs', wave=1),
        dict(name='Rloc', hashseed='0', loc='B', cwd='loc', paths='rel', wave=1),
        dict(name='Rall', hashseed='random', loc='B', cwd='other', paths='abs', wave=1, fake_offset=FIVE_YEARS),
        # working directory inside the project: every relative path on the command line is spelled differently
        dict(name='Rsub', hashseed='0', loc='A', cwd='sub:m', paths='rel', wave=1),
        # environment variables and locale: everything a process inherits besides PYTHONHASHSEED
        dict(name='Renv', hashseed='0', loc='A', cwd='loc', paths='rel', wave=1, env_extra=ENV_EXTRA),
        # another way of starting the interpreter: no `site` module (as in a frozen nnvg): builtins lack help/exit/quit/...
        dict(name='Rsite', hashseed='0', loc='A', cwd='loc', paths='rel', wave=1, py_flags=['-S']),
        # outputs at another absolute location, inputs unmoved
        dict(name='Rout', hashseed='0', loc='A', cwd='loc', paths='abs', wave=1, out='alt'),
        # another file system (tmpfs: readdir order = reverse creation order) with the input tree created in reverse order
        dict(name='Rfs', hashseed='0', loc='T', cwd='loc', paths='rel', wave=1, tree='rev'),
        # output directory used before by a run with another option set (pre_args filled in by mk_case)
        dict(name='Rreuse', hashseed='0', loc='A', cwd='loc', paths='rel', wave=1, pre_args=[]),
    ]


CONFIG_FILES = {
    'x/site.yaml': 'nunavut.lang.c:\n  options:\n    target_endianness: big\nnunavut.lang.cpp:\n  options:\n    target_endianness: big\n',
    'm/board.yaml': 'nunavut.lang.c:\n  options:\n    target_endianness: little\nnunavut.lang.cpp:\n  options:\n    target_endianness: little\n',
}
CONFIG_ORDER = ['x/site.yaml', 'm/board.yaml']     # sorted by spelling: from the root m/.. < x/.., from m/: ../x/.. < board.yaml
CONFIG_VAL = {'x/site.yaml': 2, 'm/board.yaml': 1}


def alt_args(lang: str, args: typing.List[str]) -> typing.List[str]:
    """another option set for the run that used the output directory before"""
    a = list(LANG[lang]['base'])
    big = '--target-endianness' in args and args[args.index('--target-endianness') + 1] == 'big'
    a += ['--target-endianness', 'little' if big else 'big', '--enable-serialization-asserts']
    if '--omit-serialization-support' not in args and lang in ('c', 'cpp'):
        a += ['--omit-float-serialization-support']
    return a


def runs_audit_on() -> typing.List[dict]:
    fz = 1000000000
    return [
        dict(name='R0', hashseed='0', loc='A', cwd='loc', paths='rel', wave=0, fake_frozen=fz, want_includes=True),
        dict(name='Rfz', hashseed='1', loc='A', cwd='other', paths='abs', wave=1, fake_frozen=fz),
        dict(name='Rclk', hashseed='0', loc='A', cwd='loc', paths='rel', wave=1, fake_offset=FIVE_YEARS),
        dict(name='Rloc', hashseed='0', loc='B', cwd='loc', paths='rel', wave=1, fake_frozen=fz),
        dict(name='Rnow', hashseed='2', loc='A', cwd='loc', paths='rel', wave=1),
    ]


LOOKUP_PLACE = {'dep': 'in2', 'bet': 'third_party/b', 'gam': 'vendor/pkgs/g'}     # parent directory of each lookup root, relative to
#                                                                                 the location; location B nests them differently


def _mk_case(cid: str, lang: str, args: typing.List[str], ns: dict, audit: bool, user_templates: typing.Optional[str] = None,
            configs: bool = False) -> dict:
    dsdl, lookup = case_files(ns)
    a = LANG[lang]['base'] + list(args) + (['--embed-auditing-info'] if audit else [])
    return dict(id=cid, lang=lang, args=a, dsdl=dsdl, lookup=lookup, root=ns['root'],
                lookup_roots=sorted({t['ns'][0] for t in ns['lookup']}), lookup_place=dict(LOOKUP_PLACE), runs=runs_audit_on() if audit else runs_audit_off(),
                audit=audit, ns=ns, opt=args, user_templates=user_templates,
                config_files=dict(CONFIG_FILES) if configs else {}, config_order=list(CONFIG_ORDER) if configs else [])


def mk_case(*a, **k) -> dict:
    return _fill_pre_args(_mk_case(*a, **k))


def _fill_pre_args(case: dict) -> dict:
    for r in case['runs']:
        if r.get('pre_args') is not None:
            r['pre_args'] = alt_args(case['lang'], case['args'])
    return case


_D0 = dict(ns=['dep', 'far'], short='D0', major=0, minor=1, kind='struct', fields=[('prim', 'uint8')], resp=[])
_D1 = dict(ns=['dep', 'far'], short='D1', major=2, minor=2, kind='struct', fields=[('prim', 'uint8')], resp=[])
WITNESS_STATE_NS = dict(root='acme', lookup=[_D0, _D1], types=[
    dict(ns=['acme', 'inner'], short='Gamma', major=2, minor=2, kind='union',
         fields=[('prim', 'uint8'), ('comp', _D0, ''), ('comp', _D1, ''), ('prim', 'uint7')], resp=[]),
    dict(ns=['acme', 'zz'], short='Eta', major=1, minor=1, kind='struct',
         fields=[('prim', 'bool'), ('comp', _D0, ''), ('prim', 'int16')], resp=[])])


def state_trigger(case: dict, rel: str, run: dict) -> bool:
    """trigger of F-PY-PICKLESTATE for one (file, run) pair"""
    if not is_py_type_file(case, rel) or run['hashseed'] == case['runs'][0]['hashseed']:
        return False
    ns = case['ns']
    if len({tuple(t['ns']) for t in ns['types']}) < 2:
        return False
    for t in ns['types']:
        if '/'.join(t['ns'] + ['%s_%d_%d.py' % (t['short'], t['major'], t['minor'])]) == rel:
            return bool(deps_of(t))
    return False


def _t(ns, short, fields=None):
    return dict(ns=ns, short=short, major=1, minor=0, kind='struct', fields=fields or [('prim', 'uint8')], resp=[])


WITNESS_NATSORT_NS = dict(root='nat', lookup=[], types=[
    _t(['nat', 'unit7'], 'T7'), _t(['nat', 'unit07'], 'T07'), _t(['nat', 'unit007'], 'T007'), _t(['nat', 'x10'], 'A'),
    _t(['nat', 'x010'], 'A'), _t(['nat', 'unit7'], 'T07'), _t(['nat'], 'V1'), _t(['nat'], 'V01'),
    _t(['nat', 'Abc'], 'P'), _t(['nat', 'abc'], 'Q')])

# three roots under three different parent directories; the generated root reaches the third only through ARRAY elements, unions
# and a service half of types of the second (seed C07j: the Python pickle relativises against the roots it finds by walking)
_G = dict(ns=['gam'], short='Atom', major=1, minor=0, kind='struct', fields=[('prim', 'uint8')], resp=[])
_G2 = dict(ns=['gam', 'deep'], short='Quark', major=1, minor=0, kind='struct', fields=[('prim', 'float32')], resp=[])
_B = dict(ns=['bet'], short='Leaf', major=1, minor=0, kind='struct', fields=[('comp', _G, ''), ('comp', _G2, '[<=2]')], resp=[])
_BU = dict(ns=['bet', 'far'], short='Pick', major=1, minor=0, kind='union', fields=[('comp', _G2, ''), ('prim', 'uint8')], resp=[])
WITNESS_ROOTS3_NS = dict(root='alpha', lookup=[_G, _G2, _B, _BU], types=[
    dict(ns=['alpha'], short='Holder', major=1, minor=0, kind='struct', fields=[('comp', _B, '[<=3]'), ('prim', 'uint8')], resp=[]),
    dict(ns=['alpha'], short='Fixed', major=1, minor=0, kind='struct', fields=[('comp', _BU, '[2]')], resp=[]),
    dict(ns=['alpha'], short='Choice', major=1, minor=0, kind='union', fields=[('comp', _B, '[<=2]'), ('prim', 'uint16')], resp=[]),
    dict(ns=['alpha'], short='Plain', major=1, minor=0, kind='struct', fields=[('comp', _B, '')], resp=[]),
    dict(ns=['alpha', 'nested'], short='Get', major=1, minor=0, kind='service', fields=[('prim', 'uint8')], resp=[('comp', _BU, '[<=2]')])])

WITNESS_SITE_NS = dict(root='ns', lookup=[], types=[
    dict(ns=['ns', 'help'], short='A', major=1, minor=0, kind='struct', fields=[('prim', 'uint8', 'exit'), ('prim', 'uint8')], resp=[])])


def site_trigger(case: dict, run: dict) -> bool:
    """trigger of F-PY-BUILTINS-SITE: Python target, interpreter started without `site`, and a namespace component or field is named
    like one of the six builtins `site` adds"""
    if case['lang'] != 'py' or '-S' not in (run.get('py_flags') or []):
        return False
    words = set()
    for rel, text in case['dsdl'].items():
        words.update(rel.split('/')[:-1])
        words.update(re.findall(r'\b[a-z_]+\b', text))
    return bool(words & set(SITE_NAMES))


WITNESS_LOCALE_NS = dict(root='ns', lookup=[], types=[
    dict(ns=['ns'], short='A', major=1, minor=0, kind='struct', doc=True, fields=[('prim', 'uint8')], resp=[])])


def locale_trigger(case: dict, run: dict) -> bool:
    """trigger of F-DSDL-LOCALE-DECODE: the run changes the locale's text encoding and some DSDL file has a non-ASCII byte"""
    if not (run.get('env_extra') or {}).get('LC_ALL'):
        return False
    return any(ord(ch) > 127 for text in list(case['dsdl'].values()) + list(case.get('lookup', {}).values()) for ch in text)


WITNESS_NS = dict(root='ns', lookup=[], types=[
    dict(ns=['ns'], short='A', major=1, minor=0, kind='struct', fields=[('prim', 'uint8')], resp=[])])


def run_impl(cases: typing.List[dict], jobs: int = 6) -> typing.Dict[str, dict]:
    base = core.scratch('c07-')
    doc = {'base': base, 'jobs': jobs,
           'cases': [{k: c[k] for k in ('id', 'lang', 'args', 'dsdl', 'lookup', 'root', 'lookup_roots', 'lookup_place', 'runs', 'user_templates', 'config_files', 'config_order') if k in c} for c in cases]}
    p = core.run([core.PY, os.path.join(core.VERIF, 'tools', 'harness', 'c07_impl.py')], input=json.dumps(doc),
                 env=core.repo_env(), timeout=3000)
    shutil.rmtree(base, ignore_errors=True)
    try:
        out = json.loads(p.stdout[p.stdout.index('{"out"'):])['out']
    except Exception:
        return {c['id']: {'id': c['id'], 'runs': {}, 'harness_error': p.stdout[-600:]} for c in cases}
    return {o['id']: o for o in out}


def tree_fingerprint() -> str:
    """size+mtime of every file of the generator: the paired runs of one case must all see the same generator"""
    import hashlib
    h = hashlib.sha1()
    base = os.path.join(core.REPO, 'src', 'nunavut')
    for root, dirs, names in os.walk(base):
        dirs[:] = sorted(d for d in dirs if d != '__pycache__')
        for n in sorted(names):
            if n.endswith('.pyc'):
                continue
            st = os.stat(os.path.join(root, n))
            h.update(('%s %d %d\n' % (os.path.join(root, n), st.st_size, st.st_mtime_ns)).encode())
    return h.hexdigest()


def run_impl_stable(chk: core.Check, cases: typing.List[dict]) -> typing.Dict[str, dict]:
    """/repo may receive a commit while the runs are in flight (it did, once): a pair would then compare two generators.
    Re-run when the tree changed underneath."""
    for attempt in range(3):
        before = tree_fingerprint()
        res = run_impl(cases)
        if tree_fingerprint() == before:
            return res
        chk.notes.append('generator tree changed during the runs (attempt %d): runs repeated' % (attempt + 1))
    return res


# ---- the property as an executable oracle --------------------------------------------------------------------------------
def is_py_type_file(case: dict, rel: str) -> bool:
    return case['lang'] == 'py' and rel.split('/')[0] == case['root'] and not rel.endswith('/__init__.py')


def oracle_diffs(case: dict, res: dict) -> typing.List[dict]:
    """audit off: every run must give the same relative paths with the same bytes as R0"""
    out = []
    runs = res.get('runs', {})
    r0 = runs.get('R0')
    if r0 is None:
        return [dict(run='R0', what='harness failure', log=res.get('harness_error', ''))]
    if r0['rc'] != 0:
        return []          # the generated namespace is not valid DSDL (counted as invalid_inputs): not an input of the property
    for r in case['runs'][1:]:
        ri = runs.get(r['name'])
        if ri is None or ri['rc'] != 0:
            out.append(dict(run=r['name'], what='run failed', log=(ri or {}).get('log', ''), locale_trigger=locale_trigger(case, r)))
            continue
        if r.get('pre_args') is not None:
            ri = dict(ri, files={f: h for f, h in ri['files'].items() if f in r0['files']})   # leftovers of the earlier run: C12's business
        if set(ri['files']) != set(r0['files']):
            out.append(dict(run=r['name'], what='path set differs', only_base=sorted(set(r0['files']) - set(ri['files'])),
                            only_run=sorted(set(ri['files']) - set(r0['files']))))
        for rel in sorted(set(ri['files']) & set(r0['files'])):
            if ri['files'][rel] != r0['files'][rel]:
                out.append(dict(run=r['name'], what='bytes differ', file=rel, loc_differs=r['loc'] != 'A', locale_trigger=locale_trigger(case, r),
                                state_trigger=state_trigger(case, rel, r) if 'ns' in case else False))
    return out


# ---- model side: cases.v -----------------------------------------------------------------------------------------------------
def cs(s: str) -> str:
    return '[' + '; '.join(str(ord(ch)) for ch in s) + ']'


def cpath(comps: typing.Sequence[str]) -> str:
    return '[' + '; '.join(cs(x) for x in comps) + ']'


STROP_PY = False      # set per case by coq_case: the Python target strops namespace components named like a builtin (help -> help_)


def ckey(t: dict) -> str:
    ns = [x + '_' if STROP_PY and x in SITE_NAMES else x for x in t['ns']]
    return '{| k_ns := %s; k_short := %s; k_major := %d; k_minor := %d |}' % (cpath(ns), cs(t['short']), t['major'], t['minor'])


def cbool(b: bool) -> str:
    return 'true' if b else 'false'


def model_paths(case: dict) -> typing.Tuple[typing.List[str], typing.List[str]]:
    """(expected type include paths by file, support files) helpers"""
    return [], []


def coq_case(i: int, case: dict, res: dict, pickle_live: bool, state_live: bool = False) -> typing.Tuple[str, typing.List[str]]:
    global STROP_PY
    STROP_PY = case['lang'] == 'py'
    L = LANG[case['lang']]
    ns = case['ns']
    r0 = res['runs']['R0']
    omit = '--omit-serialization-support' in case['args']
    types = sorted(ns['types'], key=tname)
    support_files = sorted(f for f in r0['files'] if f.split('/')[0] != ns['root'])
    sup_inc = [] if (omit or not L['sup']) else [L['sup']]

    def q(p: str) -> str:
        return '<%s>' % p if L['sys'] else '"%s"' % p
    decls = []
    for t in types:
        fpath = '/'.join(t['ns'] + ['%s_%d_%d%s' % (t['short'], t['major'], t['minor'], L['ext'])])
        real_inc = r0['includes'].get(fpath, [])
        dep_incs = {q('/'.join(d['ns'] + ['%s_%d_%d%s' % (d['short'], d['major'], d['minor'], L['ext'])])) for d in deps_of(t)}
        std = [x for x in real_inc if x not in dep_incs and x not in {q(s) for s in sup_inc}]
        decls.append('{| d_key := %s; d_deps := [%s]; d_std := %s; d_src := %s |}' % (
            ckey(t), '; '.join(ckey(d) for d in deps_of(t)), cpath(std), cpath(relpath(t).split('/'))))
    lines = ['Definition I_%d : list tydecl := [\n  %s ].' % (i, ';\n  '.join(decls))]
    lines.append('Definition c_%d : cfg := {| c_lang := %s; c_ext := %s; c_stem := %s; c_gen_ns := %s; c_embed_audit := %s; '
                 'c_omit_ser := %s; c_prefer_sys := %s; c_support_incs := %s; c_support_files := [%s]; c_user_templates := %s; '
                 'c_config_files := [%s] |}.' % (
                     i, L['coq'], cs(L['ext']), cs(L['stem']), cbool(L['gen_ns']), cbool(case['audit']), cbool(omit), cbool(L['sys']),
                     cpath(sup_inc), '; '.join(cpath(f.split('/')) for f in support_files), cbool(bool(case.get('user_templates'))),
                     '; '.join('{| cf_path := %s; cf_val := Some %d |}' % (cpath(c.split('/')), CONFIG_VAL[c]) for c in case.get('config_order', []))))
    tbl = 'gen_sites' if (pickle_live or case['lang'] != 'py') else '(drop_pickle gen_sites)'

    def env_of(j: int, r: dict) -> str:
        if r.get('fake_frozen'):
            clock = 7
        elif r.get('fake_offset'):
            clock = 9000 + j
        else:
            clock = 1000 + j
        which = {'0': 0, '1': 1}.get(r['hashseed'], 2)
        abs_ = ['', 'scratch', r['loc'], 'in']
        cwd = abs_[:-1] if r['cwd'] == 'loc' else (abs_[:-1] + [r['cwd'][4:]] if r['cwd'].startswith('sub:') else ['', 'scratch', 'other'])
        out_ = (abs_[:-1] + ['out']) if r.get('out') != 'alt' else ['', 'scratch', 'outputs_moved', 'out']
        return '(mk_env_out %d %s %s %s %d)' % (clock, cpath(cwd), cpath(abs_), cpath(out_), which)
    checks, labels = [], []
    e0 = env_of(0, case['runs'][0])
    checks.append('paths_agree gen_src_facts %s c_%d I_%d %s %s' % (tbl, i, i, e0, cpath(sorted(r0['files']))))
    labels.append('paths')
    if case['lang'] in ('c', 'cpp'):
        real = '; '.join('(%s, %s)' % (cs(f), cpath(incs)) for f, incs in sorted(r0['includes'].items()) if f.split('/')[0] == ns['root'])
        checks.append('includes_agree gen_src_facts c_%d I_%d %s [%s]' % (i, i, e0, real))
        labels.append('includes')
    for j, r in enumerate(case['runs'][1:], 1):
        ri = res['runs'][r['name']]
        real = '; '.join('(%s, %s)' % (cs(f), cbool(ri['files'].get(f) == h)) for f, h in sorted(r0['files'].items()))
        skip = [f for f in sorted(r0['files']) if state_live and state_trigger(case, f, r)]
        checks.append('rel_agrees_except %s (predict gen_src_facts %s c_%d I_%d %s %s) [%s]' % (cpath(skip), tbl, i, i, e0, env_of(j, r), real))
        labels.append('rel:' + r['name'])
    lines.append('Definition r_%d : list bool := [\n  %s ].' % (i, ';\n  '.join(checks)))
    return '\n'.join(lines), labels


def run_model(cases: typing.List[dict], results: typing.Dict[str, dict], pickle_live: bool, state_live: bool = False) -> typing.Tuple[typing.Optional[typing.List[typing.List[bool]]], typing.List[typing.List[str]], str]:
    d = core.scratch('c07-coq-')
    parts = ['From Coq Require Import List NArith.', 'From Verif Require Import Str Repro Gen_Repro.', 'Import ListNotations.',
             'Open Scope N_scope.', '']
    all_labels = []
    for i, c in enumerate(cases):
        text, labels = coq_case(i, c, results[c['id']], pickle_live, state_live)
        parts.append(text)
        all_labels.append(labels)
    parts.append('Eval vm_compute in [%s].' % '; '.join('r_%d' % i for i in range(len(cases))))
    with open(os.path.join(d, 'cases.v'), 'w') as f:
        f.write('\n'.join(parts) + '\n')
    p = core.run(['coqc', '-Q', os.path.join(core.COQ, 'theories'), 'Verif', '-w', '-notation-overridden', 'cases.v'], cwd=d, timeout=900)
    shutil.rmtree(d, ignore_errors=True)
    if p.returncode != 0:
        return None, all_labels, p.stdout[-1500:]
    toks = re.findall(r'\b(true|false)\b', p.stdout[p.stdout.index('='):])
    out, k = [], 0
    for labels in all_labels:
        out.append([t == 'true' for t in toks[k:k + len(labels)]])
        k += len(labels)
    if k != len(toks):
        return None, all_labels, 'unexpected coqc output: ' + p.stdout[-600:]
    return out, all_labels, ''


# ---- shrinking -----------------------------------------------------------------------------------------------------------------
def shrink(case: dict, bad_run: str, still_fails) -> dict:
    ns = case['ns']
    cur = ns
    budget = 12
    changed = True
    while changed and budget > 0:
        changed = False
        for i in range(len(cur['types']) - 1, -1, -1):
            t = cur['types'][i]
            if any(t is d for u in cur['types'] for d in deps_of(u)):
                continue
            if len(cur['types']) == 1:
                break
            cand = dict(cur, types=cur['types'][:i] + cur['types'][i + 1:])
            budget -= 1
            if budget <= 0:
                break
            c2 = mk_case(case['id'] + '-s', case['lang'], case['opt'], cand, case['audit'], case.get('user_templates'), bool(case.get('config_order')))
            c2['runs'] = [r for r in c2['runs'] if r['name'] in ('R0', bad_run)]
            if still_fails(c2):
                cur = cand
                changed = True
                break
    out = mk_case(case['id'] + '-min', case['lang'], case['opt'], cur, case['audit'], case.get('user_templates'), bool(case.get('config_order')))
    out['runs'] = [r for r in out['runs'] if r['name'] in ('R0', bad_run)]
    return out


def strip(case: dict) -> dict:
    return {k: case[k] for k in ('id', 'lang', 'args', 'dsdl', 'lookup', 'root', 'lookup_roots', 'lookup_place', 'runs', 'audit', 'opt', 'ns', 'user_templates', 'config_files', 'config_order') if k in case}


# ---- main ----------------------------------------------------------------------------------------------------------------------
def load_fragment(chk: core.Check) -> None:
    """entries of known_findings.d/C07.json that the merged known_findings.json does not carry yet"""
    try:
        doc = json.load(open(FRAGMENT))
    except (OSError, ValueError):
        return
    # the fragment is authoritative for this property's findings (the merged file may lag behind a status change)
    mine = {e['id']: e for e in doc.get('findings', []) if PROP in e.get('properties', [])}
    chk.known[:] = [e for e in chk.known if e['id'] not in mine] + list(mine.values())


def build_cases(chk: core.Check) -> typing.List[dict]:
    rng = chk.rng
    n_ns = 4 if chk.tier == 'quick' else 30
    cases = [mk_case('w-py', 'py', [], WITNESS_NS, False)]
    cases[0]['runs'] = [r for r in cases[0]['runs'] if r['name'] in ('R0', 'Rloc', 'Rh1')]
    cases.append(mk_case('w-state', 'py', [], WITNESS_STATE_NS, False))
    cases[1]['runs'] = [r for r in cases[1]['runs'] if r['name'] in ('R0', 'Rh1', 'Rh2', 'Rclk')]
    for lang in ('py', 'c'):
        cases.append(mk_case('w-roots3-%s' % lang, lang, [], WITNESS_ROOTS3_NS, False))
        cases[-1]['runs'] = [r for r in cases[-1]['runs'] if r['name'] in ('R0', 'Rloc', 'Rall', 'Rh1', 'Rcwd')]
    cases.append(mk_case('w-site', 'py', [], WITNESS_SITE_NS, False))
    cases[-1]['runs'] = [r for r in cases[-1]['runs'] if r['name'] in ('R0', 'Rsite', 'Rh1')]
    cases.append(mk_case('w-locale', 'c', [], WITNESS_LOCALE_NS, False))
    cases[-1]['runs'] = [r for r in cases[-1]['runs'] if r['name'] in ('R0', 'Renv', 'Rh1')]
    # corpus: F-HTML-NATSORT-TIE (fixed): sibling namespaces and types whose names tie under the natural-sort key
    cases.append(mk_case('w-natsort', 'html', [], WITNESS_NATSORT_NS, False))
    cases[-1]['runs'] = [dict(name='R0', hashseed='0', loc='A', cwd='loc', paths='rel', wave=0)] + [
        dict(name='Rh%s' % h, hashseed=h, loc='A', cwd='loc', paths='rel', wave=1) for h in ('1', '2', '3', '4', '5')]
    # corpus: user template directories (copies of the built-in ones) that move with the inputs
    for lang, mode in (('cpp', 'both'), ('c', 'tpl'), ('py', 'tpl')) if chk.tier == 'quick' else (('cpp', 'both'), ('cpp', 'tpl'), ('c', 'both'), ('py', 'both'), ('html', 'tpl')):
        cases.append(mk_case('t-%s-%s' % (lang, mode), lang, [], WITNESS_STATE_NS if lang != 'py' else WITNESS_NS, False, user_templates=mode))
        cases[-1]['runs'] = [r for r in cases[-1]['runs'] if r['name'] in ('R0', 'Rh1', 'Rcwd', 'Rloc', 'Rall', 'Rsub', 'Rreuse')]
    # corpus: two --configuration files that set the same option differently, given by relative paths (cwd pairing Rsub)
    for lang in ('c', 'cpp'):
        cases.append(mk_case('k-%s' % lang, lang, [], WITNESS_STATE_NS, False, configs=True))
        cases[-1]['runs'] = [r for r in cases[-1]['runs'] if r['name'] in ('R0', 'Rsub', 'Rcwd', 'Rloc', 'Rreuse')]
    for k in range(n_ns):
        ns = gen_namespace(rng, rng.choice([2, 3, 4, 6, 8]))
        for lang in ('c', 'cpp', 'py', 'html'):
            opts = OPTION_SETS[lang]
            args = opts[(k + rng.randrange(len(opts))) % len(opts)] if chk.tier == 'quick' else rng.choice(opts)
            ut = rng.choice(['tpl', 'both']) if rng.random() < 0.2 else None
            cases.append(mk_case('n%d-%s' % (k, lang), lang, args, ns, False, user_templates=ut,
                                 configs=lang in ('c', 'cpp') and rng.random() < 0.25))
    n_audit = 1 if chk.tier == 'quick' else 4
    for k in range(n_audit):
        ns = gen_namespace(rng, rng.choice([3, 5]))
        for lang in ('c', 'cpp', 'py', 'html'):
            cases.append(mk_case('a%d-%s' % (k, lang), lang, [], ns, True))
    return cases


def main(chk: core.Check, replay: typing.Optional[str] = None) -> int:
    import time as _time
    load_fragment(chk)
    _t0 = _time.time()
    res = core.coq_check('C07', ['repro'])
    chk.notes.append('phase coq_check %.1fs' % (_time.time() - _t0))
    if res.ok:
        # History/C07_history.v (model-sensitivity statements, records of fixed defects): compiled, not an obligation
        with core.build_lock('coq'):
            hp = core.run(['make', 'theories/History/C07_history.vo'], cwd=core.COQ, timeout=600)
        chk.notes.append('History/C07_history.v %s' % ('builds' if hp.returncode == 0 else 'DOES NOT BUILD: ' + hp.stdout[-300:]))
    chk.proof_coverage(res, [
        'tools/translators/gen_c07.py: Jinja block-structure scanner (gating of ambient uses in templates) and Python ast scans '
        '(sorted(), set iterations, ambient reads, gating in _create_platform_version)',
        'render signature: the template body sees the environment only through audit_view (None unless --embed-auditing-info); '
        'vendored Jinja2 and pydsdl internals are covered only by the paired runs',
        'hand model Gen/Repro.v of build_namespace_tree, the generation order, DependencyBuilder.direct and IncludeGenerator, tied by '
        'the correspondence run (path sets, include lists, equal/unequal relation of paired real runs)',
        'cases evaluated with coqc/vm_compute on a generated cases.v (no extraction)',
    ])
    broken: typing.List[str] = []
    if not res.ok:
        broken.append('proof obligation: %s %s' % (res.failed_file or 'translator', res.failed_theorem or ''))

    if replay:
        doc = json.load(open(replay))
        if 'case' in doc:
            c = doc['case']
            c['no_model'] = 'ns' not in c
            c.setdefault('ns', WITNESS_NS)
            cases = [c]
        else:
            cases = build_cases(chk)
    else:
        cases = build_cases(chk)

    _t0 = _time.time()
    results = run_impl_stable(chk, cases)
    chk.notes.append('phase nnvg runs %.1fs' % (_time.time() - _t0))
    _t0 = _time.time()

    # probe the known finding on the implementation (witness = first case unless replaying)
    pickle_live = False
    wit = cases[0] if cases[0]['id'] == 'w-py' else None
    if wit is None:
        wit = mk_case('w-py', 'py', [], WITNESS_NS, False)
        wit['runs'] = [r for r in wit['runs'] if r['name'] in ('R0', 'Rloc', 'Rh1')]
        results.update(run_impl([wit]))
    wr = results[wit['id']].get('runs', {})
    if wr.get('R0', {}).get('rc') == 0 and wr.get('Rloc', {}).get('rc') == 0:
        diff = [f for f in wr['R0']['files'] if wr['Rloc']['files'].get(f) != wr['R0']['files'][f]]
        pickle_live = bool(diff) and all(is_py_type_file(wit, f) for f in diff)
    if pickle_live and chk.is_known(FID):
        chk.report_known(FID, 'ns/A_1_0.py differs between two absolute input locations')
    quirk = pickle_live and chk.is_known(FID)
    state_live = False
    ws = next((c for c in cases if c['id'] == 'w-state'), None)
    if ws is None:
        ws = mk_case('w-state', 'py', [], WITNESS_STATE_NS, False)
        ws['runs'] = [r for r in ws['runs'] if r['name'] in ('R0', 'Rh1', 'Rh2', 'Rclk')]
        results.update(run_impl([ws]))
    sr = results[ws['id']].get('runs', {})
    if all(sr.get(n, {}).get('rc') == 0 for n in ('R0', 'Rh1', 'Rh2')):
        sdiff = {f for n in ('Rh1', 'Rh2') for f in sr['R0']['files'] if sr[n]['files'].get(f) != sr['R0']['files'][f]}
        state_live = bool(sdiff) and all(is_py_type_file(ws, f) for f in sdiff)
    if state_live and chk.is_known(FID_STATE):
        chk.report_known(FID_STATE, 'acme/inner/Gamma_2_2.py differs between PYTHONHASHSEED=0 and 1 at the same location and clock')
    state_quirk = state_live and chk.is_known(FID_STATE)

    locale_live = False
    wl = next((c for c in cases if c['id'] == 'w-locale'), None)
    if wl is not None:
        lr = results[wl['id']].get('runs', {})
        if lr.get('R0', {}).get('rc') == 0 and 'Renv' in lr:
            locale_live = lr['Renv']['rc'] != 0 and 'UnicodeDecodeError' in lr['Renv'].get('log', '') or \
                (lr['Renv']['rc'] == 0 and lr['Renv']['files'] != lr['R0']['files'])
    if locale_live and chk.is_known(FID_LOCALE):
        chk.report_known(FID_LOCALE, 'ns/A.1.0.dsdl with a non-ASCII comment: LC_ALL=C PYTHONUTF8=0 run fails in pydsdl')
    locale_quirk = locale_live and chk.is_known(FID_LOCALE)
    site_live = False
    wsite = next((c for c in cases if c['id'] == 'w-site'), None)
    if wsite is not None:
        sr2 = results[wsite['id']].get('runs', {})
        if sr2.get('R0', {}).get('rc') == 0 and sr2.get('Rsite', {}).get('rc') == 0:
            site_live = sr2['Rsite']['files'] != sr2['R0']['files']
    if site_live and chk.is_known(FID_SITE):
        chk.report_known(FID_SITE, 'ns/help/A.1.0.dsdl with a field `exit`: python -S writes ns/help/A_1_0.py with `exit`, python writes ns/help_/A_1_0.py with `exit_`')
    site_quirk = site_live and chk.is_known(FID_SITE)

    stats = {'cases': len(cases), 'runs': 0, 'files_hashed': 0, 'pairs_compared': 0, 'file_pairs_compared': 0,
             'known_finding_instances': 0, 'audit_on_cases': 0, 'audit_on_file_pairs_differing': 0, 'audit_on_file_pairs_equal': 0,
             'model_checks': 0, 'by_lang': {}, 'with_lookup_deps': 0, 'with_three_roots': 0, 'with_cross_root_array_chain': 0, 'with_nested_ns': 0, 'with_service': 0, 'with_union': 0, 'with_user_templates': 0, 'with_two_config_files': 0, 'reused_output_dir_pairs': 0, 'with_natsort_ties': 0,
             'types_total': 0, 'invalid_inputs': 0, 'known_state_instances': 0, 'known_locale_instances': 0, 'known_site_instances': 0, 'pairs_with_different_write_order': 0}
    violations: typing.List[typing.Tuple[dict, dict]] = []
    distinct = set()
    usable: typing.List[dict] = []
    for c in cases:
        r = results[c['id']]
        stats['by_lang'][c['lang']] = stats['by_lang'].get(c['lang'], 0) + 1
        ns = c.get('ns', {})
        stats['with_lookup_deps'] += bool(ns.get('lookup'))
        stats['with_three_roots'] += len({t['ns'][0] for t in ns.get('lookup', [])}) >= 2
        stats['with_cross_root_array_chain'] += any(
            f[0] == 'comp' and f[2] and f[1]['ns'][0] != t['ns'][0] and any(g[0] == 'comp' and g[1]['ns'][0] not in (t['ns'][0], f[1]['ns'][0])
                                                                            for g in f[1]['fields'])
            for t in ns.get('types', []) for f in t['fields'] + t['resp'])
        stats['with_user_templates'] += bool(c.get('user_templates'))
        stats['with_two_config_files'] += bool(c.get('config_order'))
        stats['reused_output_dir_pairs'] += sum(1 for x in c['runs'] if x.get('pre_args') is not None)
        _subs = {tuple(t['ns']) for t in ns.get('types', [])}
        stats['with_natsort_ties'] += len({(n[:-1], re.sub(r'0+(?=\d)', '', n[-1].lower())) for n in _subs if n}) < len(_subs)
        stats['with_nested_ns'] += any(len(t['ns']) > 1 for t in ns.get('types', []))
        stats['with_service'] += any(t['kind'] == 'service' for t in ns.get('types', []))
        stats['with_union'] += any(t['kind'] == 'union' for t in ns.get('types', []))
        stats['types_total'] += len(ns.get('types', []))
        runs = r.get('runs', {})
        stats['runs'] += len(runs)
        stats['files_hashed'] += sum(len(x.get('files', {})) for x in runs.values())
        if locale_quirk and runs.get('R0', {}).get('rc') == 0:
            # the runs the known finding makes fail are taken out of the comparison (model and oracle), nothing else
            dropped = [x for x in c['runs'][1:] if locale_trigger(c, x) and runs.get(x['name'], {}).get('rc', 0) != 0]
            if dropped:
                stats['known_locale_instances'] += len(dropped)
                c['runs'] = [x for x in c['runs'] if x not in dropped]
        if site_quirk and runs.get('R0', {}).get('rc') == 0:
            dropped = [x for x in c['runs'][1:] if site_trigger(c, x) and runs.get(x['name'], {}).get('rc') == 0
                       and runs[x['name']]['files'] != runs['R0']['files']]
            if dropped:
                stats['known_site_instances'] += len(dropped)
                c['runs'] = [x for x in c['runs'] if x not in dropped]
        ok_runs = all(runs.get(x['name'], {}).get('rc') == 0 for x in c['runs'])
        if runs.get('R0', {}).get('rc', 0) != 0:
            stats['invalid_inputs'] += 1
            stats.setdefault('invalid_logs', []).append(runs['R0'].get('log', '')[-200:])
            continue
        if ok_runs:
            if not c.get('no_model'):
                usable.append(c)
            stats['pairs_compared'] += len(c['runs']) - 1
            stats['pairs_with_different_write_order'] += sum(1 for x in c['runs'][1:] if runs[x['name']].get('order') != runs['R0'].get('order'))
            stats['file_pairs_compared'] += (len(c['runs']) - 1) * len(runs['R0']['files'])
            if len(ns.get('types', [])) > 1 and any(deps_of(t) for t in ns['types']):
                distinct.add(json.dumps([c['lang'], c['args'], c['dsdl']], sort_keys=True))
        if c['audit']:
            stats['audit_on_cases'] += 1
            if ok_runs:
                for x in c['runs'][1:]:
                    for f, h in runs['R0']['files'].items():
                        if runs[x['name']]['files'].get(f) == h:
                            stats['audit_on_file_pairs_equal'] += 1
                        else:
                            stats['audit_on_file_pairs_differing'] += 1
            else:
                violations.append((c, dict(what='nnvg failed', runs={k: v.get('log', '') for k, v in runs.items() if v.get('rc')})))
            continue
        for d in oracle_diffs(c, r):
            if d['what'] == 'bytes differ' and quirk and d['loc_differs'] and is_py_type_file(c, d['file']):
                stats['known_finding_instances'] += 1
                continue
            if d['what'] == 'bytes differ' and state_quirk and d.get('state_trigger'):
                stats['known_state_instances'] += 1
                continue
            violations.append((c, d))

    # model vs implementation
    model, labels, log = run_model(usable, results, quirk, state_quirk) if res.ok or os.path.exists(os.path.join(core.COQ, 'theories', 'Gen', 'Repro.vo')) else (None, [], 'model not built')
    chk.notes.append('phase probes+model %.1fs' % (_time.time() - _t0))
    bad_model = []
    if model is None:
        broken.append('model cases do not evaluate: ' + log[-400:])
    else:
        for c, vals, labs in zip(usable, model, labels):
            for v, l in zip(vals, labs):
                stats['model_checks'] += 1
                if not v:
                    bad_model.append((c, l))

    chk.coverage.update({
        'evaluations': stats['runs'], 'distinct_nontrivial': len(distinct),
        'rule': 'seeded random DSDL namespaces (2-8 types; structs, unions, services, delimited; nested namespaces up to depth 3; '
                'composite fields, arrays of composites, cross-namespace dependencies through --lookup-dir) x 4 target languages x '
                'option sets; each generated by real nnvg 8 times (base, PYTHONHASHSEED 1/2/random, clock +5 years via '
                'sitecustomize, other cwd with absolute paths, cwd inside the project with re-spelled relative paths, other absolute location, '
                'all at once, output directory used before with another option set; every non-base run >= 1.2 s '
                'later), sha256 per file; plus --embed-auditing-info cases with frozen/shifted clock. non-trivial = distinct '
                '(language, options, namespace) with more than one type and at least one composite dependency whose runs all succeeded',
        'samples': [dict(id=c['id'], lang=c['lang'], args=c['args'], files=sorted(c['dsdl']), lookup=sorted(c['lookup'])) for c in cases[2:10]],
        'traces_validated_against_impl': stats['model_checks'],
        'distribution': stats,
        'known_finding_probe': {FID: {'reproduces': pickle_live, 'listed': chk.is_known(FID)},
                                FID_STATE: {'reproduces': state_live, 'listed': chk.is_known(FID_STATE)},
                                FID_LOCALE: {'reproduces': locale_live, 'listed': chk.is_known(FID_LOCALE)},
                                FID_SITE: {'reproduces': site_live, 'listed': chk.is_known(FID_SITE)}},
    })

    if violations:
        c, d = violations[0]
        small = c
        if d.get('what') in ('bytes differ', 'path set differs') and not replay:
            def still(c2: dict) -> bool:
                r2 = run_impl([c2])[c2['id']]
                return any(x['what'] in ('bytes differ', 'path set differs') for x in oracle_diffs(c2, r2))
            small = shrink(c, d['run'], still)
        chk.violation({'case': strip(small), 'original_case_id': c['id'], 'difference': d,
                       'expected_by_property': 'identical relative paths and bytes in every run (auditing off)',
                       'what': 'real nnvg output depends on ambient state', 'n_differences': len(violations), 'broken': broken},
                      found_input=True)
    elif bad_model:
        c, l = bad_model[0]
        chk.violation({'case': strip(c), 'correspondence': 'Gen/Repro.v ' + l + ' vs real nnvg runs', 'n_disagreements': len(bad_model),
                       'all': [(x['id'], y) for x, y in bad_model[:20]],
                       'what': 'model and implementation disagree but no input violating the property was found'}, found_input=False)
    elif broken:
        chk.violation({'broken': broken, 'coq_error': res.error_text[-2000:], 'translators': res.translator_msgs,
                       'what': 'proof obligation or model no longer checks; %d paired real runs found no difference' % stats['pairs_compared']},
                      found_input=False)
    return chk.finish()
