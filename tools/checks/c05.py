"""C05: exported size bounds and type metadata are correct for every type."""
from __future__ import annotations

import concurrent.futures
import fractions
import json
import os
import re
import shutil
import time
import typing

from tools.lib import core
from tools.harness.codec import campaign, dsdlgen, model as modelmod, proto, valgen
from tools.harness import c05_probe

PROP = 'C05'

MANIFEST = dict(
    technique='Coq proof about T2-translated generator functions (filter_bits2bytes_ceil, _CFit.get_best_fit, integer/float branches '
              'of filter_literal), a template scan emitted as Gallina data, the DSDL wire specification and the code walker; '
              'extracted model vs. compiled probes of the real generated C/C++/Python and vs. pydsdl',
    text='Theorems in coq/theories/Properties/C05.v: bits2bytes_ceil = ceil(n/8) for all n >= 0; every exported byte constant of C, C++ '
         'and Python is rendered from an expression that evaluates to extent/8 resp. max_bits/8 exactly (template scan re-read on every '
         'run; bits-instead-of-bytes breaks table_ok); a buffer of the advertised size always passes the capacity check, every '
         'serialization fits it, advertised buffer <= advertised extent; the rendered capacity checks of C and C++ are the '
         'specification\'s, 8*cap < max_bits is refused with too_small for all values before any write (code walker); for every integer '
         'type (width 1..64, signed/unsigned) and every value in range the token rendered by the translated filter_literal parses in a C '
         'integer-constant grammar, denotes exactly that value without diagnostic in three data models, with the right signedness and a '
         'C type at least as wide as the DSDL type (int64 minimum needs the repaired spelling; the old one is refuted); floating '
         'constant expressions denote the exact rational before rounding whenever the division / integral form is rendered, the '
         'operands of every rendered division are valid double constants (< 2^1023), otherwise the text is the decimal constant '
         'returned by repr(float(value)) (oracle). Tie: translators + template scan on every run; compiled '
         'probes (meta) of random namespaces with constants of every primitive kind and extreme magnitudes, services, delimited types, '
         'fixed port ids on C (gcc -Werror -pedantic, clang sanitizers), C++14/17 and Python compared with the extracted model and '
         'with pydsdl; serialization with capacities 0..max+1 on C and C++.',
    note='ASSUMED: Python repr(float(Fraction)) returns a decimal that reads back as the correctly rounded double (library behaviour; '
         'validated on every out-of-range constant of every run: the string is parsed by the Coq parse_fdec and its exact value must '
         'round to the same binary64 as the DSDL rational). PARTIAL: the rounding of floating-point constants ("within one ulp of the exact rational") is NOT proved, only checked by '
         'correspondence (bit pattern printed by the probe vs. fractions-based correct rounding, <= 1 ulp); "nothing written on '
         'too_small" is proved on the code walker and tied by the template scan (check precedes the first write), not observed on the '
         'compiled code. Trusted: Coq kernel, T2 translator gen_c05.py (+ mapping of str(int), str*bool, isinstance to MetaC05Base.v), '
         'the C constant-expression semantics written in MetaC05Base.v (C99 6.4.4.1, usual arithmetic conversions), pydsdl front end, '
         'extraction + ocaml/c05_driver.ml, harness drivers of tools/harness/codec.',
    design='§5 C05')

TRUSTED = [
    'T2 translator tools/translators/gen_c05.py (Python ast -> Gallina, fail closed; Python builtins str(int), str*bool, isinstance, '
    'str.format mapped to definitions of Gen/MetaC05Base.v) and its template scan (regular expressions over the .j2 sources)',
    'C integer constant-expression semantics as written in Gen/MetaC05Base.v (C99 6.4.4.1 typing of decimal constants, usual arithmetic '
    'conversions, data models int16/long32, ILP32/LLP64, LP64)',
    'Spec/Meta.v is validated, not assumed: compared with the numbers pydsdl reports for every generated type on every run',
    'pydsdl 1.25 front end (astdump.py); extraction (ExtrOcamlBasic only) + ocaml/c05_driver.ml, ocaml/codec_driver.ml',
    'harness drivers tools/harness/codec/target_{c,cpp,py}.py; gcc/clang/g++ and sanitizer runtimes',
    'float rounding oracle: Python fractions (round-half-even to binary32/binary64) in tools/checks/c05.py',
]


# ------------------------------------------------------------------------------------------------
# extra DSDL: constants of every primitive kind and extreme magnitudes, services, delimited types, fixed port ids
# ------------------------------------------------------------------------------------------------

def _rand_int_consts(rng, n: int) -> typing.List[str]:
    out = []
    for i in range(n):
        w = rng.choice([1, 2, 3, 7, 8, 9, 15, 16, 17, 24, 31, 32, 33, 40, 48, 57, 63, 64, rng.randint(1, 64)])
        if rng.random() < 0.5:
            lo, hi = 0, 2 ** w - 1
            v = rng.choice([lo, hi, hi - 1 if hi > 0 else 0, rng.randint(lo, hi)])
            out.append('uint%d RU%d = %d' % (w, i, v))
        else:
            w = max(w, 2)
            lo, hi = -2 ** (w - 1), 2 ** (w - 1) - 1
            v = rng.choice([lo, hi, lo + 1, -1, rng.randint(lo, hi)])
            out.append('int%d RS%d = %d' % (w, i, v))
    return out


def _rand_float_consts(rng, n: int) -> typing.List[str]:
    out = []
    for i in range(n):
        w = rng.choice([16, 32, 64])
        lim = {16: 60000, 32: 10 ** 30, 64: 10 ** 200}[w]
        kind = rng.randrange(4)
        if kind == 0:
            a, b = rng.randint(1, 10 ** rng.randint(1, 18)), rng.randint(1, 10 ** rng.randint(1, 18))
        elif kind == 1:
            a, b = rng.randint(1, 999), rng.choice([3, 7, 10, 1000, 10 ** 20, 10 ** 40 if w > 16 else 7])
        elif kind == 2:
            a, b = rng.randint(1, 2 ** 60), 2 ** rng.randint(0, 70)
        else:
            a, b = rng.randint(1, 10 ** 6) * 10 ** rng.randint(0, 25 if w > 16 else 0), 1
        if fractions.Fraction(a, b) > lim:
            a, b = rng.randint(1, 60000), rng.randint(1, 99)
        if w == 16 and fractions.Fraction(a, b) < fractions.Fraction(1, 10 ** 4):
            a, b = rng.randint(1, 999), rng.randint(1, 999)
        sign = '-' if rng.random() < 0.4 else ''
        expr = '%s%d.0' % (sign, a) if b == 1 else '%s%d.0 / %d.0' % (sign, a, b)
        out.append('float%d RF%d = %s' % (w, i, expr))
    return out


def c05_files(rng, tiny_f64: bool) -> typing.Dict[str, str]:
    ints = [
        'uint64 U64MAX = 18446744073709551615', 'uint64 U64ZERO = 0', 'uint64 U64BIG = 9223372036854775808',
        'int64 I64MIN = -9223372036854775808', 'int64 I64MAX = 9223372036854775807', 'int64 I64MINP1 = -9223372036854775807',
        'uint32 U32MAX = 4294967295', 'int32 I32MIN = -2147483648', 'int32 I32MAX = 2147483647',
        'uint16 U16MAX = 65535', 'int16 I16MIN = -32768', 'int16 I16MAX = 32767', 'uint8 U8MAX = 255', 'int8 I8MIN = -128',
        'int8 I8MAX = 127', 'uint33 U33MAX = 8589934591', 'int33 I33MIN = -4294967296', 'uint17 U17MAX = 131071',
        'int17 I17MIN = -65536', 'uint1 U1 = 1', 'int2 I2MIN = -2', 'uint63 U63MAX = 9223372036854775807',
        'int63 I63MIN = -4611686018427387904', 'uint8 CH = \'a\'', 'bool BT = true', 'bool BF = false',
        'truncated uint12 T12 = 4095', 'saturated int9 S9 = -256',
    ] + _rand_int_consts(rng, 14)
    floats = [
        'float32 F32MAX = 340282346638528859811704183484516925440.0', 'float32 F32LOW = -340282346638528859811704183484516925440.0',
        'float32 F32TINY = 1.401298464324817e-45', 'float32 F32MINN = 1.1754943508222875e-38', 'float32 F32SUB = 1.0e-40',
        'float64 F64MAX = 1.7976931348623157e+308', 'float64 F64LOW = -1.7976931348623157e+308',
        'float64 F64SMALL = 1.0e-290',
        'float16 F16MAX = 65504.0', 'float16 F16LOW = -65504.0', 'float16 F16TINY = 5.960464477539063e-08',
        'float16 F16THIRD = 1.0 / 3.0', 'float32 F32THIRD = 1.0 / 3.0', 'float64 F64THIRD = 1.0 / 3.0', 'float32 NEG27 = -2.0 / 7.0',
        'float64 PI = 3.141592653589793', 'float32 ONE = 1.0', 'float64 ZERO = 0.0', 'float32 TENTH = 0.1', 'float64 E100 = 1.0e+100',
        'float32 HALFWAY = 16777217.0',           # exactly between two binary32 values
        'float64 HALFWAY64 = 9007199254740993.0',  # exactly between two binary64 values
    ] + _rand_float_consts(rng, 14)
    # operands beyond 2^53 (each is rounded to double before the division): F-FLOAT-OPERAND-ROUNDING; the first one is its witness
    floats += ['float64 TWO_ULP = 1152921504606847105.0 / 1152921504606847359.0']
    for i in range(6):
        a, b = rng.randint(2 ** 53, 2 ** 64), rng.randint(2 ** 53, 2 ** 64)
        floats.append('float%d BIGOP%d = %d.0 / %d.0' % (rng.choice([64, 64, 32]), i, a, b))
    if tiny_f64:      # only while F-FLOAT-LIT-RANGE does not reproduce: rationals whose denominator exceeds the range of double
        floats += ['float64 F64TINY = 4.9406564584124654e-324', 'float64 F64MINN = 2.2250738585072014e-308', 'float64 F64SUB = 1.0e-310']
    svc_id, msg_id = rng.randint(1, 510), rng.randint(2, 8190)
    many = rng.randint(33, 40)
    files = {
        'nsa/c05/KInts.1.0.dsdl': '\n'.join(ints) + '\nuint8 x\n@sealed\n',
        'nsa/c05/KFloats.1.%d.dsdl' % rng.randint(0, 9): '\n'.join(floats) + '\n@extent 64\n',
        # equal rationals at several float widths, in both orders (a literal cache keyed by the value alone would leak the cast)
        'nsa/c05/KFloatsFwd.1.0.dsdl': 'float16 T16 = 0.1\nfloat32 T32 = 0.1\nfloat64 T64 = 0.1\nfloat32 S32 = 2.0 / 7.0\nfloat64 S64 = 2.0 / 7.0\n'
                                       'uint8 FIVE8 = 5\nuint64 FIVE64 = 5\nint64 FIVES = 5\n@sealed\n',
        'nsa/c05/KFloatsRev.1.0.dsdl': 'float64 A64 = 1.0 / 3.0\nfloat32 A32 = 1.0 / 3.0\nfloat16 A16 = 1.0 / 3.0\nfloat64 T64 = 0.1\nfloat32 T32 = 0.1\n'
                                       'float16 T16 = 0.1\nuint64 FIVE64 = 5\nuint8 FIVE8 = 5\n@sealed\n',
        # fixed port ids at the boundaries: 0, 1, the largest subject id, the largest service id
        'nsa/c05/0.PortZero.1.0.dsdl': 'uint8 ZERO = 0\nuint8 x\n@sealed\n',
        'nsa/c05/1.PortOne.1.0.dsdl': 'bool NO = false\n@extent 0\n',
        'nsa/c05/8191.PortMaxSubject.1.0.dsdl': 'float32 FZ = 0.0\nuint16 y\n@extent 64\n',
        'nsa/c05/0.SvcZero.1.0.dsdl': 'uint8 a\n@sealed\n---\nint8 RC_OK = 0\nint8 rc\n@sealed\n',
        'nsa/c05/511.SvcMax.1.0.dsdl': '@extent 32\n---\n@union\nuint8 a\nbool b\n@extent 64\n',
        'nsa/c05/%d.Beat.1.0.dsdl' % msg_id: 'uint32 UPTIME_MAX = 4294967295\nuint32 uptime\nuint8[<=%d] data\nfloat16[3] v\n@extent %d\n'
                                             % (rng.choice([7, 255, 256, 300]), 8 * rng.randint(320, 400)),
        'nsa/c05/%d.GetThing.%d.%d.dsdl' % (svc_id, rng.randint(0, 3), rng.randint(0, 9)):
            'int64 REQ_MIN = -9223372036854775808\nuint8 KIND_A = 1\nuint8 kind\nnsa.c05.KInts.1.0[<=3] ks\n@extent 1024\n---\n'
            '@union\nfloat64 RSP_SCALE = 1.0 / 1024.0\nbool OK = true\nuint64 a\nfloat32[<=9] b\nnsa.c05.Empty.1.0 c\n@sealed\n',
        'nsa/c05/Empty.1.0.dsdl': 'uint8 NOTHING = 0\n@sealed\n',
        'nsa/c05/EmptyD.1.0.dsdl': '@extent %d\n' % (8 * rng.choice([0, 1, 16, 100])),
        'nsa/c05/Plain.1.0.dsdl': 'uint3 a\nint61 b\nbool[%d] flags\nvoid5\nnsa.c05.EmptyD.1.0[2] e\nuint16[<=%d] w\n@sealed\n'
                                  % (rng.randint(1, 70), rng.choice([1, 255, 256, 1000])),
        'nsa/c05/Uni.1.0.dsdl': '@union\nuint16 LIMIT = 1000\nnsa.c05.Plain.1.0 p\nfloat64 f\nuint8[<=5] s\nnsa.c05.Empty.1.0 e\n@extent %d\n'
                                % (8 * 2600),
        # array capacities 1 and large (bit-packed bool arrays included: capacity is the element count, not the byte length)
        'nsa/c05/Arr.1.0.dsdl': 'uint8[1] a1\nuint8[<=1] v1\nbool[1] b1\nbool[<=1] bv1\nbool[9] b9\nbool[<=%d] bvn\nint17[<=1] x\n'
                                'nsa.c05.Empty.1.0[1] e1\n@sealed\n' % rng.choice([8, 9, 65, 255, 256]),
        'nsa/c05/Big.1.0.dsdl': 'uint8[<=%d] data\nbool[<=%d] bits\n@sealed\n' % (rng.choice([4096, 5000, 8000]), rng.choice([4097, 9001])),
        # types ENDING in an aligned integer of non-standard width (a whole-storage copy would overrun an exactly sized buffer)
        'nsa/c05/Tail24.1.0.dsdl': 'uint8 a\nuint24 tail\n@sealed\n',
        'nsa/c05/Tail40.1.0.dsdl': 'uint16 a\nint40 tail\n@sealed\n',
        'nsa/c05/Tail56.1.0.dsdl': 'uint56 tail\n@sealed\n',
        'nsa/c05/Tail17.1.0.dsdl': 'uint8[<=2] a\nuint17 tail\n@sealed\n',
        'nsa/c05/TailArr.1.0.dsdl': 'uint8 a\nuint24[3] tails\n@sealed\n',
        # a nested delimited type without slack (body maximum = extent): a value of maximal size fills the nested buffer exactly
        'nsa/c05/DelimTight.1.0.dsdl': 'uint8[<=5] x\n@extent 48\n',
        'nsa/c05/OuterTight.1.0.dsdl': 'uint8 a\nnsa.c05.DelimTight.1.0 d\nnsa.c05.DelimTight.1.0[<=2] ds\n@sealed\n',
        # two-digit version numbers
        'nsa/c05/V.12.34.dsdl': 'uint8 K = 1\nuint8 x\n@sealed\n',
        # unions with 2 and with many options
        'nsa/c05/U2.1.0.dsdl': '@union\nuint8 a\nuint16 b\n@sealed\n',
        'nsa/c05/UMany.1.0.dsdl': '@union\n' + ''.join('uint%d o%d\n' % (1 + (i * 7) % 64, i) for i in range(many)) + '@extent %d\n' % (8 * 16),
    }
    return files


# ------------------------------------------------------------------------------------------------
# oracles independent of the Coq model
# ------------------------------------------------------------------------------------------------

def round_to_binary(x: fractions.Fraction, wbits: int) -> int:
    """bit pattern of x correctly rounded (nearest, ties to even) to binary32 / binary64; overflow -> infinity"""
    mant, emin, emax, ebits = (23, -126, 127, 8) if wbits == 32 else (52, -1022, 1023, 11)
    sign = 1 if x < 0 else 0
    a = -x if x < 0 else x
    if a == 0:
        return sign << (wbits - 1)
    # find e with 2^e <= a < 2^(e+1)
    e = a.numerator.bit_length() - a.denominator.bit_length()
    if fractions.Fraction(2) ** e > a:
        e -= 1
    if fractions.Fraction(2) ** (e + 1) <= a:
        e += 1
    e = max(e, emin)
    q = a / fractions.Fraction(2) ** (e - mant)          # significand in units of the last place
    n = q.numerator // q.denominator
    rem = q - n
    if rem > fractions.Fraction(1, 2) or (rem == fractions.Fraction(1, 2) and n % 2 == 1):
        n += 1
    if n >= 2 ** (mant + 1):
        n //= 2
        e += 1
    if e > emax:
        return (sign << (wbits - 1)) | (((1 << ebits) - 1) << mant)
    if n < 2 ** mant:      # subnormal (e == emin)
        return (sign << (wbits - 1)) | n
    return (sign << (wbits - 1)) | ((e - emin + 1) << mant) | (n - 2 ** mant)


def ordered(bits: int, wbits: int) -> int:
    s = bits >> (wbits - 1)
    m = bits & ((1 << (wbits - 1)) - 1)
    return -m if s else m


def parse_fraction(s: str) -> fractions.Fraction:
    if '/' in s:
        a, b = s.split('/')
        return fractions.Fraction(int(a), int(b))
    return fractions.Fraction(int(s))


def int_value(s: str) -> int:
    fr = parse_fraction(s)
    if fr.denominator != 1:
        raise ValueError('integer constant with a fractional value: %s' % s)
    return int(fr)


def port_of_source(src: typing.Optional[str]) -> typing.Optional[int]:
    base = os.path.basename(src or '')
    m = re.match(r'(\d+)\.[A-Za-z_]', base)
    return int(m.group(1)) if m else None


def pydsdl_expected(c: dict) -> typing.Dict[str, typing.Any]:
    """what the DSDL definition says, from the numbers pydsdl reports (astdump.py) -- independent of the Coq model"""
    exp: typing.Dict[str, typing.Any] = {
        'extent_bytes': (c['extent_bits'] + 7) // 8, 'buffer_bytes': (c['meta']['max_bits'] + 7) // 8,
        'full_name': c['full_name'], 'major': c['major'], 'minor': c['minor']}
    if c.get('service_part'):
        # a service part is named ns.Svc.Request / ns.Svc.Response; the port id belongs to the service
        exp['port_id'] = port_of_source(c['source'])
    else:
        exp['port_id'] = c['fixed_port_id']
    for f in c['fields']:
        if f['type']['k'] == 'farr':
            exp['cap.' + f['name']] = f['type']['n']
        elif f['type']['k'] == 'varr':
            exp['cap.' + f['name']] = f['type']['cap']
    if c['kind'] == 'union':
        exp['union_count'] = len(c['fields'])
    for k in c['constants']:
        exp['const.' + k['name']] = (k['type'], k['value'])
    return exp


OPERAND_ROUNDING = 'F-FLOAT-OPERAND-ROUNDING'
MACRO_CLASH = 'F-C-MACRO-CLASH'


def const_ok(kt: dict, value: str, got: str, target: str, mc: typing.Optional[dict] = None) -> typing.Tuple[bool, str, str]:
    """compare one printed constant with the DSDL value.  Returns (ok, expected shown, class) with class in
    '' | 'impl' (the implementation violates the property) | 'model' (implementation fine, model prediction differs) |
    'operand-rounding' (instance of F-FLOAT-OPERAND-ROUNDING: more than 1 ulp off, exactly as the quirk-faithful model predicts).
    Floats: the property is "bit pattern of the storage type within 1 ulp of the correctly rounded rational" (oracle: Python
    fractions, independent of Coq); in addition the extracted model (MetaC05Float.v) predicts the exact bits."""
    k = kt['k']
    if k == 'bool':
        w = '1' if value == 'true' else '0'
        return got == w, w, '' if got == w else 'impl'
    if k in ('uint', 'int'):
        w = str(int_value(value))
        return got == w, w, '' if got == w else 'impl'
    if k == 'float':
        wb = 64 if kt['w'] == 64 else 32
        want = round_to_binary(parse_fraction(value), wb)
        try:
            g = int(got, 16)
        except ValueError:
            return False, '%x' % want, 'impl'
        within = abs(ordered(g, wb) - ordered(want, wb)) <= 1
        fe = (mc or {}).get('feval') or {}
        key = {('c', 64): 'c64', ('cpp', 64): 'c64', ('c', 32): 'c32', ('cpp', 32): 'c32', ('py', 64): 'rn64', ('py', 32): 'p32'}[(target, wb)]
        pred = int(fe[key]) if fe.get(key, 'none').isdigit() else None
        if not within:
            if pred == g and target in ('c', 'cpp') and mc and mc.get('div') and fe.get('exact') == '0' \
                    and parse_fraction(value).denominator != 1:
                return False, '%x (+-1 ulp)' % want, 'operand-rounding'
            return False, '%x (+-1 ulp)' % want, 'impl'
        if pred is not None and pred != g:
            return False, '%x (model prediction)' % pred, 'model'
        return True, '%x' % want, ''
    return False, '?', 'impl'


FLOAT_RANGE = 'F-FLOAT-LIT-RANGE'
DBL_LIT_LIMIT = 2 ** 1024 - 2 ** 970        # decimal constants at or above this magnitude do not round to a finite double
WITNESS_FILES = {'nsa/c05/KFloatOvf.1.0.dsdl': 'float64 DBL_MIN = 2.2250738585072014e-308\n@sealed\n'}


def float_lit_overflows(value: str) -> bool:
    fr = parse_fraction(value)
    return abs(fr.numerator) >= DBL_LIT_LIMIT or fr.denominator >= DBL_LIT_LIMIT


def py_repr_float(fr: fractions.Fraction) -> str:
    """the oracle of the model: what repr(float(Fraction)) returns in the interpreter that runs nunavut (assumed: shortest decimal
    that reads back as the correctly rounded double; validated by float_model_ok on every out-of-range constant)"""
    try:
        return repr(float(fr))
    except OverflowError:
        return 'inf'


FLOAT_RULE = ['limit']      # 'limit' | 'exact': the regenerated fact float_rule, asked from the extracted model at the start of a run


def py_is_exact_double(x: int) -> bool:
    try:
        return int(float(x)) == x
    except OverflowError:
        return False


def float_model_ok(t: typing.List[str], fr: fractions.Fraction, fe: typing.Optional[dict] = None) -> bool:
    """t = tokens of the model's answer `ok <expr> <num>/<den> div=<0|1>`: the division / integral form must denote the rational
    exactly; the oracle's decimal constant must read back as the correctly rounded double and be rendered verbatim"""
    if len(t) != 4 or t[0] != 'ok' or '/' not in t[2]:
        return False
    got = parse_fraction(t[2])
    if FLOAT_RULE[0] == 'exact':
        div = py_is_exact_double(fr.numerator) and py_is_exact_double(fr.denominator)
    else:
        limit = 2 ** 1023
        div = abs(fr.numerator) < limit and fr.denominator < limit
    if t[3] != 'div=%d' % (1 if div else 0):
        return False
    if fr.denominator == 1 or div:
        return got == fr and not float_lit_overflows('%d/%d' % (fr.numerator, fr.denominator))
    if fe is not None and fe.get('cert') != '1':
        return False          # the certificate of the oracle's decimal constant is checked in Coq (oracle_certified)
    return t[1] == py_repr_float(fr) and round_to_binary(got, 64) == round_to_binary(fr, 64)


def adopt_own_findings(chk: core.Check) -> None:
    """known_findings.json is merged by the lead from known_findings.d/*.json; until then read our own file as well"""
    p = os.path.join(core.VERIF, 'known_findings.d', 'C05.json')
    if os.path.exists(p):
        have = {e['id'] for e in chk.known}
        for e in json.load(open(p, encoding='utf-8'))['findings']:
            if e['id'] not in have and chk.prop in e['properties']:
                chk.known.append(e)


def probe_float_range(exe_codec: str) -> typing.Tuple[bool, str]:
    """does the witness of F-FLOAT-LIT-RANGE still reproduce?  gcc (-Werror -pedantic) rejects the out-of-range floating constant,
    clang evaluates it to infinity so that the exported constant becomes 0"""
    work = core.scratch('c05probe-')
    prep = campaign.prepare(dsdlgen.single(WITNESS_FILES), work, exe_codec)
    campaign.build_targets(prep, [('target_c', {'target_endianness': 'any'}), ('target_c', {'target_endianness': 'any', 'sanitize': True})],
                           core.REPO, max_workers=2)
    detail = []
    repro = False
    for lab, log in prep.build_failures:
        if 'floating constant exceeds range' in log or 'literal-range' in log:
            repro = True
            detail.append('%s: build rejected (floating constant exceeds range of double)' % lab)
        else:
            detail.append('%s: build failed for another reason: %s' % (lab, log[-200:]))
    tid = 'nsa.c05.KFloatOvf.1.0'
    for lab, tgt in prep.targets:
        got = tgt.run(['meta ' + tid])[0]
        n, probs, _ = check_meta(tgt, prep.db.comp(tid), got, {'xmeta': {}, 'consts': {}, 'port': {}})
        if any(p['key'] == 'const.DBL_MIN' for p in probs):
            repro = True
            detail.append('%s: DBL_MIN exported as %s' % (lab, kv(got).get('const.DBL_MIN')))
        else:
            detail.append('%s: DBL_MIN exported correctly' % lab)
    shutil.rmtree(work, ignore_errors=True)
    return repro, '; '.join(detail)


def max_value(rng, db: proto.TypeDB, t: dict):
    k = t['k']
    if k == 'void':
        return None
    if k in ('bool', 'uint', 'int', 'float'):
        return valgen.gen_prim(rng, t, rng.choice(['edge', 'max', 'rand']), set())
    if k == 'farr':
        return [max_value(rng, db, t['elem']) for _ in range(t['n'])]
    if k == 'varr':
        return [max_value(rng, db, t['elem']) for _ in range(t['cap'])]
    return max_comp(rng, db, db.comp(t['id']))


def min_value(rng, db: proto.TypeDB, t: dict):
    """a value of minimal serialized size (the Python twin of MetaC05TightThm.min_val): empty variable-length arrays, the union option of
    minimal size"""
    k = t['k']
    if k == 'void':
        return None
    if k in ('bool', 'uint', 'int', 'float'):
        return valgen.gen_prim(rng, t, rng.choice(['zero', 'edge', 'rand']), set())
    if k == 'farr':
        return [min_value(rng, db, t['elem']) for _ in range(t['n'])]
    if k == 'varr':
        return []
    return min_comp(rng, db, db.comp(t['id']))


def min_comp(rng, db: proto.TypeDB, c: dict):
    if c['kind'] == 'union':
        i = min(range(len(c['fields'])), key=lambda j: (c['fields'][j]['type']['min_bits'], j))
        return {'tag': i, 'value': min_value(rng, db, c['fields'][i]['type'])}
    return [min_value(rng, db, f['type']) for f in c['fields']]


def max_comp(rng, db: proto.TypeDB, c: dict):
    if c['kind'] == 'union':
        i = max(range(len(c['fields'])), key=lambda j: (c['fields'][j]['type']['max_bits'], j))
        return {'tag': i, 'value': max_value(rng, db, c['fields'][i]['type'])}
    return [max_value(rng, db, f['type']) for f in c['fields']]


# ------------------------------------------------------------------------------------------------
# the model
# ------------------------------------------------------------------------------------------------

class Model5:
    def __init__(self, exe: str, db: proto.TypeDB):
        self.exe, self.db = exe, db
        self.defs = modelmod.def_lines(db)

    def run(self, requests: typing.List[str]) -> typing.List[str]:
        if not requests:
            return []
        p = core.run([self.exe], input='\n'.join(self.defs + list(requests)) + '\n', timeout=600)
        lines = p.stdout.splitlines()
        nd = len(self.defs)
        if len(lines) < nd or any(l != 'ok' for l in lines[:nd]):
            return ['crash model rejected the type database'] * len(requests)
        res = lines[nd:nd + len(requests)]
        return res + ['crash model died'] * (len(requests) - len(res))


def kv(resp: str) -> typing.Dict[str, str]:
    out = {}
    for tok in resp.split()[1:]:
        if '=' in tok:
            a, b = tok.split('=', 1)
            out[a] = b
    return out


def model_expected(m5: Model5, db: proto.TypeDB, tids: typing.List[str]) -> typing.Tuple[typing.Dict[str, dict], typing.List[dict], int]:
    """per type: the model's exported values per target family; plus model-vs-pydsdl disagreements (model or spec wrong)"""
    out: typing.Dict[str, dict] = {}
    bad: typing.List[dict] = []
    n = 0
    xm = m5.run(['xmeta ' + t for t in tids])
    lit_reqs, lit_idx, fev_reqs = [], [], []
    for tid in tids:
        for k in db.comp(tid)['constants']:
            kt = k['type']
            if kt['k'] in ('uint', 'int'):
                lit_reqs.append('lit %s %d %d' % ('u' if kt['k'] == 'uint' else 's', kt['w'], int_value(k['value'])))
                lit_idx.append((tid, k['name'], kt, k['value']))
            elif kt['k'] == 'float':
                fr = parse_fraction(k['value'])
                lit_reqs.append('flt %d %d %s' % (fr.numerator, fr.denominator, py_repr_float(fr)))
                lit_idx.append((tid, k['name'], kt, k['value']))
                fev_reqs.append('feval %d %d %s' % (fr.numerator, fr.denominator, py_repr_float(fr)))
    lits = m5.run(lit_reqs)
    fevs = iter(m5.run(fev_reqs))
    ports = {}
    for fam in ('c', 'cpp', 'py'):
        rs = m5.run(['port %s %s' % (fam, 'none' if pydsdl_expected(db.comp(t))['port_id'] is None else pydsdl_expected(db.comp(t))['port_id'])
                     for t in tids])
        for t, r in zip(tids, rs):
            ports.setdefault(t, {})[fam] = r.split()[1] if r.startswith('ok ') else '?'
    names = m5.run(['names %s %d %d' % (db.comp(t)['full_name'], db.comp(t)['major'], db.comp(t)['minor']) for t in tids])
    for tid, r, nm in zip(tids, xm, names):
        c = db.comp(tid)
        d = kv(r) if r.startswith('ok') else {}
        out[tid] = {'xmeta': d, 'consts': {}, 'port': ports.get(tid, {}), 'names': nm.split()[1:]}
        if nm.split()[1:] != [c['full_name'], '%s.%d.%d' % (c['full_name'], c['major'], c['minor'])]:
            bad.append({'tid': tid, 'model': nm, 'problems': ['full name / version strings rendered by the model differ from the DSDL ones']})
        want = pydsdl_expected(c)
        wp = 'none' if want['port_id'] is None else str(want['port_id'])
        if any(v != wp for v in ports.get(tid, {}).values()):
            bad.append({'tid': tid, 'model': ports.get(tid), 'problems': ['exported port id %s, DSDL says %s' % (ports.get(tid), wp)]})
        caps = [want[k] for k in want if k.startswith('cap.')]
        mcaps = [] if d.get('c.caps', '-') == '-' else d['c.caps'].split(',')
        n += 1
        probs = []
        if d.get('wf') != '1':
            probs.append('wf_ty is false')
        for key, wkey in (('c.extent_bytes', 'extent_bytes'), ('cpp.extent_bytes', 'extent_bytes'), ('py.extent_bytes', 'extent_bytes'),
                          ('c.buffer_bytes', 'buffer_bytes'), ('cpp.buffer_bytes', 'buffer_bytes')):
            if d.get(key) != str(want[wkey]):
                probs.append('%s=%s, pydsdl says %s' % (key, d.get(key), want[wkey]))
        if c['kind'] == 'union' and (d.get('c.union_count') != str(want['union_count']) or d.get('cpp.union_count') != str(want['union_count'])):
            probs.append('union_count %s/%s, pydsdl says %s' % (d.get('c.union_count'), d.get('cpp.union_count'), want['union_count']))
        if mcaps != [str(x) for x in caps]:
            probs.append('caps %s, pydsdl says %s' % (mcaps, caps))
        if probs:
            bad.append({'tid': tid, 'model': r, 'problems': probs})
    for (tid, name, kt, value), r in zip(lit_idx, lits):
        t = r.split()
        n += 1
        if kt['k'] in ('uint', 'int'):
            # ok <token> <dm1> <dm2> <dm3>: every data model must denote the value, with the right signedness and width
            good = len(t) == 5 and t[0] == 'ok'
            for dm in t[2:]:
                p = dm.split(':')
                good = good and len(p) == 3 and p[2] == str(int_value(value)) and p[1] == ('u' if kt['k'] == 'uint' else 's') and int(p[0]) >= kt['w']
            out[tid]['consts'][name] = {'token': t[1].replace('_', ' ') if len(t) > 1 else None, 'value': str(int_value(value)) if good else None}
            if not good:
                bad.append({'tid': tid, 'constant': name, 'model': r, 'problems': ['translated filter_literal does not denote %s' % value]})
        else:
            fr = parse_fraction(value)
            fe = kv(next(fevs, ''))
            good = float_model_ok(t, fr, fe)
            out[tid]['consts'][name] = {'token': t[1].replace('_', ' ') if len(t) > 1 else None, 'value': value if good else None,
                                        'feval': fe, 'div': len(t) == 4 and t[3] == 'div=1'}
            if not good:
                bad.append({'tid': tid, 'constant': name, 'model': r, 'problems': ['translated float expression does not denote %s' % value]})
    return out, bad, n


# ------------------------------------------------------------------------------------------------
# translator self-test: translated Gallina (extracted) vs. the original Python functions of /repo
# ------------------------------------------------------------------------------------------------

def translator_selftest(chk: core.Check, exe5: str) -> typing.Tuple[int, typing.List[dict]]:
    rng = chk.rng
    b2b = list(range(-3, 70)) + [rng.randrange(0, 2 ** 40) for _ in range(40)]
    fit = list(range(-2, 70)) + [128, 1000]
    lit: typing.List[typing.List[typing.Any]] = []
    for w in range(1, 65):
        for v in {0, 2 ** w - 1, rng.randrange(2 ** w)}:
            lit.append([True, w, str(v)])
        if w >= 2:
            lo, hi = -2 ** (w - 1), 2 ** (w - 1) - 1
            for v in {lo, hi, -1, rng.randint(lo, hi)}:
                lit.append([False, w, str(v)])
    flt = []
    for _ in range(60 if chk.tier == 'quick' else 400):
        n = rng.choice([0, 1, -1, rng.randint(-10 ** 6, 10 ** 6), rng.randint(-10 ** 30, 10 ** 30)])
        d = rng.choice([1, 1, 3, 10, rng.randint(1, 10 ** 6), 10 ** rng.randint(1, 60)])
        fr = fractions.Fraction(n, d)
        flt.append([rng.choice([16, 32, 64]), str(fr.numerator), str(fr.denominator)])
    for n, d in ((11125369292536007, 5 * 10 ** 323), (1, 10 ** 310), (1, 2 ** 1023), (1, 2 ** 1023 - 1), (2 ** 1023, 3), (2 ** 1023 - 1, 3),
                 (-(2 ** 1023) - 1, 7), (24703282292062327, 5 * 10 ** 339), (10 ** 400 + 1, 10 ** 400), (3, 2 ** 1074)):
        fr = fractions.Fraction(n, d)
        flt.append([64, str(fr.numerator), str(fr.denominator)])
    sto = [['b', 1, 's'], ['v', 5, 's'], ['v', 64, 's'], ['f', 16, 's'], ['f', 16, 't'], ['f', 32, 's'], ['f', 64, 't']]
    for w in range(1, 65):
        sto.append(['u', w, rng.choice(['s', 't'])])
        if w >= 2:
            sto.append(['s', w, 's'])
    flt32_samples: typing.List[fractions.Fraction] = []
    exact_ints = [0, 1, -1, 2 ** 53, 2 ** 53 + 1, 2 ** 53 + 2, -(2 ** 53) - 1, 2 ** 1023, 2 ** 1024 - 2 ** 970, 2 ** 1024 - 2 ** 970 - 1,
                  2 ** 1024, 10 ** 400, 3 * 2 ** 1000, 5 * 10 ** 323] + [rng.randint(-2 ** 70, 2 ** 70) for _ in range(60)] + \
                 [rng.randint(1, 2 ** 53) * 2 ** rng.randint(0, 980) for _ in range(40)]
    bad: typing.List[dict] = []
    total = 0
    m5 = Model5(exe5, proto.TypeDB({'types': []}))
    rule = m5.run(['rule'])[0].split()
    FLOAT_RULE[0] = rule[1] if rule[:1] == ['ok'] and len(rule) == 2 else 'limit'
    mexact = m5.run(['exact %d' % x for x in exact_ints])
    for x, m in zip(exact_ints, mexact):
        total += 1
        if m != 'ok %d' % (1 if py_is_exact_double(x) else 0):
            bad.append({'function': 'exact64 (model of int(float(x)) == x)', 'argument': str(x), 'translated': m,
                        'python': py_is_exact_double(x)})
    # casts: a float32 / float16 constant is the double evaluation cast to float; the double rounding must stay within one binary32 ulp
    for _ in range(120 if chk.tier == 'quick' else 1500):
        a, b = rng.randint(1, 2 ** rng.randint(1, 70)), rng.randint(1, 2 ** rng.randint(1, 70))
        fr = fractions.Fraction(rng.choice([-1, 1]) * a, b)
        flt32_samples.append(fr)
    f32 = m5.run(['feval %d %d %s' % (fr.numerator, fr.denominator, py_repr_float(fr)) for fr in flt32_samples])
    for fr, r in zip(flt32_samples, f32):
        total += 1
        fe = kv(r)
        if not (fe.get('c32', '').isdigit() and abs(ordered(int(fe['c32']), 32) - ordered(int(fe['rn32']), 32)) <= 1
                and int(fe['rn32']) == round_to_binary(fr, 32) and int(fe['rn64']) == round_to_binary(fr, 64)):
            bad.append({'function': 'c_eval32 / rne (model of the (float) cast and of rounding)', 'argument': str(fr), 'translated': r,
                        'python': '%d %d' % (round_to_binary(fr, 32), round_to_binary(fr, 64))})
    mb2b = m5.run(['b2b %d' % n for n in b2b])
    mfit = m5.run(['fit %d' % w for w in fit])
    mlit = m5.run(['lit %s %d %s' % ('u' if u else 's', w, v) for u, w, v in lit])
    mflt = m5.run(['flt %s %s %s' % (n, d, py_repr_float(fractions.Fraction(int(n), int(d)))) for _, n, d in flt])
    for lang in ('c', 'cpp'):
        p = core.run([core.PY, os.path.join(core.VERIF, 'tools', 'harness', 'c05_impl.py')], env=core.repo_env(), timeout=300,
                     input=json.dumps({'b2b': b2b, 'fit': fit, 'lit': lit, 'flt': flt, 'sto': sto, 'exact': [str(x) for x in exact_ints], 'lang': lang}))
        try:
            impl = json.loads(p.stdout[p.stdout.index('{'):])
        except ValueError:
            return total, [{'what': 'implementation harness failed', 'log': p.stdout[-800:]}]
        for name, args, mod, imp in (('filter_bits2bytes_ceil', b2b, mb2b, impl['b2b']), ('_CFit.get_best_fit', fit, mfit, impl['fit'])):
            for a, m, i in zip(args, mod, imp):
                total += 1
                if m != 'ok ' + i:
                    bad.append({'function': name, 'argument': a, 'translated': m, 'python': i})
        if impl.get('exact') is not None:
            for x, m, i in zip(exact_ints, mexact, impl['exact']):
                total += 1
                if m != 'ok ' + i:
                    bad.append({'function': '_is_exact_double', 'argument': str(x), 'translated': m, 'python': i})
        if (impl.get('exact') is not None) != (FLOAT_RULE[0] == 'exact'):
            bad.append({'function': '_float_division_expr', 'argument': 'rule', 'translated': FLOAT_RULE[0],
                        'python': 'helper _is_exact_double %s' % ('present' if impl.get('exact') is not None else 'absent')})
        msto = m5.run(['sto %s %s %d %s' % (lang, k, w, cm) for k, w, cm in sto])
        for a, m, i in zip(sto, msto, impl['sto']):
            total += 1
            if m != 'ok ' + i:
                bad.append({'function': 'filter_type_from_primitive / is_saturated (%s)' % lang, 'argument': a, 'translated': m, 'python': i})
        for (u, w, v), m, i, sb in zip(lit, mlit, impl['lit'], impl['std']):
            total += 1
            t = m.split()
            if len(t) < 2 or t[1] != i.replace(' ', '_'):
                bad.append({'function': 'filter_literal (integer)', 'argument': [u, w, v], 'translated': m, 'python': i})
        for (w, n, d), m, i in zip(flt, mflt, impl['flt']):
            total += 1
            t = m.split()
            ctype = 'double' if w == 64 else 'float'
            want = impl['cast_format'].format(type=ctype, value=t[1].replace('_', ' ') if len(t) > 1 else '?')
            if i != want or not float_model_ok(t, fractions.Fraction(int(n), int(d)), None):
                bad.append({'function': 'filter_literal (float)', 'argument': [w, n, d], 'translated': m, 'python': i, 'lang': lang})
    return total, bad


# ------------------------------------------------------------------------------------------------
# comparisons
# ------------------------------------------------------------------------------------------------

FAMILY = {'c': 'c', 'cpp': 'cpp', 'py': 'py'}


def check_meta(tgt: proto.Target, c: dict, got: str, mexp: dict, known_ok: bool = False) -> typing.Tuple[int, typing.List[dict], typing.List[str]]:
    """returns (number of compared values, problems, strata)"""
    want = pydsdl_expected(c)
    fam = FAMILY[tgt.name]
    probs: typing.List[dict] = []
    strata: typing.List[str] = []
    if not got.startswith('ok'):
        return 0, [{'key': '*', 'got': got, 'pydsdl': None, 'model': None}], strata
    d = kv(got)
    n = 0
    xm = mexp['xmeta']
    for key in ('extent_bytes', 'buffer_bytes'):
        if key in d:
            n += 1
            mv = xm.get('%s.%s' % (fam, key))
            if d[key] != str(want[key]) or (mv is not None and d[key] != mv):
                probs.append({'key': key, 'got': d[key], 'pydsdl': want[key], 'model': mv, 'impl_wrong': d[key] != str(want[key])})
    if 'extent_bytes' in d and 'buffer_bytes' in d and d['buffer_bytes'].isdigit() and d['extent_bytes'].isdigit():
        n += 1
        if int(d['buffer_bytes']) > int(d['extent_bytes']):
            probs.append({'key': 'buffer_bytes<=extent_bytes', 'got': (d['buffer_bytes'], d['extent_bytes']), 'pydsdl': None, 'model': None})
    for key in ('full_name', 'major', 'minor'):
        if key in d:
            n += 1
            if d[key] != str(want[key]):
                probs.append({'key': key, 'got': d[key], 'pydsdl': want[key], 'model': None})
    if 'port_id' in d:
        n += 1
        w = 'none' if want['port_id'] is None else str(want['port_id'])
        if d['port_id'] != w and not (tgt.name == 'py' and c.get('service_part') and d['port_id'] == 'none'):
            probs.append({'key': 'port_id', 'got': d['port_id'], 'pydsdl': w, 'model': mexp.get('port', {}).get(fam)})
        strata.append('port_%s' % (w if w in ('none', '0', '1', '511', '8191') else 'other'))
        strata.append('port_fixed' if want['port_id'] is not None else 'port_none')
    caps = [k for k in want if k.startswith('cap.')]
    mcaps = [] if xm.get('c.caps', '-') == '-' else xm['c.caps'].split(',')
    for i, key in enumerate(caps):
        if key in d:
            n += 1
            mv = mcaps[i] if i < len(mcaps) else None
            if d[key] != str(want[key]) or (mv is not None and d[key] != mv):
                probs.append({'key': key, 'got': d[key], 'pydsdl': want[key], 'model': mv, 'impl_wrong': d[key] != str(want[key])})
    if c['kind'] == 'union' and 'union_count' in d:
        n += 1
        mv = xm.get(('cpp' if fam == 'cpp' else 'c') + '.union_count')
        if d['union_count'] != str(want['union_count']) or (mv is not None and fam != 'py' and d['union_count'] != mv):
            probs.append({'key': 'union_count', 'got': d['union_count'], 'pydsdl': want['union_count'], 'model': mv})
    for k in c['constants']:
        key = 'const.' + k['name']
        if key not in d:
            probs.append({'key': key, 'got': None, 'pydsdl': k['value'], 'model': None, 'note': 'constant not exported'})
            continue
        n += 1
        ok, shown, cls = const_ok(k['type'], k['value'], d[key], tgt.name, mexp['consts'].get(k['name']))
        strata.append('const_%s%s' % (k['type']['k'], k['type'].get('w', '')))
        if cls == 'operand-rounding':
            strata.append('known:' + OPERAND_ROUNDING)
            if known_ok:
                continue
            cls = 'impl'
        if not ok:
            probs.append({'key': key, 'got': d[key], 'pydsdl': shown, 'model': mexp['consts'].get(k['name']), 'dsdl_value': k['value'],
                          'dsdl_type': '%s%s' % (k['type']['k'], k['type'].get('w', '')), 'impl_wrong': cls == 'impl'})
    return n, probs, strata


def check_probe(fam: str, c: dict, got: typing.Dict[str, str], flags: typing.Dict[str, str]) -> typing.Tuple[int, typing.List[dict]]:
    """values read from COMPILED code by tools/harness/c05_probe.py vs. the DSDL definition (pydsdl) and the model's flags"""
    want = pydsdl_expected(c)
    port = want['port_id']
    exp: typing.Dict[str, str] = {'has': '1' if port is not None else '0', 'port': 'none' if port is None else str(port),
                                  'ext': str(want['extent_bytes']), 'buf': str(want['buffer_bytes'])}
    if fam == 'c':
        exp['name'] = c['full_name']
        exp['namever'] = '%s.%d.%d' % (c['full_name'], c['major'], c['minor'])
        for f in c['fields']:
            if f['type']['k'] in ('farr', 'varr'):
                exp['cap.' + f['name']] = str(f['type']['n'] if f['type']['k'] == 'farr' else f['type']['cap'])
                exp['var.' + f['name']] = '1' if f['type']['k'] == 'varr' else '0'
    else:
        exp['svc'] = '1' if c.get('service_part') else '0'
        if c.get('service_part'):
            exp.update({'req': '1' if c['service_part'] == 'Request' else '0', 'rsp': '1' if c['service_part'] == 'Response' else '0', 'issvc': '0'})
    if c['kind'] == 'union':
        exp['count'] = str(len(c['fields']))
    probs = []
    for k, v in exp.items():
        if got.get(k) != v:
            probs.append({'key': k, 'got': got.get(k), 'pydsdl': v, 'model': flags.get(k), 'impl_wrong': True})
    for k, v in flags.items():            # model (scanned branches) vs. DSDL
        if k in exp and v != exp[k] and not any(p['key'] == k for p in probs):
            probs.append({'key': k, 'got': got.get(k), 'pydsdl': exp[k], 'model': v, 'impl_wrong': got.get(k) != exp[k]})
    extra = set(got) - set(exp)
    if extra:
        probs.append({'key': 'unexpected keys', 'got': sorted(extra), 'pydsdl': None, 'model': None, 'impl_wrong': True})
    return len(exp), probs


def needed_files(prep, tid: str) -> typing.Dict[str, str]:
    need = set()

    def visit(t):
        if t in need:
            return
        need.add(t)
        for fl in prep.db.comp(t)['fields']:
            for r in modelmod.refs_of(fl['type']):
                visit(r)
        for other in prep.db.ids():     # the sibling part of a service lives in the same file
            if prep.db.comp(other)['source'] == prep.db.comp(t)['source']:
                if other not in need:
                    visit(other)
    visit(tid)
    srcs = {prep.db.comp(t)['source'] for t in need}
    return {k: v for k, v in prep.spec['files'].items() if k in srcs} or dict(prep.spec['files'])


def strip_constants(text: str, keep: typing.Optional[str]) -> str:
    out = []
    for line in text.split('\n'):
        m = re.match(r'\s*(?:saturated\s+|truncated\s+)?(?:u?int\d+|float\d+|bool)\s+([A-Za-z_]\w*)\s*=', line)
        if m and m.group(1) != keep:
            continue
        out.append(line)
    return '\n'.join(out)


def rerun_single(files: typing.Dict[str, str], modname: str, options: dict, exe_codec: str, request_of) -> typing.Tuple[typing.Optional[campaign.Prepared], typing.Optional[proto.Target], str]:
    work = core.scratch('c05shrink-')
    try:
        prep = campaign.prepare(dsdlgen.single(files), work, exe_codec)
    except Exception as ex:  # noqa: BLE001
        return None, None, 'front end rejected the reduced namespace: %r' % (ex,)
    campaign.build_targets(prep, [(modname, options)], core.REPO, max_workers=1)
    if not prep.targets:
        return prep, None, 'build failed: %s' % (prep.build_failures[:1] or prep.unavailable)
    return prep, prep.targets[0][1], ''


# ------------------------------------------------------------------------------------------------
# main
# ------------------------------------------------------------------------------------------------

def matrix_for(tier: str, rng) -> typing.List[typing.Tuple[str, dict]]:
    # one build per target family with --enable-serialization-asserts (NUNAVUT_ASSERT = assert: a failing size assert aborts = crash)
    m = [('target_c', {'target_endianness': 'any', 'enable_serialization_asserts': True}),
         ('target_c', {'target_endianness': 'little', 'sanitize': True}),
         ('target_cpp', {'target_endianness': 'any', 'std': 'c++14', 'enable_serialization_asserts': True}),
         ('target_cpp', {'target_endianness': 'little', 'std': 'c++17', 'sanitize': True}),
         ('target_py', {})]
    if tier != 'quick':
        m += [('target_c', {'target_endianness': 'big', 'enable_serialization_asserts': True}),
              ('target_cpp', {'target_endianness': 'big', 'std': 'c++20', 'enable_serialization_asserts': True}),
              ('target_cpp', {'target_endianness': 'any', 'std': 'c++17-pmr'})]
    return m


def caps_for(tier: str, rng, maxb: int) -> typing.List[int]:
    if (tier != 'quick' and maxb <= 4096) or maxb <= 48:
        return list(range(0, maxb + 2))
    if maxb > 4096:
        return sorted({0, 1, maxb // 2, maxb - 1, maxb, maxb + 1, rng.randint(0, maxb)})
    s = set(range(0, 12)) | set(range(maxb - 6, maxb + 2)) | {rng.randint(0, maxb) for _ in range(10)}
    return sorted(x for x in s if x >= 0)


def main(chk: core.Check, replay: typing.Optional[str] = None) -> int:
    t_start = time.time()
    res = core.coq_check(PROP, ['c05', 'c01', 'codec_tpl'])
    chk.proof_coverage(res, TRUSTED)
    broken: typing.List[str] = []
    if not res.ok:
        broken.append('proof obligation: %s %s' % (res.failed_file or 'translator', res.failed_theorem or ''))
    ok5, exe5, log5 = core.build_extracted('c05', 'ExtractC05.v', 'c05_driver.ml') if res.ok or os.path.exists(
        os.path.join(core.COQ, 'theories', 'Gen', 'MetaC05.vo')) else (False, '', 'model not built')
    if not ok5:
        broken.append('C05 model does not build/extract: ' + log5[-300:])
    okc, exe_codec, logc = modelmod.build()
    if not okc:
        broken.append('wire specification does not build/extract: ' + logc[-300:])
    if replay:
        return run_replay(chk, replay, exe5 if ok5 else None, exe_codec if okc else None)

    adopt_own_findings(chk)
    float_quirk = False
    if okc:
        float_quirk, probe_detail = probe_float_range(exe_codec)
        chk.notes.append('probe %s: %s' % (FLOAT_RANGE, probe_detail))
        if float_quirk and chk.is_known(FLOAT_RANGE):
            chk.report_known(FLOAT_RANGE, probe_detail[:160])
    clash_repro, clash_detail = c05_probe.probe_macro_clash(core.REPO, core.scratch('c05clash-'))
    chk.notes.append('probe %s: %s' % (MACRO_CLASH, clash_detail))
    if clash_repro and chk.is_known(MACRO_CLASH):
        chk.report_known(MACRO_CLASH, clash_detail[:120])
    rounds = 1 if chk.tier == 'quick' else 6
    n_types = 14 if chk.tier == 'quick' else 34
    stats: typing.Dict[str, typing.Any] = {'types': 0, 'builds': [], 'meta_values_compared': 0, 'model_values_vs_pydsdl': 0, 'ser_requests': 0,
                                           'too_small_expected': 0, 'ok_expected': 0, 'tight_max_values': 0, 'strata': {},
                                           'constants': 0, 'float_constants': 0, 'services_parts': 0, 'delimited': 0, 'fixed_port_types': 0,
                                           'unavailable_targets': []}
    failures: typing.List[dict] = []
    samples: typing.List[dict] = []
    distinct = set()
    evaluations = validated = 0

    if ok5:
        n_st, bad_st = translator_selftest(chk, exe5)
        chk.notes.append('float division rule regenerated from _float_division_expr: %s -> live obligation: %s' % (
            FLOAT_RULE[0], 'c05_float64_one_ulp (positive, every rational constant)' if FLOAT_RULE[0] == 'exact'
            else 'c05_float64_one_ulp_refuted (finding F-FLOAT-OPERAND-ROUNDING) + c05_float64_exact_operands_correct'))
        chk.coverage['live_float_obligation'] = 'c05_float64_one_ulp' if FLOAT_RULE[0] == 'exact' else 'c05_float64_one_ulp_refuted'
        stats['translator_selftest_compared'] = n_st
        evaluations += n_st
        for b in bad_st[:1]:
            failures.append({'kind': 'translator-selftest', 'detail': b, 'all': bad_st[:10]})

    for rnd in range(rounds):
        if not okc:
            break
        work = core.scratch('c05-')
        spec = dsdlgen.generate(chk.rng, n_types=n_types, budget=1600 if chk.tier == 'quick' else 2400)
        spec['files'].update(c05_files(chk.rng, tiny_f64=not float_quirk))
        prep = campaign.prepare(spec, work, exe_codec)
        db = prep.db
        tids = db.ids()
        stats['types'] += len(tids)
        for tid in tids:
            c = db.comp(tid)
            stats['constants'] += len(c['constants'])
            stats['float_constants'] += sum(1 for k in c['constants'] if k['type']['k'] == 'float')
            stats['services_parts'] += 1 if c.get('service_part') else 0
            stats['delimited'] += 0 if c['sealed'] else 1
            stats['fixed_port_types'] += 1 if pydsdl_expected(c)['port_id'] is not None else 0

        # Spec/Meta.v vs pydsdl (bit level), C05 model vs pydsdl (exported values, literals)
        nmeta, badm = campaign.meta_crosscheck(prep)
        for b in badm[:1]:
            failures.append({'kind': 'spec-vs-pydsdl-meta', 'detail': b, 'files': spec['files']})
        mexp: typing.Dict[str, dict] = {tid: {'xmeta': {}, 'consts': {}, 'port': {}} for tid in tids}
        if ok5:
            m5 = Model5(exe5, db)
            mexp, bad5, n5 = model_expected(m5, db, tids)
            stats['model_values_vs_pydsdl'] += n5
            for b in bad5[:1]:
                failures.append({'kind': 'model-vs-pydsdl', 'detail': b, 'files': needed_files(prep, b['tid'])})

        campaign.build_targets(prep, matrix_for(chk.tier, chk.rng), core.REPO)
        stats['unavailable_targets'] = sorted(set(stats['unavailable_targets']) | set(prep.unavailable))
        for lab, logtxt in prep.build_failures:
            failures.append({'kind': 'build-failure', 'label': lab, 'log': logtxt, 'files': spec['files'], '_prep': prep})

        # ---- A. metadata ----
        meta_reqs = ['meta ' + t for t in tids]

        def run_meta(item):
            lab, tgt = item
            try:
                return lab, tgt, tgt.run(meta_reqs, timeout=300.0)
            except Exception as ex:  # noqa: BLE001
                return lab, tgt, ['crash runner raised %r' % (ex,)] * len(meta_reqs)

        with concurrent.futures.ThreadPoolExecutor(max_workers=6) as ex:
            meta_results = list(ex.map(run_meta, prep.targets))
        for lab, tgt, outs in meta_results:
            stats['builds'].append(lab)
            for tid, got in zip(tids, outs):
                evaluations += 1
                n, probs, strata = check_meta(tgt, db.comp(tid), got, mexp[tid], known_ok=chk.is_known(OPERAND_ROUNDING))
                if 'known:' + OPERAND_ROUNDING in strata and chk.is_known(OPERAND_ROUNDING):
                    stats['known_finding_instances'] = stats.get('known_finding_instances', 0) + 1
                    chk.report_known(OPERAND_ROUNDING, 'e.g. %s on %s' % (tid, lab))
                validated += n
                stats['meta_values_compared'] += n
                for s in strata:
                    stats['strata'][s] = stats['strata'].get(s, 0) + 1
                    distinct.add((tid, s, tgt.name))
                wrong = [p for p in probs if p.get('impl_wrong', True)]
                if probs and not wrong and not any(f['kind'] == 'model-vs-impl' for f in failures):
                    failures.append({'kind': 'model-vs-impl', 'label': lab, 'tid': tid, 'problems': probs, 'got': got,
                                     'files': needed_files(prep, tid)})
                probs = wrong
                if probs:
                    nf = len(needed_files(prep, tid))
                    old = [f for f in failures if f['kind'] == 'meta' and f['label'] == lab]
                    if old and old[0]['_nfiles'] <= nf:
                        continue
                    for f in old:
                        failures.remove(f)
                    failures.append({'_nfiles': nf, 'kind': 'meta', 'label': lab, 'target': tgt.name, 'options': tgt.options, 'tid': tid, 'request': 'meta ' + tid,
                                     'problems': probs, 'got': got, '_prep': prep, '_tgt': tgt})
        for tid in tids[:6]:
            if len(samples) < 24 and meta_results:
                samples.append({'request': 'meta ' + tid, 'target': meta_results[0][0], 'got': meta_results[0][2][tids.index(tid)][:400]})

        # ---- A2. every exported macro / constexpr read from compiled code (probe) ----
        probed = set()
        for lab, tgt in prep.targets:
            if tgt.name not in ('c', 'cpp') or (chk.tier == 'quick' and tgt.name in probed):
                continue
            probed.add(tgt.name)
            okp, res_p = (c05_probe.probe_c if tgt.name == 'c' else c05_probe.probe_cpp)(tgt, db)
            if not okp:
                failures.append({'kind': 'probe-build', 'label': lab, 'log': res_p, 'files': spec['files']})
                continue
            if tgt.name == 'cpp':
                msf = kv(m5.run(['svcflags'])[0]) if ok5 else {}
                for sid in c05_probe.services(db):
                    got_s = res_p.get('svc:' + sid, {})
                    want_s = {'svc': '1', 'issvc': '1', 'req': '0', 'rsp': '0', 'reqalias': '1', 'rspalias': '1'}
                    evaluations += 1
                    validated += len(want_s)
                    stats['probe_values_compared'] = stats.get('probe_values_compared', 0) + len(want_s)
                    bad_s = [{'key': k, 'got': got_s.get(k), 'pydsdl': v, 'model': msf.get(k), 'impl_wrong': True} for k, v in want_s.items()
                             if got_s.get(k) != v]
                    bad_m = [{'key': k, 'got': got_s.get(k), 'pydsdl': want_s[k], 'model': v, 'impl_wrong': False} for k, v in msf.items()
                             if k in want_s and v != want_s[k]]
                    if (bad_s or bad_m) and not any(f['kind'] in ('probe', 'model-vs-impl') and f.get('tid') == sid for f in failures):
                        stid = next(t for t in tids if db.comp(t).get('service_id') == sid)
                        failures.append({'_nfiles': len(needed_files(prep, stid)), 'kind': 'probe' if bad_s else 'model-vs-impl', 'label': lab,
                                         'target': 'cpp', 'options': tgt.options, 'tid': sid, 'request': 'probe service ' + sid,
                                         'problems': bad_s or bad_m, 'got': got_s, 'files': needed_files(prep, stid)})
            freqs = []
            for tid in tids:
                pe = pydsdl_expected(db.comp(tid))['port_id']
                sp = '1' if db.comp(tid).get('service_part') else '0'
                freqs.append('flag %s has %s %s' % (tgt.name, 'none' if pe is None else pe, sp))
                if tgt.name == 'cpp':
                    freqs.append('flag cpp svc %s %s' % ('none' if pe is None else pe, sp))
            fres = iter(m5.run(freqs)) if ok5 else iter([])
            for tid in tids:
                flags = {}
                if ok5:
                    flags['has'] = next(fres, 'ok ?').split()[-1]
                    if tgt.name == 'cpp':
                        flags['svc'] = next(fres, 'ok ?').split()[-1]
                n, probs = check_probe(tgt.name, db.comp(tid), res_p.get(tid, {}), flags)
                evaluations += 1
                validated += n
                stats['probe_values_compared'] = stats.get('probe_values_compared', 0) + n
                wrong = [p for p in probs if p.get('impl_wrong', True)]
                if probs and not wrong and not any(f['kind'] == 'model-vs-impl' for f in failures):
                    failures.append({'kind': 'model-vs-impl', 'label': lab, 'tid': tid, 'problems': probs, 'files': needed_files(prep, tid)})
                if wrong:
                    nf = len(needed_files(prep, tid))
                    oldf = [f for f in failures if f['kind'] == 'probe' and f['label'] == lab]
                    if oldf and oldf[0]['_nfiles'] <= nf:
                        continue
                    for f in oldf:
                        failures.remove(f)
                    failures.append({'_nfiles': nf, 'kind': 'probe', 'label': lab, 'target': tgt.name, 'options': tgt.options, 'tid': tid,
                                     'request': 'probe ' + tid, 'problems': wrong, 'got': res_p.get(tid), 'files': needed_files(prep, tid),
                                     'dsdl_of_failing_type': prep.spec['files'].get(db.comp(tid)['source'], '')})

        # Python service classes (py/templates/ServiceType.j2): _FIXED_PORT_ID_ read from the imported generated modules
        for lab, tgt in [(lab, tgt) for lab, tgt in prep.targets if tgt.name == 'py']:
            okp, res_s = c05_probe.probe_py_services(tgt, db)
            if not okp:
                failures.append({'kind': 'probe-build', 'label': lab, 'log': res_s, 'files': spec['files']})
                continue
            for sid, parts in c05_probe.services(db).items():
                want_p = port_of_source(parts['Request']['source'])
                w = 'none' if want_p is None else str(want_p)
                mp = m5.run(['svcport %s' % w])[0].split()[-1] if ok5 else None
                got_s = res_s.get(sid, {})
                evaluations += 1
                validated += 3
                probs = [{'key': k, 'got': got_s.get(k), 'pydsdl': v, 'model': mp if k == 'port' else None, 'impl_wrong': True}
                         for k, v in (('port', w), ('has_req', '1'), ('has_rsp', '1')) if got_s.get(k) != v]
                if mp is not None and mp != w and not probs:
                    failures.append({'kind': 'model-vs-impl', 'label': lab, 'tid': sid, 'problems': [{'key': 'port', 'model': mp, 'pydsdl': w}],
                                     'files': needed_files(prep, parts['Request']['id'])})
                if probs and not any(f['kind'] == 'probe' and f['label'] == lab for f in failures):
                    failures.append({'_nfiles': 1, 'kind': 'probe', 'label': lab, 'target': 'py', 'options': tgt.options, 'tid': sid,
                                     'request': 'probe service ' + sid, 'problems': probs, 'got': got_s,
                                     'files': needed_files(prep, parts['Request']['id'])})
        # the macro names of every generated type are pairwise distinct (premise of c05_c_header_effective_partial), per the model
        if ok5:
            dreqs = []
            for tid in tids:
                cc = db.comp(tid)
                cn = ','.join(k['name'] for k in cc['constants']) or '-'
                fn = ','.join(f['name'] for f in cc['fields'] if f['type']['k'] in ('farr', 'varr')) or '-'
                dreqs.append('distinct %s %s' % (cn, fn))
            for tid, r in zip(tids, m5.run(dreqs)):
                evaluations += 1
                if r != 'ok 1' and not any(f['kind'] == 'macro-names-not-distinct' for f in failures):
                    failures.append({'kind': 'macro-names-not-distinct', 'tid': tid, 'model': r, 'files': needed_files(prep, tid)})

        # ---- B. capacities 0..max+1 on C and C++ ----
        ser_cases = []
        for tid in tids:
            c = db.comp(tid)
            maxb = (c['meta']['max_bits'] + 7) // 8
            v = max_comp(chk.rng, db, c)
            for cap in caps_for(chk.tier, chk.rng, maxb):
                ser_cases.append((tid, v, cap, maxb))
            # a value of MINIMAL size (lower-bound asserts of the generated code, shortest delimited payloads) into the advertised buffer
            ser_cases.append((tid, min_comp(chk.rng, db, c), maxb, maxb))
        reqs = [prep.model.ser_req(tid, v, cap, 'f') for tid, v, cap, _ in ser_cases]
        spec_out = prep.model.run(reqs)
        capchk = m5.run(['capchk %s %d' % (tid, cap) for tid, _, cap, _ in ser_cases]) if ok5 else [''] * len(reqs)
        for (tid, v, cap, maxb), so, cc in zip(ser_cases, spec_out, capchk):
            want_small = cap < maxb
            stats['too_small_expected' if want_small else 'ok_expected'] += 1
            if (so.startswith('err too_small')) != want_small and not any(f['kind'] == 'spec-vs-pydsdl-capacity' for f in failures):
                failures.append({'kind': 'spec-vs-pydsdl-capacity', 'tid': tid, 'cap': cap, 'spec': so, 'max_bytes': maxb, 'files': needed_files(prep, tid)})
            if ok5 and kv(cc) != {'c': '1' if want_small else '0', 'cpp': '1' if want_small else '0'} \
                    and not any(f['kind'] == 'model-capcheck' for f in failures):
                failures.append({'kind': 'model-capcheck', 'tid': tid, 'cap': cap, 'model': cc, 'max_bytes': maxb, 'files': needed_files(prep, tid)})
            if not want_small and so.startswith('ok') and cap == maxb and int(so.split()[1]) == maxb:
                stats['tight_max_values'] += 1
            if not want_small and so.startswith('ok') and cap == maxb and int(so.split()[1]) == (db.comp(tid)['meta']['min_bits'] + 7) // 8:
                stats['tight_min_values'] = stats.get('tight_min_values', 0) + 1

        def run_ser(item):
            lab, tgt = item
            try:
                return lab, tgt, tgt.run(reqs, timeout=900.0)
            except Exception as ex:  # noqa: BLE001
                return lab, tgt, ['crash runner raised %r' % (ex,)] * len(reqs)

        ser_targets = [(lab, tgt) for lab, tgt in prep.targets if tgt.name in ('c', 'cpp')]
        with concurrent.futures.ThreadPoolExecutor(max_workers=6) as ex:
            ser_results = list(ex.map(run_ser, ser_targets))
        for lab, tgt, outs in ser_results:
            stats['ser_requests'] += len(outs)
            for (tid, v, cap, maxb), req, so, got in zip(ser_cases, reqs, spec_out, outs):
                evaluations += 1
                c = db.comp(tid)
                if got.startswith('err rejected'):
                    continue
                validated += 1
                want_small = cap < maxb
                problem = None
                if want_small:
                    if not got.startswith('err too_small'):
                        problem = 'capacity %d < %d = ceil(max_bits/8) must be refused with too_small' % (cap, maxb)
                    else:
                        distinct.add((tid, 'too_small', cap, tgt.name))
                else:
                    if got.startswith('err too_small') or got.startswith('crash'):
                        problem = 'capacity %d >= %d = ceil(max_bits/8) must suffice' % (cap, maxb)
                    elif got.startswith('ok'):
                        size = int(got.split()[1])
                        if size < (c['meta']['min_bits'] + 7) // 8:
                            problem = 'serialized size %d is below the minimum %d of the type' % (size, (c['meta']['min_bits'] + 7) // 8)
                        elif size > maxb or size > (c['extent_bits'] + 7) // 8 or size > cap:
                            problem = 'serialized size %d exceeds the advertised bound %d / extent %d / capacity %d' % (
                                size, maxb, (c['extent_bits'] + 7) // 8, cap)
                        elif so.startswith('ok') and not modelmod.same_ser(so, got, None) and not masked_same(prep, tid, v, so, got):
                            problem = 'bytes differ from the wire specification'
                        else:
                            distinct.add((tid, 'fits', cap - maxb, tgt.name))
                    elif so.startswith('err') and not modelmod.same_ser(so, got, None):
                        problem = 'error class differs from the specification (%s)' % so
                if problem and campaign.PMR_MOVE and tgt.options.get('std') == 'c++17-pmr' and 'bytes differ' in problem:
                    problem = None       # F-CPP-PMR-UNION-MOVE is C01's finding (object construction under pmr), not a size-bound matter
                if problem:
                    nf = len(needed_files(prep, tid))
                    oldf = [f for f in failures if f['kind'] == 'capacity' and f['label'] == lab]
                    if oldf and oldf[0]['_nfiles'] <= nf:
                        continue
                    for f in oldf:
                        failures.remove(f)
                    failures.append({'_nfiles': nf, 'kind': 'capacity', 'label': lab, 'target': tgt.name, 'options': tgt.options, 'tid': tid, 'cap_bytes': cap,
                                     'max_bytes': maxb, 'request': req, 'expected_spec': so, 'got': got, 'problem': problem, 'value': v,
                                     '_prep': prep, '_tgt': tgt})
        # Python: no caller-provided buffer; a value of maximal size must serialize (into the _EXTENT_BYTES_-sized buffer the generated
        # code allocates) to at most the advertised size, and to the size the specification says
        py_idx = [i for i, (tid, v, cap, maxb) in enumerate(ser_cases) if cap == maxb]
        for lab, tgt in [(lab, tgt) for lab, tgt in prep.targets if tgt.name == 'py']:
            try:
                outs = tgt.run([reqs[i] for i in py_idx], timeout=900.0)
            except Exception as ex:  # noqa: BLE001
                outs = ['crash runner raised %r' % (ex,)] * len(py_idx)
            stats['ser_requests'] += len(outs)
            for i, got in zip(py_idx, outs):
                tid, v, cap, maxb = ser_cases[i]
                so = spec_out[i]
                evaluations += 1
                if got.startswith('err rejected') or not so.startswith('ok'):
                    continue
                validated += 1
                problem = None
                if not got.startswith('ok'):
                    problem = 'a value of maximal size does not serialize on Python: %s' % got[:160]
                else:
                    size = int(got.split()[1])
                    if size > maxb or size > (db.comp(tid)['extent_bits'] + 7) // 8 or size != int(so.split()[1]):
                        problem = 'serialized size %d, advertised bound %d, specification %s' % (size, maxb, so.split()[1])
                    else:
                        distinct.add((tid, 'fits', 0, 'py'))
                if problem and not any(f['kind'] == 'capacity' and f['label'] == lab for f in failures):
                    failures.append({'_nfiles': len(needed_files(prep, tid)), 'kind': 'capacity', 'label': lab, 'target': 'py', 'options': tgt.options,
                                     'tid': tid, 'cap_bytes': cap, 'max_bytes': maxb, 'request': reqs[i], 'expected_spec': so, 'got': got,
                                     'problem': problem, 'value': v, '_prep': prep, '_tgt': tgt})
        for (tid, v, cap, maxb), req, so in list(zip(ser_cases, reqs, spec_out))[::max(1, len(reqs) // 12)]:
            if len(samples) < 40:
                samples.append({'request': req[:200], 'expected': so[:120], 'cap': cap, 'max_bytes': maxb})
        if failures:
            break
        shutil.rmtree(work, ignore_errors=True)

    stats['wall_s'] = round(time.time() - t_start, 1)
    chk.coverage.update({
        'evaluations': evaluations,
        'distinct_nontrivial': len(distinct),
        'rule': 'one evaluation = one meta or ser request answered by real generated code (C, C++, Python) and compared; distinct '
                'non-trivial = distinct (type, constant kind or port stratum, target family) for metadata plus distinct (type, outcome '
                'class, capacity, target family) for the capacity sweep',
        'samples': samples,
        'traces_validated_against_impl': validated,
        'distribution': stats,
    })
    chk.notes.append('targets exercised: %s; unavailable: %s' % (sorted(set(stats['builds'])), stats['unavailable_targets']))

    # ---- verdict ----
    reported = False
    if clash_repro and not chk.is_known(MACRO_CLASH):
        chk.violation({'what': 'a DSDL constant named like a metadata macro silently replaces the exported C metadata of its type',
                       'files': c05_probe.CLASH_FILES, 'target': 'c', 'options': {}, 'request': 'macro-clash', 'got': clash_detail,
                       'expected': 'ext=4 buf=4 rc=0', 'broken': broken}, found_input=True)
        reported = True
    if float_quirk and not chk.is_known(FLOAT_RANGE):
        chk.violation({'what': 'a float64 constant whose rational has a denominator beyond the range of double is exported with a wrong '
                               'value (clang) or rejected by the compiler (gcc -Werror)', 'files': WITNESS_FILES, 'target': 'c',
                       'options': {'target_endianness': 'any', 'sanitize': True}, 'request': 'meta nsa.c05.KFloatOvf.1.0',
                       'tid': 'nsa.c05.KFloatOvf.1.0', 'probe': probe_detail, 'broken': broken}, found_input=True)
        reported = True
    for f in failures:
        if f['kind'] in ('meta', 'capacity'):
            rep = shrink(f, exe_codec)
            rep['broken'] = broken
            rep['what'] = ('an exported constant of the generated %s code differs from the DSDL definition' % f['target']) if f['kind'] == 'meta' \
                else ('the generated %s serializer violates the size-bound contract' % f['target'])
            chk.violation(rep, found_input=True)
            reported = True
            break
    if not reported:
        for f in failures:
            if f['kind'] == 'probe':
                rep = {k: v for k, v in f.items() if not k.startswith('_')}
                rep['broken'] = broken
                rep['what'] = 'an exported macro / constexpr of the generated %s code, read from compiled code, differs from the DSDL definition' % f['target']
                chk.violation(rep, found_input=True)
                reported = True
                break
    if not reported:
        for f in failures:
            if f['kind'] == 'build-failure':
                rep = shrink_build(f, exe_codec)
                rep['broken'] = broken
                chk.violation(rep, found_input=rep.get('found_input', False))
                reported = True
                break
    if not reported:
        for f in failures:
            rep = {k: v for k, v in f.items() if not k.startswith('_')}
            rep['broken'] = broken
            rep['what'] = {'spec-vs-pydsdl-meta': 'Spec/Meta.v disagrees with the bit-length numbers pydsdl reports',
                           'model-vs-pydsdl': 'the C05 model (translated filters + template scan) disagrees with the DSDL definition',
                           'spec-vs-pydsdl-capacity': 'ser_spec disagrees with ceil(max_bits/8)',
                           'model-capcheck': 'the scanned capacity check disagrees with ceil(max_bits/8)',
                           'macro-names-not-distinct': 'two macros of a generated C header share a name (c_macros_distinct is false): the exported '
                                                       'values of that type are not the ones the model computes',
                           'model-vs-impl': 'the C05 model disagrees with the generated code although the code agrees with pydsdl '
                                            '(model or template scan out of date)',
                           'translator-selftest': 'a T2-translated function disagrees with the Python original (translator defect or '
                                                  'unsupported change of the function)'}.get(f['kind'], f['kind'])
            chk.violation(rep, found_input=False)
            reported = True
            break
    if not reported and broken:
        chk.violation({'broken': broken, 'coq_error': res.error_text[-2500:], 'translators': res.translator_msgs,
                       'what': 'a C05 proof obligation no longer checks; the falsifier compared %d exported values / serializer answers '
                               'of the generated code with pydsdl and found no failing input' % validated}, found_input=False)
    return chk.finish()


def masked_same(prep, tid: str, v, so: str, got: str) -> bool:
    r = prep.model.run([prep.model.tok_req('msk', tid, v)])[0].split()
    mask = r[1] if r[:1] == ['ok'] and len(r) > 1 else ''
    return modelmod.same_ser(so, got, mask)


# ------------------------------------------------------------------------------------------------
# shrinking, replay
# ------------------------------------------------------------------------------------------------

def _modname(f: dict) -> str:
    return 'target_' + f['target']


def shrink(f: dict, exe_codec: str) -> dict:
    prep, tgt = f['_prep'], f['_tgt']
    rep = {k: v for k, v in f.items() if not k.startswith('_')}
    files = needed_files(prep, f['tid'])
    rep['files'] = files
    src = prep.db.comp(f['tid'])['source']
    rep['dsdl_of_failing_type'] = files.get(src, '')
    try:
        if f['kind'] == 'meta':
            key = f['problems'][0]['key']
            keep = key[len('const.'):] if key.startswith('const.') else None
            cand = dict(files)
            cand[src] = strip_constants(files[src], keep)
            p2, t2, why = rerun_single(cand, _modname(f), tgt.options, exe_codec, None)
            if t2 is not None and f['tid'] in p2.db.types:
                got = t2.run(['meta ' + f['tid']])[0]
                n, probs, _ = check_meta(t2, p2.db.comp(f['tid']), got, {'xmeta': {}, 'consts': {}, 'port': {}})
                if probs:
                    rep.update({'files': cand, 'dsdl_of_failing_type': cand[src], 'problems': probs, 'got': got, 'shrunk': True})
        else:
            p2, t2, why = rerun_single(files, _modname(f), tgt.options, exe_codec, None)
            if t2 is not None:
                rep['got_on_reduced_namespace'] = t2.run([f['request']])[0]
    except Exception as ex:  # noqa: BLE001
        rep['shrink_error'] = repr(ex)
    return rep


def shrink_build(f: dict, exe_codec: str) -> dict:
    """a target no longer generates/compiles: find one DSDL file (with its dependencies) that alone reproduces the failure"""
    prep = f['_prep']
    rep = {k: v for k, v in f.items() if not k.startswith('_')}
    rep['what'] = 'generated code no longer builds (generation or compilation failed) for target %s' % f['label']
    m = re.match(r'(\w+)\[(.*)\]', f['label'])
    modname = 'target_' + m.group(1)
    options: typing.Dict[str, typing.Any] = {}
    for kvs in filter(None, m.group(2).split(',')):
        a, b = kvs.split('=', 1)
        options[a] = True if b == 'True' else False if b == 'False' else b
    rep['target'], rep['options'] = m.group(1), options
    tids = [t for t in prep.db.ids() if prep.db.comp(t)['source'].startswith('nsa/c05/')] + prep.db.ids()
    seen = set()
    tried = 0
    for tid in tids:
        src = prep.db.comp(tid)['source']
        if src in seen or tried >= 14:
            continue
        seen.add(src)
        tried += 1
        files = needed_files(prep, tid)
        p2, t2, why = rerun_single(files, modname, options, exe_codec, None)
        if p2 is not None and t2 is None and 'build failed' in why:
            rep.update({'files': files, 'dsdl_of_failing_type': files.get(src, ''), 'log': why[-3000:], 'found_input': True, 'tid': tid,
                        'request': 'build'})
            # one constant?
            for k in p2.db.comp(tid)['constants'] if tid in p2.db.types else []:
                cand = dict(files)
                cand[src] = strip_constants(files[src], k['name'])
                p3, t3, why3 = rerun_single(cand, modname, options, exe_codec, None)
                if p3 is not None and t3 is None and 'build failed' in why3:
                    rep.update({'files': cand, 'dsdl_of_failing_type': cand[src], 'log': why3[-3000:], 'constant': k['name']})
                    break
            return rep
    rep['found_input'] = False
    return rep


def run_replay(chk: core.Check, path: str, exe5: typing.Optional[str], exe_codec: typing.Optional[str]) -> int:
    doc = json.load(open(path, encoding='utf-8'))
    if 'files' not in doc or 'target' not in doc or exe_codec is None:
        res = core.coq_check(PROP, ['c05', 'c01', 'codec_tpl'])
        print('replay: nothing to re-run (%s); proof obligations: %s' % (doc.get('what', 'broken obligation'), 'ok' if res.ok else 'BROKEN'))
        if not res.ok:
            chk.violation({'broken': ['proof obligation'], 'coq_error': res.error_text[-2000:]}, found_input=False)
        return chk.finish()
    prep, tgt, why = rerun_single(doc['files'], 'target_' + doc['target'], doc.get('options', {}), exe_codec, None)
    chk.coverage.update({'evaluations': 1, 'distinct_nontrivial': 1, 'samples': [{'request': doc.get('request')}],
                         'traces_validated_against_impl': 1, 'distribution': {'replay': path}})
    if tgt is None:
        print('replay: target does not build: %s' % why[-1500:])
        chk.violation({'what': 'replayed namespace still fails to build', 'log': why[-3000:], 'files': doc['files'], 'target': doc['target'],
                       'options': doc.get('options', {}), 'request': 'build'}, found_input=True)
        return chk.finish()
    req = doc.get('request', '')
    if req == 'build':
        print('replay: the namespace builds now (no longer reproduces)')
        return chk.finish()
    got = tgt.run([req])[0]
    print('replay request : %s' % req[:300])
    print('%-15s: %s' % (doc['target'], got[:600]))
    bad = False
    if req.startswith('meta '):
        tid = req.split()[1]
        mexp = {'xmeta': {}, 'consts': {}, 'port': {}}
        if exe5:
            mexp = model_expected(Model5(exe5, prep.db), prep.db, [tid])[0][tid]
        n, probs, _ = check_meta(tgt, prep.db.comp(tid), got, mexp)
        print('pydsdl says    : %s' % json.dumps({k: (v if not isinstance(v, tuple) else v[1]) for k, v in pydsdl_expected(prep.db.comp(tid)).items()}))
        print('problems       : %s' % json.dumps(probs))
        bad = bool(probs)
    else:
        maxb, cap = doc.get('max_bytes'), doc.get('cap_bytes')
        exp = prep.model.run([req])[0]
        print('specification  : %s' % exp[:300])
        if cap < maxb:
            bad = not got.startswith('err too_small')
        else:
            bad = not (got.startswith('ok') and int(got.split()[1]) <= maxb and modelmod.same_ser(exp, got, None)) and not (
                exp.startswith('err') and modelmod.same_ser(exp, got, None))
    print('verdict        : %s' % ('STILL FAILS' if bad else 'agree (no longer reproduces)'))
    if bad:
        rep = {k: doc[k] for k in ('files', 'target', 'options', 'request', 'tid', 'cap_bytes', 'max_bytes') if k in doc}
        rep.update({'got': got, 'what': 'replayed failing input still fails'})
        chk.violation(rep, found_input=True)
    return chk.finish()
