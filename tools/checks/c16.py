"""C16: template resolution and environment contract hold for all types and templates."""
from __future__ import annotations

import itertools
import json
import os
import typing

from tools.lib import core

PROP = 'C16'

MANIFEST = dict(
    technique='Coq proof (induction over lookup sequences with a memo invariant; induction over sequences of environment additions; '
              'vm_compute over tables regenerated from /repo) about a code-shaped model; extracted-model vs. implementation correspondence',
    text='Theorems in coq/theories/Properties/C16.v, for EVERY single-inheritance class graph, every pair of template sets and every '
         'lookup sequence: a fresh lookup returns the nearest ancestor with a template, user set first (C16_lookup_nearest); with one '
         'memo per search path every sequence equals fresh lookups (C16_cache_transparent); the shared memo of the unchanged code is '
         'refuted by witness (finding F-LOOKUP-MEMO-CROSS) and proved transparent when one loader is absent or the built-in set is an '
         'antichain (_partial), which a vm_compute fact shows for every shipped built-in set (C16_shipped_sets_cache_transparent); '
         'enumeration order as an arbitrary permutation (C16_enum_order_indep); user shadows built-in in get_source; alias table '
         'collision-free and disjoint from bundled-jinja and language tests; test = class membership of value or attribute data type '
         '(refuted for the unchanged _field_is_instance: F-ATTR-TESTS-CONST-FALSE, + _partial); filters/tests never replaced and a '
         'conflicting add raises, for every sequence of additions; reserved and language globals protected; jinja default globals '
         'replaced by additional_globals (refuted: F-ENV-GLOBALS, + _partial).  Tie: Gen_Lookup.v is regenerated from /repo on every '
         'run (pydsdl forest, template listings, jinja names, per-language environment names, RESERVED_GLOBAL_ sets, T2 translation of '
         'the alias rule); the hand model is run (extracted OCaml) against the real DSDLTemplateLoader, DSDLCodeGenerator tests on '
         'parsed pydsdl objects and CodeGenEnvironment on the same inputs.',
    note='Trusted: Coq kernel; the C16 translator (tools/translators/gen_c16.py); extraction (ExtrOcamlBasic only) + OCaml driver; '
         'the hand models Gen/Lookup.v and Gen/LookupEnv.v are validated by correspondence, not verified against Python. Not covered: '
         'templates with the same stem in different sub-directories (resolved by the bundled loader\'s sorted listing), changes of the '
         'directories during the life of a loader, the uses_queries namespace, extensions.',
    design='§5 C16')

HARNESS = os.path.join(core.VERIF, 'tools', 'harness', 'c16_impl.py')
KF_MEMO, KF_ATTR, KF_GLOB = 'F-LOOKUP-MEMO-CROSS', 'F-ATTR-TESTS-CONST-FALSE', 'F-ENV-GLOBALS'


def load_known_fragment(chk: core.Check) -> None:
    """known_findings.json is merged by the lead from known_findings.d/; until then read our own fragment"""
    if any(e['id'] in (KF_MEMO, KF_ATTR, KF_GLOB) for e in chk.known):
        return
    p = os.path.join(core.VERIF, 'known_findings.d', 'C16.json')
    if os.path.exists(p):
        with open(p, encoding='utf-8') as f:
            chk.known = list(chk.known) + [e for e in json.load(f)['findings'] if PROP in e['properties']]


# ---- encoding for the OCaml driver ---------------------------------------------------------------
def enc(s: str) -> str:
    return '.'.join(str(ord(c)) for c in s) if s else 'e'


def dec(s: str) -> str:
    return '' if s == 'e' else ''.join(chr(int(t)) for t in s.split('.'))


def enc_list(xs: typing.Sequence[str]) -> str:
    return ','.join(xs) if xs else '_'


def dec_list(s: str) -> typing.List[str]:
    return [] if s == '_' else s.split(',')


def stem(rel: str) -> typing.Optional[str]:
    """the property's reading: a file is the template of class X only if its NAME is exactly X.j2 (None = not a template)"""
    b = rel.rsplit('/', 1)[-1]
    return b[:-3] if (b.endswith('.j2') and len(b) > 3) else None


def enc_tset(names: typing.Optional[typing.List[str]]) -> str:
    """raw listing in the order of the bundled loaders (sorted); suffix filter and stem are applied by the model"""
    if names is None:
        return '-'
    return enc_list([enc(n) for n in sorted(names)])


def run_model(exe: str, lines: typing.List[str]) -> typing.List[str]:
    if not lines:
        return []
    p = core.run([exe], input='\n'.join(lines) + '\n', timeout=900)
    out = p.stdout.splitlines()
    if len(out) != len(lines):
        return ['EXC model produced %d lines for %d requests: %s' % (len(out), len(lines), p.stdout[-200:])] * len(lines)
    return out


def run_impl(doc: dict) -> dict:
    work = core.scratch('c16-')
    doc = dict(doc)
    doc['work'] = work
    p = core.run([core.PY, HARNESS], input=json.dumps(doc), env=core.repo_env(), timeout=1500)
    try:
        return json.loads(p.stdout[p.stdout.index('C16OUT') + 6:])
    except Exception:
        return {'harness_error': p.stdout[-600:]}


# ---- the property as an executable oracle (independent of the Coq model) -----------------------------------------
def loaders(case):
    fs = case['fs']
    pkg = case['pkg'] if (case['pkg'] is not None and (case['policy'] == 'FIND_ALL' or fs is None)) else None
    return fs, pkg


def oracle_lookup(chains, case) -> typing.List[typing.Optional[str]]:
    fs, pkg = loaders(case)
    out = []
    for cn in case['seq']:
        r = None
        for names in (fs, pkg):
            if names is None or r is not None:
                continue
            m = {stem(n): n for n in sorted(names) if stem(n) is not None}
            for anc in chains[cn]:
                if anc in m:
                    r = m[anc]
                    break
        out.append(r)
    return out


def oracle_source(case, name: typing.Optional[str]) -> typing.Optional[str]:
    if name is None:
        return None
    fs, pkg = loaders(case)
    if fs is not None and name in fs:
        return 'U'
    if pkg is not None and name in pkg:
        return 'P'
    return None


def memo_trigger(chains, case) -> bool:
    """F-LOOKUP-MEMO-CROSS can only matter when both loaders exist and the package set holds a class and one of its proper ancestors"""
    fs, pkg = loaders(case)
    if fs is None or pkg is None:
        return False
    st = {stem(n) for n in pkg if stem(n) is not None}
    return any(c in st and any(a in st for a in ch[1:]) for c, ch in chains.items())


def oracle_alias(name: str) -> str:
    low = name.lower()
    for suf in ('type', 'field'):
        if low.endswith(suf) and len(low) > len(suf):
            return low[:-len(suf)]
    return low


def oracle_test(chains, roots: typing.Dict[str, str], name: str, v: dict) -> typing.Optional[bool]:
    root = roots.get(name)
    if root is None:
        return None
    return root in chains[v['cls']] or ('Attribute' in chains[v['cls']] and v['dt'] is not None and root in chains[v['dt']])


# ---- case generators -----------------------------------------------------------------------------------------
DECOYS = ['%s.inc.j2', '%s.draft.j2', '%s.j2.bak', '%s.txt', '%s.J2', '%s', '%s..j2', '%s.j2x', '%sx.j2', 'x%s.j2', '_%s.j2',
          '%s.j2.j2', '%s .j2', 'sub/%s.j2', 'Aaa/%s.j2', 'zz/deep/%s.j2', 'sub/%s.inc.j2', '%s.tmpl/inner.txt']


def decoys(rng, names: typing.Sequence[str], k: int) -> typing.List[str]:
    """files that are NOT named exactly <Class>.j2 at top level: multi-dot names, other suffixes, case variants, prefixes and
    suffixes of class names, and same-stem files in sub-directories (those DO count for the code: sorted-last wins)"""
    out = []
    for _ in range(k):
        x = rng.choice(names)
        kind = rng.randrange(len(DECOYS) + 3)
        if kind < len(DECOYS):
            out.append(DECOYS[kind] % x)
        elif kind == len(DECOYS):
            out.append(x.lower() + '.j2')
        elif kind == len(DECOYS) + 1:
            out.append(x[:-1] + '.j2')
        else:
            out.append(rng.choice(['.j2', 'base.j2', 'Namespace.j2', 'README.md', '__init__.py']))
    return out


def with_decoys(rng, real: typing.Optional[typing.List[str]], names, p: float, k: int = 4) -> typing.Optional[typing.List[str]]:
    if real is None or rng.random() > p:
        return real
    out = list(real)
    for dname in decoys(rng, names, rng.randrange(1, k + 1)):
        # no file and directory of the same name, no duplicate
        if dname not in out and not any(o.startswith(dname + '/') or dname.startswith(o + '/') for o in out):
            out.append(dname)
    return out


def gen_lookup_cases(rng, chains: typing.Dict[str, typing.List[str]], n: int, tier: str) -> typing.List[dict]:
    classes = sorted(chains)
    cases = []

    def tpl(names):
        return [x + '.j2' for x in names]
    # (0) fixed corpus of files that must NOT count (each alone in the user dir, the real template in the package), and that must
    for x, par in (('StructureType', 'CompositeType'), ('PrimitiveType', 'SerializableType'), ('Any', 'ABC')):
        if x in chains and par in chains.get(x, []):
            leaf = max((c for c in classes if x in chains[c]), key=lambda c: len(chains[c]))
            for pat in DECOYS + ['%s.inc.j2|%s.j2']:
                fs = [q % x for q in pat.split('|')]
                for pol in ('FIND_ALL', 'FIND_FIRST'):
                    cases.append({'policy': pol, 'fs': fs + tpl([par]), 'pkg': tpl([x]), 'seq': [leaf, x, leaf], 'get': [fs[0], x + '.j2']})
            cases.append({'policy': 'FIND_ALL', 'fs': [x.lower() + '.j2', x[:-1] + '.j2'], 'pkg': tpl([x]), 'seq': [leaf, x], 'get': []})
            cases.append({'policy': 'FIND_ALL', 'fs': None, 'pkg': [x + '.inc.j2', x + '.draft.j2'] + tpl([par]), 'seq': [leaf, x], 'get': []})
    # (a) fixed corpus: the memo-cross shape in several places of the hierarchy, shadowing, policies, sub-directory
    for anc, desc, sib in (('IntegerType', 'UnsignedIntegerType', 'SignedIntegerType'), ('Any', 'StructureType', 'VoidType'),
                           ('CompositeType', 'UnionType', 'ServiceType'), ('SerializableType', 'ByteType', 'BooleanType'),
                           ('Attribute', 'PaddingField', 'Constant'), ('ABC', 'Any', 'Set')):
        if all(x in chains for x in (anc, desc, sib)) and anc in chains[desc] and anc in chains[sib]:
            for fs in ([], ['base.j2'], tpl([anc]), tpl([desc])):
                for pol in ('FIND_ALL', 'FIND_FIRST'):
                    cases.append({'policy': pol, 'fs': fs, 'pkg': tpl([anc, desc]), 'seq': [sib, desc, anc, desc], 'get': tpl([anc, desc, sib])})
            cases.append({'policy': 'FIND_ALL', 'fs': None, 'pkg': tpl([anc, desc]), 'seq': [sib, desc], 'get': []})
            cases.append({'policy': 'FIND_ALL', 'fs': tpl([anc, desc]), 'pkg': None, 'seq': [sib, desc], 'get': []})
    cases.append({'policy': 'FIND_ALL', 'fs': ['CompositeType.j2'], 'pkg': ['StructureType.j2'], 'seq': ['StructureType'], 'get': ['StructureType.j2']})
    cases.append({'policy': 'FIND_ALL', 'fs': ['StructureType.j2'], 'pkg': ['StructureType.j2'], 'seq': ['StructureType'], 'get': ['StructureType.j2']})
    cases.append({'policy': 'FIND_ALL', 'fs': ['sub/StructureType.j2', 'Any.txt', 'notes.md'], 'pkg': ['StructureType.j2'], 'seq': ['StructureType', 'UnionType'], 'get': []})
    cases.append({'policy': 'FIND_FIRST', 'fs': ['x/y/Any.j2'], 'pkg': ['StructureType.j2'], 'seq': ['StructureType'], 'get': []})
    # (b) every class x subsets of its own chain in the user / built-in sets, cold and warm
    per_class = max(2, (n // 2) // max(1, len(classes)))
    for cn in classes:
        ch = chains[cn]
        for _ in range(per_class):
            fs = None if rng.random() < 0.12 else tpl([a for a in ch if rng.random() < rng.choice([0.1, 0.3, 0.6])])
            pkg = None if rng.random() < 0.12 else tpl([a for a in ch if rng.random() < rng.choice([0.2, 0.5, 0.8])])
            fs = with_decoys(rng, fs, ch, 0.5)
            pkg = with_decoys(rng, pkg, ch, 0.3)
            warm = [rng.choice(ch + classes[:3]) for _ in range(rng.randrange(0, 4))]
            cases.append({'policy': rng.choice(['FIND_ALL', 'FIND_ALL', 'FIND_FIRST']), 'fs': fs, 'pkg': pkg, 'seq': warm + [cn] + warm[:1],
                          'get': rng.sample(tpl(ch), min(2, len(ch)))})
    # (c) random sets over all class names, longer sequences biased towards related classes
    while len(cases) < n:
        focus = chains[rng.choice(classes)]
        related = [c for c in classes if set(chains[c]) & set(focus[:max(1, len(focus) - 2)])] or classes
        pool = related if rng.random() < 0.7 else classes
        dens = rng.choice([0.05, 0.15, 0.35])
        fs = None if rng.random() < 0.1 else tpl([c for c in classes if rng.random() < dens])
        pkg = None if rng.random() < 0.1 else tpl([c for c in classes if rng.random() < rng.choice([0.1, 0.3, 0.5])])
        fs = with_decoys(rng, fs, pool, 0.5, 6)
        pkg = with_decoys(rng, pkg, pool, 0.3, 6)
        seq = [rng.choice(pool) for _ in range(rng.randrange(1, 8 if tier == 'quick' else 14))]
        get = rng.sample(fs, min(2, len(fs))) if fs and rng.random() < 0.3 else []
        cases.append({'policy': rng.choice(['FIND_ALL', 'FIND_ALL', 'FIND_FIRST']), 'fs': fs, 'pkg': pkg, 'seq': seq, 'get': get})
    return cases


def exhaustive_chain_cases(chains) -> typing.List[dict]:
    """thorough: the deepest chain, EVERY pair of subsets of it (user x built-in), lookup of the leaf after its parent (warm memo)"""
    leaf = max(chains, key=lambda c: (len(chains[c]), c))
    ch = chains[leaf][:6]
    cases = []
    for a in range(1 << len(ch)):
        for b in range(1 << len(ch)):
            fs = [ch[i] + '.j2' for i in range(len(ch)) if a >> i & 1]
            pkg = [ch[i] + '.j2' for i in range(len(ch)) if b >> i & 1]
            cases.append({'policy': 'FIND_ALL', 'fs': fs, 'pkg': pkg, 'seq': [ch[1], leaf, ch[2], leaf], 'get': []})
    return cases


def fresh_name(rng) -> str:
    return 'zz_' + ''.join(rng.choice('abcdefghij_') for _ in range(rng.randrange(1, 9)))


def gen_env_cases(rng, d: dict, tier: str) -> typing.List[dict]:
    cases = []
    dsdl_names = sorted({n for r in d['roots'].values() for n in r} | {oracle_alias(n) for r in d['roots'].values() for n in r})
    langs = sorted(d['env'])
    reserved = d['reserved_namespaces'] + d['reserved_names']
    for lang in langs:
        e = d['env'][lang]
        full = lang == 'c' or tier != 'quick'
        gl = sorted(set(e['globals']) | set(reserved) | set(d['jinja_globals']))
        for n in (gl if full else rng.sample(gl, 6)):
            cases.append({'lang': lang, 'allow': False, 'globals': {n: 1}, 'filters': None, 'tests': None, 'dsdl': False, 'post': []})
        fl = sorted(set(e['filters']) | set(d['gen_filters']))
        for n in (fl if full else rng.sample(fl, 8)):
            cases.append({'lang': lang, 'allow': False, 'globals': None, 'filters': {n: 2}, 'tests': None, 'dsdl': n in d['gen_filters'], 'post': []})
        tl = sorted(set(e['tests']) | set(dsdl_names) | set(d['gen_tests']))
        for n in (tl if full else rng.sample(tl, 8)):
            cases.append({'lang': lang, 'allow': False, 'globals': None, 'filters': None, 'tests': {n: 3},
                          'dsdl': n in dsdl_names or n in d['gen_tests'], 'post': []})
    # random mixtures, post-construction additions, allow_replacements
    for _ in range(60 if tier == 'quick' else 600):
        lang = rng.choice(langs)
        e = d['env'][lang]

        def pick(pool, k):
            out = {}
            for i in range(rng.randrange(0, k)):
                out[rng.choice(pool) if rng.random() < 0.35 else fresh_name(rng)] = 10 + i
            return out
        dsdl = rng.random() < 0.25
        post = []
        for i in range(rng.randrange(0, 4)):
            kind = rng.choice(['test', 'filter'])
            pool = (e['tests'] + dsdl_names) if kind == 'test' else e['filters']
            post.append([kind, rng.choice(pool) if rng.random() < 0.3 else fresh_name(rng), 50 + i])
        cases.append({'lang': lang, 'allow': (not dsdl) and rng.random() < 0.3,
                      'globals': pick(e['globals'] + reserved, 3) if rng.random() < 0.6 else None,
                      'filters': pick(e['filters'], 3) if rng.random() < 0.6 else None,
                      'tests': pick(e['tests'] + dsdl_names, 3) if rng.random() < 0.6 else None,
                      'dsdl': dsdl, 'post': post})
    return cases


def env_line(c: dict, q_unchecked: bool) -> str:
    def named(m):
        return enc_list(['%s=%d' % (enc(k), v) for k, v in (m or {}).items()])
    post = enc_list(['%s:%s=%d' % ('t' if k == 'test' else 'f', enc(n), v) for k, n, v in c['post']])
    return ' '.join(['E', '1' if c['allow'] else '0', '1' if q_unchecked else '0', '1' if c['dsdl'] else '0', enc(c['lang']),
                     named(c['globals']), named(c['filters']), named(c['tests']), post])


def parse_env(line: str) -> typing.Optional[dict]:
    if line == 'ERR':
        return None
    t = line.split(' ')
    if t[0] != 'OK':
        return {'bad': line[:200]}
    out = {}
    for key, blob in (('globals', t[2]), ('filters', t[4]), ('tests', t[6])):
        m = {}
        for item in dec_list(blob):
            k, v = item.rsplit('=', 1)
            m[dec(k)] = v
        out[key] = m
    return out


def env_oracle(c: dict, ref: dict, got: dict, d: dict) -> typing.Optional[str]:
    """the property on one environment case; returns a complaint or None.  ref = result of the same case without user additions"""
    user = {k: set((c.get(k) or {})) for k in ('globals', 'filters', 'tests')}
    for kind, name, _ in c['post']:
        user['tests' if kind == 'test' else 'filters'].add(name)
    if 'err' in got:
        return None if got['err'] == 'RuntimeError' else 'unexpected exception %s' % got
    for coll in ('globals', 'filters', 'tests'):
        for n, tag in got[coll].items():
            if n in ref[coll] and tag.startswith('U') and not (c['allow'] and coll != 'globals'):
                return '%s[%r] was defined by the environment and is now the user object %s (no error raised)' % (coll, n, tag)
    return None


# ---- main ---------------------------------------------------------------------------------------------------------
def main(chk: core.Check, replay: typing.Optional[str] = None) -> int:
    load_known_fragment(chk)
    res = core.coq_check('C16', ['lookup', 'pin_c16_loader', 'pin_c16_env'])
    chk.proof_coverage(res, [
        'C16 translator tools/translators/gen_c16.py: T1 dump of the pydsdl forest / template listings / bundled jinja2 names / per-language '
        'environment names / RESERVED_GLOBAL_ sets / TEMPLATE_SUFFIX, T2 translation of the alias rule and of _field_is_instance, of the '
        'gate on additional_globals, statement order of CodeGenEnvironment.__init__',
        'shape pins (tools/translators/shape_pin.py, pins/c16_loader.txt, pins/c16_env.txt) for the hand-modelled loader functions and '
        '_add_to_environment/add_test/_add_each_to_environment; model of pathlib suffix/stem (Python 3.12 semantics) in Gen/Lookup.v',
        'hand models Gen/Lookup.v (loader, instance tests) and Gen/LookupEnv.v (environment), tied by the correspondence run below',
        'extraction: Require Extraction ExtrOcamlBasic only; OCaml 4.13.1; ocaml/c16_driver.ml',
    ])
    broken: typing.List[str] = []
    if not res.ok:
        broken.append('proof obligation: %s %s' % (res.failed_file or 'translator', res.failed_theorem or ''))
    ok_model, exe, log = core.build_extracted('c16', 'ExtractC16.v', 'c16_driver.ml')
    if not ok_model:
        broken.append('model does not build/extract: ' + log[-300:])

    d = None
    try:
        from tools.translators import gen_c16
        d = gen_c16.data()
        ids = gen_c16.class_ids(d)
    except Exception as ex:  # translator failed closed: keep going with the oracle only
        broken.append('translator data unavailable: %s' % ex)
        ids = {}
        try:
            d = gen_c16.fallback_data()
        except Exception as ex2:
            d = None
            broken.append('fallback dump unavailable: %s' % ex2)

    # ---- probes of the listed findings on the implementation -------------------------------------------------------
    probe_doc = {'lookup': [{'policy': 'FIND_ALL', 'fs': [], 'pkg': ['IntegerType.j2', 'UnsignedIntegerType.j2'],
                             'seq': ['SignedIntegerType', 'UnsignedIntegerType'], 'get': []}],
                 'tests': True,
                 'env': [{'lang': 'c', 'allow': False, 'globals': {'range': 1}, 'filters': None, 'tests': None, 'dsdl': False, 'post': []}]}
    probe = run_impl(probe_doc)
    if 'harness_error' in probe:
        chk.violation({'what': 'C16 harness could not run', 'output': probe['harness_error'], 'broken': broken}, found_input=False)
        return chk.finish()
    live_memo = probe['lookup'][0].get('res') == ['IntegerType.j2', 'IntegerType.j2']
    tv = probe['tests']
    if 'err' in tv:
        chk.violation({'what': 'instance-test harness failed', 'output': tv['err'], 'broken': broken}, found_input=False)
        return chk.finish()
    live_attr = any(v['cls'] == 'PaddingField' and v['res'].get('padding') is False for v in tv['values'])
    live_glob = probe['env'][0].get('globals', {}).get('range') == 'U1'
    for fid, live in ((KF_MEMO, live_memo), (KF_ATTR, live_attr), (KF_GLOB, live_glob)):
        if live and chk.is_known(fid):
            chk.report_known(fid)
    q_shared = live_memo and chk.is_known(KF_MEMO)
    q_dt = live_attr and chk.is_known(KF_ATTR)
    q_glob = live_glob and chk.is_known(KF_GLOB)

    # chains of the real classes as the implementation sees them (oracle input; independent of the translator)
    chains_doc = run_chain_dump()
    if chains_doc is None:
        chk.violation({'what': 'could not dump class chains', 'broken': broken}, found_input=False)
        return chk.finish()
    chains = chains_doc

    # ---- 1. lookups ----------------------------------------------------------------------------------------------------
    n_cases = 2500 if chk.tier == 'quick' else 30000
    if replay:
        doc = json.load(open(replay))
        lk_cases = [doc['lookup_case']] if 'lookup_case' in doc else []
        env_cases = [doc['env_case']] if 'env_case' in doc else []
    else:
        lk_cases = gen_lookup_cases(chk.rng, chains, n_cases, chk.tier)
        if chk.tier != 'quick':
            lk_cases += exhaustive_chain_cases(chains)
        env_cases = gen_env_cases(chk.rng, d, chk.tier) if d else []
    ref_cases = []
    seen_ref = {}
    for c in env_cases:
        key = (c['lang'], c['dsdl'])
        if key not in seen_ref:
            seen_ref[key] = len(ref_cases)
            ref_cases.append({'lang': c['lang'], 'allow': False, 'globals': None, 'filters': None, 'tests': None, 'dsdl': c['dsdl'], 'post': []})
    impl = run_impl({'lookup': lk_cases, 'env': ref_cases + env_cases})
    if 'harness_error' in impl:
        chk.violation({'what': 'C16 harness could not run', 'output': impl['harness_error'], 'broken': broken}, found_input=False)
        return chk.finish()

    stats = {'decoy_files': sum(1 for c in lk_cases for k in ('fs', 'pkg') for x in (c[k] or []) if stem(x) not in chains or '/' in x),
             'lookup_cases': len(lk_cases), 'lookups': 0, 'warm_lookups': 0, 'both_loaders': 0, 'find_first': 0, 'memo_trigger_cases': 0,
             'known_memo_instances': 0, 'results_none': 0, 'results_user': 0, 'results_builtin': 0, 'nearest_not_self': 0,
             'user_ancestor_beats_builtin_self': 0, 'test_evaluations': 0, 'test_values': 0, 'known_attr_instances': 0,
             'env_cases': len(env_cases), 'env_errors': 0, 'env_dsdl_mode': 0, 'known_glob_instances': 0, 'env_allow': 0}
    distinct = set()
    bad_oracle, bad_model = [], []
    traces = 0

    lines = []
    if ok_model and ids:
        for c in lk_cases:
            lines.append(' '.join(['L', '1' if q_shared else '0', 'A' if c['policy'] == 'FIND_ALL' else 'F', enc_tset(c['fs']), enc_tset(c['pkg']),
                                   enc_list([str(ids[x]) for x in c['seq']])]))
            lines.append(' '.join(['G', 'A' if c['policy'] == 'FIND_ALL' else 'F', enc_tset(c['fs']), enc_tset(c['pkg']),
                                   enc_list([enc(x) for x in c['get']])]))
    mout = run_model(exe, lines) if lines else None
    for i, c in enumerate(lk_cases):
        got = impl['lookup'][i]
        exp = oracle_lookup(chains, c)
        trig = memo_trigger(chains, c)
        fs, pkg = loaders(c)
        stats['lookups'] += len(c['seq'])
        stats['warm_lookups'] += max(0, len(c['seq']) - 1)
        stats['both_loaders'] += fs is not None and pkg is not None
        stats['find_first'] += c['policy'] == 'FIND_FIRST'
        stats['memo_trigger_cases'] += trig
        model = None
        if mout is not None:
            a, b = mout[2 * i].split(' '), mout[2 * i + 1].split(' ')
            if a[0] == 'R' and b[0] == 'G':
                model = {'res': [None if x == '-' else dec(x) for x in dec_list(a[1])],
                         'spec': [None if x == '-' else dec(x) for x in dec_list(a[3])],
                         'src': [None if x == 'N' else x for x in dec_list(a[5])],
                         'get': [None if x == 'N' else x for x in dec_list(b[1])]}
            else:
                model = {'bad': mout[2 * i][:200]}
        if 'err' in got:
            bad_oracle.append(('lookup', c, 'no exception', got['err'], model))
            continue
        for j, cn in enumerate(c['seq']):
            r = exp[j]
            stats['results_none'] += r is None
            if r is not None:
                from_user = fs is not None and r in fs and stem(r) in chains[cn]
                stats['results_user' if from_user else 'results_builtin'] += 1
                stats['nearest_not_self'] += stem(r) != cn
                if from_user and stem(r) != cn and pkg is not None and (cn + '.j2') in pkg:
                    stats['user_ancestor_beats_builtin_self'] += 1
        exp_src = [oracle_source(c, None if r is None else r.rsplit('/', 1)[-1]) for r in exp]
        exp_get = [oracle_source(c, n) for n in c['get']]
        key = (c['policy'], tuple(c['fs']) if c['fs'] is not None else None, tuple(c['pkg']) if c['pkg'] is not None else None, tuple(c['seq']))
        if len(c['seq']) > 1 and any(r is not None for r in exp):
            distinct.add(key)
        if got['res'] != exp or got['src'] != exp_src or got['get'] != exp_get:
            if trig and q_shared and model is not None and model.get('res') == got['res'] and model.get('src') == got['src'] \
                    and got['get'] == exp_get:
                stats['known_memo_instances'] += 1
            else:
                bad_oracle.append(('lookup', c, {'res': exp, 'src': exp_src, 'get': exp_get}, got, model))
        if model is not None:
            traces += 1
            if 'bad' in model or model['res'] != got['res'] or model['src'] != got['src'] or model['get'] != got['get']:
                bad_model.append(('lookup', c, model, got))
            elif not q_shared and model['res'] != model['spec']:
                bad_model.append(('lookup: conformant model differs from its own spec', c, model, got))

    # ---- 2. instance tests on real pydsdl objects -------------------------------------------------------------------------
    roots = {}
    for order in (d['roots'].values() if d else []):
        for cn in order:
            roots[cn] = cn
            roots[oracle_alias(cn)] = cn
    if d is None:  # fall back to the implementation's own class list for the oracle
        for cn in chains:
            if 'SerializableType' in chains[cn] or 'Attribute' in chains[cn]:
                roots[cn] = cn
                roots[oracle_alias(cn)] = cn
    if sorted(tv['names']) != sorted(roots):
        bad_oracle.append(('tests', 'names', sorted(roots), sorted(tv['names']), None))
    for lang, missing in tv['env_has'].items():
        if missing:
            bad_oracle.append(('tests', 'env.tests of %s lacks' % lang, [], missing, None))
    tlines, tkeys = [], []
    for v in tv['values']:
        stats['test_values'] += 1
        for name in sorted(tv['names']):
            if name not in v['res']:
                continue
            stats['test_evaluations'] += 1
            e = oracle_test(chains, roots, name, v)
            g = v['res'][name]
            trig = v['dt'] is not None and roots.get(name) in chains[v['cls']]
            if g != e:
                if trig and q_dt:
                    stats['known_attr_instances'] += 1
                else:
                    bad_oracle.append(('test', {'name': name, 'value': {'cls': v['cls'], 'dt': v['dt']}}, e, g, None))
            if ok_model and ids and v['cls'] in ids and (v['dt'] is None or v['dt'] in ids):
                tlines.append('T %s %s %d %d' % ('1' if q_dt else '0', enc(name), ids[v['cls']], ids[v['dt']] if v['dt'] else ids[v['cls']]))
                tkeys.append((name, v, g))
    tout = run_model(exe, tlines) if tlines else []
    for (name, v, g), line in zip(tkeys, tout):
        t = line.split(' ')
        traces += 1
        if t[0] != 'T' or t[1] != ('1' if g else '0'):
            bad_model.append(('test', {'name': name, 'value': {'cls': v['cls'], 'dt': v['dt']}}, line, g))
        distinct.add(('test', name, v['cls'], v['dt']))

    # ---- 3. environment ---------------------------------------------------------------------------------------------------
    refs = impl['env'][:len(ref_cases)]
    env_got = impl['env'][len(ref_cases):]
    elines = [env_line(c, q_glob) for c in env_cases] if (ok_model and d) else []
    eout = run_model(exe, elines) if elines else None
    for i, c in enumerate(env_cases):
        got = env_got[i]
        ref = refs[seen_ref[(c['lang'], c['dsdl'])]]
        stats['env_dsdl_mode'] += c['dsdl']
        stats['env_allow'] += c['allow']
        stats['env_errors'] += 'err' in got
        if 'err' in ref:
            bad_oracle.append(('env', c, 'reference environment builds', ref, None))
            continue
        glob_trig = any(n in ref['globals'] and n not in (d['reserved_namespaces'] + d['reserved_names'])
                        and n in d['jinja_globals'] for n in (c['globals'] or {}))
        complaint = env_oracle(c, ref, got, d)
        model = parse_env(eout[i]) if eout is not None else 'n/a'
        if complaint:
            same = model not in ('n/a', None) and 'bad' not in model and 'err' not in got and all(model[k] == got[k] for k in ('globals', 'filters', 'tests'))
            if glob_trig and q_glob and same:
                stats['known_glob_instances'] += 1
            else:
                bad_oracle.append(('env', c, complaint, got, model))
        if eout is not None:
            traces += 1
            distinct.add(('env', json.dumps(c, sort_keys=True)))
            if model is None:
                if 'err' not in got or got['err'] != 'RuntimeError':
                    bad_model.append(('env', c, 'ERR', got))
            elif 'bad' in model:
                bad_model.append(('env', c, model, got))
            elif 'err' in got:
                bad_model.append(('env', c, 'no error', got))
            else:
                for k in ('globals', 'filters', 'tests'):
                    if model[k] != got[k]:
                        diff = {n: (model[k].get(n), got[k].get(n)) for n in set(model[k]) | set(got[k]) if model[k].get(n) != got[k].get(n)}
                        bad_model.append(('env', c, {'collection': k, 'model_vs_impl': diff}, None))
                        break

    chk.coverage.update({
        'evaluations': stats['lookups'] + stats['test_evaluations'] + len(env_cases),
        'distinct_nontrivial': len(distinct),
        'rule': 'lookup: fixed corpus (memo-cross shape at six places of the hierarchy x user-set variants x both policies, shadowing, '
                'sub-directories, every decoy pattern -- X.inc.j2, X.draft.j2, X.j2.bak, X.txt, X.J2, x.j2, prefixes/suffixes of class names, '
                'same stem in sub-directories -- alone in the user dir with the real template in the package) + every class of the dumped forest x random subsets of its own chain as user / built-in templates x warm-up '
                'lookups, decoy files mixed into half of the user sets and a third of the built-in sets + random sets over all class names with sequences of up to 7 (quick) / 13 (thorough) lookups biased to related '
                'classes' + ('; + every pair of subsets of the deepest chain (6 classes) with warm memo' if chk.tier != 'quick' else '') +
                '; tests: every DSDL test name x every object of a parsed namespace (types, fields, padding, constants, element and tag '
                'types); env: every name present in a fresh environment / reserved / DSDL test / generator method as additional global, '
                'filter and test (all languages in thorough, C fully + samples in quick) + random mixtures with post-construction '
                'additions and allow_replacements; non-trivial = distinct multi-lookup case with at least one hit, distinct (test, class, '
                'data-type class), distinct environment case',
        'samples': [lk_cases[i] for i in range(0, min(len(lk_cases), 400), 57)] + env_cases[:3],
        'traces_validated_against_impl': traces,
        'distribution': stats,
        'quirks_probed': {KF_MEMO: live_memo, KF_ATTR: live_attr, KF_GLOB: live_glob},
        'find_all_question': 'under FIND_ALL the user chain is searched to the root before the built-in set (a user CompositeType.j2 '
                             'beats a built-in StructureType.j2): modelled and proved as such, not reported (%d such lookups exercised)'
                             % stats['user_ancestor_beats_builtin_self'],
    })

    if bad_oracle:
        kind, c, exp, got, model = bad_oracle[0]
        rep = {'what': 'implementation violates the property (%s)' % kind, 'expected_by_property': exp, 'implementation': got, 'model': model,
               'broken': broken, 'n_failing': len(bad_oracle)}
        if kind == 'lookup':
            small = shrink_lookup(c, chains)
            rep['lookup_case'] = small
            rep['original_case'] = c
            if small is not c:
                rep['expected_by_property'] = {'res': oracle_lookup(chains, small)}
                rep['implementation'] = run_impl({'lookup': [small]}).get('lookup', [None])[0]
        elif kind == 'env':
            rep['env_case'] = c
        else:
            rep['case'] = c
        chk.violation(rep, found_input=True)
    elif bad_model:
        kind, c, m, got = bad_model[0]
        rep = {'correspondence': 'Gen/Lookup*.v vs %s' % kind, 'model': m, 'implementation': got, 'n_disagreements': len(bad_model),
               'what': 'model and implementation disagree but no input violating the property was found', 'broken': broken}
        rep['lookup_case' if kind.startswith('lookup') else ('env_case' if kind == 'env' else 'case')] = c
        chk.violation(rep, found_input=False)
    elif broken:
        chk.violation({'broken': broken, 'coq_error': res.error_text[-2000:], 'translators': res.translator_msgs,
                       'what': 'proof obligation, translator or model build no longer checks; searched %d lookups, %d test evaluations, %d '
                               'environment cases on the implementation' % (stats['lookups'], stats['test_evaluations'], len(env_cases))},
                      found_input=False)
    return chk.finish()


def run_chain_dump() -> typing.Optional[dict]:
    code = ('import json, pydsdl\n'
            'seen = []\n'
            'def walk(c):\n'
            '    if c in seen: return\n'
            '    seen.append(c)\n'
            '    for s in c.__subclasses__(): walk(s)\n'
            'walk(pydsdl.Any)\n'
            'for c in list(seen):\n'
            '    for b in c.__mro__:\n'
            '        if b is not object and b not in seen: seen.append(b)\n'
            'print("C16CH" + json.dumps({c.__name__: [b.__name__ for b in c.__mro__ if b is not object] for c in seen}))\n')
    p = core.run([core.PY, '-c', code], env=core.repo_env(), timeout=120)
    try:
        return json.loads(p.stdout[p.stdout.index('C16CH') + 5:])
    except Exception:
        return None


def shrink_lookup(case: dict, chains) -> dict:
    def fails(c):
        r = run_impl({'lookup': [c]})
        if 'harness_error' in r or 'err' in r['lookup'][0]:
            return False
        g = r['lookup'][0]
        return g['res'] != oracle_lookup(chains, c)
    cur = dict(case, get=[])
    if not fails(cur):
        return case
    budget = 40
    changed = True
    while changed and budget > 0:
        changed = False
        cands = []
        for k in ('seq', 'fs', 'pkg'):
            if cur[k]:
                for i in range(len(cur[k])):
                    cands.append(dict(cur, **{k: cur[k][:i] + cur[k][i + 1:]}))
        for c in cands:
            budget -= 1
            if budget <= 0:
                break
            if c['seq'] and fails(c):
                cur, changed = c, True
                break
    return cur
