"""C16: template resolution and environment contract hold for all types and templates."""
from __future__ import annotations

import itertools
import json
import os
import typing

from tools.lib import core

PROP = 'C16'

MANIFEST = dict(
    technique='Coq proof (induction over lookup sequences with a memo invariant; induction over sequences of environment additions; '
              'vm_compute over tables regenerated from /repo) about a code-shaped model; extracted-model vs. implementation correspondence',
    text='Theorems in coq/theories/Properties/C16.v, for EVERY single-inheritance class graph, template sets and lookup sequence: fresh lookup = '
         'nearest ancestor with a template, user set first (C16_lookup_nearest); memo keyed by (walk, class) transparent for every sequence '
         '(C16_cache_transparent, C16_real_cache_transparent); only exact <Class>.j2 names count; listing and lookup depend only on the SET of '
         'file names (sort modelled, no NoDup premise); get_source over ordered roots; COMPOSITION lookup -> .name -> get_source against the '
         'property (most specific class with a template in ANY root, file of the first root; chain ending at Any): C16_rendered_file_partial, '
         'refuted for a nearer built-in passed over (F-LOOKUP-USER-GENERAL-FIRST) and for the chain walking past Any (F-LOOKUP-CHAIN-PAST-ANY, '
         'conditional on a regenerated fact; C16_chain_ends_at_any once fixed); every class below the roots has its test and alias bound to it, '
         'table = import-time dump of the registered tests, truth = isinstance (T2-translated _field_is_instance); filters/tests never replaced, '
         'conflicting add raises, for every sequence; reserved/language globals protected; T2-translated gate keeps jinja default globals. '
         'SCOPE: template directories frozen during the life of a loader; under FIND_FIRST (the only policy DSDLCodeGenerator/nnvg uses) built-in '
         'templates are unreachable once a templates dir is given (C16_find_first_builtins_unreachable), so "user beats built-in of the same name" '
         'is a statement about FIND_ALL only.  Fix-state facts are obligations (C16_fix_state); only post-fix loader shapes are accepted; a '
         'reproducing witness of a fixed finding is a VIOLATION.  Pre-fix theorems: History/C16_history.v.  Tie: Gen_Lookup.v regenerated from /repo on every run (forest, listings, jinja names, '
         'per-language environment names incl. js, RESERVED sets, TEMPLATE_SUFFIX, alias rule, _field_is_instance, gate, constructor order, '
         'loader shape facts); shape pins for loader, environment functions and generator wiring; extracted model vs. real '
         'DSDLTemplateLoader, real filter_type_to_template, real DSDLCodeGenerator.generate_all (marker templates), real tests and environments.',
    note='Trusted: Coq kernel; the C16 translator (tools/translators/gen_c16.py); extraction (ExtrOcamlBasic only) + OCaml driver; '
         'the hand models Gen/Lookup.v and Gen/LookupEnv.v are validated by correspondence, not verified against Python. Not covered: '
         'templates with the same stem in different sub-directories (resolved by the bundled loader\'s sorted listing), changes of the '
         'directories during the life of a loader, the uses_queries namespace, extensions.',
    design='§5 C16')

HARNESS = os.path.join(core.VERIF, 'tools', 'harness', 'c16_impl.py')
KF_MEMO, KF_ATTR, KF_GLOB = 'F-LOOKUP-MEMO-CROSS', 'F-ATTR-TESTS-CONST-FALSE', 'F-ENV-GLOBALS'
KF_SUBDIR, KF_SHADOW, KF_CHAIN = 'F-LOOKUP-SUBDIR-NAME', 'F-LOOKUP-USER-GENERAL-FIRST', 'F-LOOKUP-CHAIN-PAST-ANY'
KF_DANGLING = 'F-LOOKUP-DANGLING-LINK'


def load_known_fragment(chk: core.Check) -> None:
    """known_findings.json is merged by the lead from known_findings.d/; until then read our own fragment"""
    if any(e['id'] == KF_DANGLING for e in chk.known):
        return
    p = os.path.join(core.VERIF, 'known_findings.d', 'C16.json')
    if os.path.exists(p):
        with open(p, encoding='utf-8') as f:
            have = {e['id'] for e in chk.known}
            chk.known = list(chk.known) + [e for e in json.load(f)['findings'] if PROP in e['properties'] and e['id'] not in have]


# ---- encoding for the OCaml driver ---------------------------------------------------------------
def enc(s: str) -> str:
    return '.'.join(str(ord(c)) for c in s) if s else 'e'


def dec(s: str) -> str:
    return '' if s == 'e' else ''.join(chr(int(t)) for t in s.split('.'))


def enc_list(xs: typing.Sequence[str]) -> str:
    return ','.join(xs) if xs else '_'


def dec_list(s: str) -> typing.List[str]:
    return [] if s == '_' else s.split(',')


def stem(rel: str) -> typing.Optional[str]:
    """the property's reading: a file is the template of class X only if its NAME is exactly X.j2 (None = not a template)"""
    b = rel.rsplit('/', 1)[-1]
    return b[:-3] if (b.endswith('.j2') and len(b) > 3) else None


def enc_tset_raw(names: typing.Optional[typing.List[str]]) -> str:
    """raw listing, unsorted; sorting, suffix filter and stem are applied by the model"""
    if names is None:
        return '-'
    return enc_list([enc(n) for n in names])


def run_model(exe: str, lines: typing.List[str]) -> typing.List[str]:
    if not lines:
        return []
    p = core.run([exe], input='\n'.join(lines) + '\n', timeout=900)
    out = p.stdout.splitlines()
    if len(out) != len(lines):
        return ['EXC model produced %d lines for %d requests: %s' % (len(out), len(lines), p.stdout[-200:])] * len(lines)
    return out


def run_impl(doc: dict) -> dict:
    work = core.scratch('c16-')
    doc = dict(doc)
    doc['work'] = work
    p = core.run([core.PY, HARNESS], input=json.dumps(doc), env=core.repo_env(), timeout=1500)
    try:
        return json.loads(p.stdout[p.stdout.index('C16OUT') + 6:])
    except Exception:
        return {'harness_error': p.stdout[-600:]}


# ---- the property as an executable oracle (independent of the Coq model) -----------------------------------------
def loaders(case):
    """(user search paths in order | None, package listing | None) -- which loaders DSDLTemplateLoader.__init__ creates"""
    roots = None if case['fs'] is None else [case['fs']] + list(case.get('fs_more') or [])
    pkg = case['pkg'] if (case['pkg'] is not None and (case['policy'] == 'FIND_ALL' or roots is None)) else None
    return roots, pkg


def enc_roots(case) -> str:
    """raw, UNSORTED names per user search path (the model sorts and de-duplicates like the bundled loaders)"""
    if case['fs'] is None:
        return '-'
    return '|'.join(enc_list([enc(n) for n in r]) for r in [case['fs']] + list(case.get('fs_more') or []))


CHAIN_ENDS_AT_ANY = False   # regenerated fact: the walk of the code stops at pydsdl.Any
FACTS_UNKNOWN = False       # the loader has none of the pinned shapes: the two facts above are defaults, triggers are tried under every setting


def under_any_shape(fn) -> bool:
    global TOP_LEVEL_ONLY, CHAIN_ENDS_AT_ANY
    if not FACTS_UNKNOWN:
        return fn()
    saved = (TOP_LEVEL_ONLY, CHAIN_ENDS_AT_ANY)
    try:
        for TOP_LEVEL_ONLY in (False, True):
            for CHAIN_ENDS_AT_ANY in (False, True):
                if fn():
                    return True
        return False
    finally:
        TOP_LEVEL_ONLY, CHAIN_ENDS_AT_ANY = saved


def prop_chain(chains, cn: str) -> typing.List[str]:
    """the property: the inheritance chain of a PyDSDL type ENDS AT Any"""
    ch = chains[cn]
    return ch[:ch.index('Any') + 1] if 'Any' in ch else ch


def code_chain(chains, cn: str) -> typing.List[str]:
    return prop_chain(chains, cn) if CHAIN_ENDS_AT_ANY else chains[cn]


def chain_trigger(chains, case, cn: str) -> bool:
    """F-LOOKUP-CHAIN-PAST-ANY: an existing loader indexes a template named after a base of pydsdl.Any (abc.ABC)"""
    beyond = [k for k in chains[cn] if k not in prop_chain(chains, cn)]
    roots, pkg = loaders(case)
    idx = set(code_index([n for r in (roots or []) for n in r])) | set(code_index(pkg or []))
    return any(k in idx for k in beyond)


def oracle_rendered(chains, case) -> typing.List[str]:
    """the property: most specific class of the chain with a file named exactly <Class>.j2 in ANY root of the loader chain; the file
    rendered is the one in the first root (user search paths in order, then the package) that has it"""
    roots, pkg = loaders(case)
    out = []
    for cn in case['seq']:
        r = 'T'
        for k in prop_chain(chains, cn):
            name = k + '.j2'
            hit = next(('U%d' % i for i, root in enumerate(roots or []) if name in root), None)
            if hit is None and pkg is not None and name in pkg:
                hit = 'P'
            if hit is not None:
                r = 'R:%s:%s' % (hit, name)
                break
        out.append(r)
    return out


def impl_outcomes(got: dict) -> typing.List[str]:
    if 'out' in got:       # end-to-end stratum: the outcomes were read from the files generate_all wrote
        return list(got['out'])
    out = []
    for r, sfile in zip(got['res'], got['src']):
        if r is None:
            out.append('T')
        elif sfile is None:
            out.append('N:' + r.rsplit('/', 1)[-1])
        else:
            tag, rel = sfile.strip().split(':', 1)
            out.append('R:%s:%s' % (tag, rel))
    return out


def oracle_source(case, name: typing.Optional[str]) -> typing.Optional[str]:
    if name is None:
        return None
    roots, pkg = loaders(case)
    for i, root in enumerate(roots or []):
        if name in root:
            return 'U%d:%s' % (i, name)
    if pkg is not None and name in pkg:
        return 'P:' + name
    return None


TOP_LEVEL_ONLY = False   # set from the translator's regenerated fact: type_to_template indexes only templates without a directory part


def code_index(names) -> dict:
    """the index type_to_template builds (pathlib suffix/stem on the basename, sorted listing, later wins) -- trigger predicates only"""
    idx = {}
    for n in sorted(set(names)):
        if TOP_LEVEL_ONLY and '/' in n:
            continue
        b = n.rsplit('/', 1)[-1]
        i = b.rfind('.')
        if 0 < i < len(b) - 1 and b[i:] == '.j2':
            idx[b[:i]] = n
    return idx


def subdir_trigger(case) -> bool:
    """F-LOOKUP-SUBDIR-NAME: some indexed template of an existing loader lives in a sub-directory"""
    roots, pkg = loaders(case)
    names = [n for r in (roots or []) for n in r] + list(pkg or [])
    return any('/' in n for n in code_index(names).values()) or any('/' in n for r in (roots or []) for n in code_index(r).values())


def shadow_trigger(chains, case, cn: str) -> bool:
    """F-LOOKUP-USER-GENERAL-FIRST: a built-in template of a nearer class is passed over for a user template of a more general class"""
    roots, pkg = loaders(case)
    if roots is None or pkg is None:
        return False
    fi, pi = code_index([n for r in roots for n in r]), code_index(pkg)
    ch = code_chain(chains, cn)
    for k in ch:
        if k in fi:
            return False
        if k in pi:
            return any(a in fi for a in ch[ch.index(k) + 1:])
    return False


def oracle_alias(name: str) -> str:
    low = name.lower()
    for suf in ('type', 'field'):
        if low.endswith(suf) and len(low) > len(suf):
            return low[:-len(suf)]
    return low


def oracle_test(chains, roots: typing.Dict[str, str], name: str, v: dict) -> typing.Optional[bool]:
    root = roots.get(name)
    if root is None:
        return None
    return root in chains[v['cls']] or ('Attribute' in chains[v['cls']] and v['dt'] is not None and root in chains[v['dt']])


# ---- case generators -----------------------------------------------------------------------------------------
DECOYS = ['%s.inc.j2', '%s.draft.j2', '%s.j2.bak', '%s.txt', '%s.J2', '%s', '%s..j2', '%s.j2x', '%sx.j2', 'x%s.j2', '_%s.j2',
          '%s.j2.j2', '%s .j2', 'sub/%s.j2', 'Aaa/%s.j2', 'zz/deep/%s.j2', 'sub/%s.inc.j2', '%s.tmpl/inner.txt']


def decoys(rng, names: typing.Sequence[str], k: int) -> typing.List[str]:
    """files that are NOT named exactly <Class>.j2 at top level: multi-dot names, other suffixes, case variants, prefixes and
    suffixes of class names, and same-stem files in sub-directories (those DO count for the code: sorted-last wins)"""
    out = []
    for _ in range(k):
        x = rng.choice(names)
        kind = rng.randrange(len(DECOYS) + 3)
        if kind < len(DECOYS):
            out.append(DECOYS[kind] % x)
        elif kind == len(DECOYS):
            out.append(x.lower() + '.j2')
        elif kind == len(DECOYS) + 1:
            out.append(x[:-1] + '.j2')
        else:
            out.append(rng.choice(['.j2', 'base.j2', 'Namespace.j2', 'README.md', '__init__.py']))
    return out


def with_decoys(rng, real: typing.Optional[typing.List[str]], names, p: float, k: int = 4) -> typing.Optional[typing.List[str]]:
    if real is None or rng.random() > p:
        return real
    out = list(real)
    for dname in decoys(rng, names, rng.randrange(1, k + 1)):
        # no file and directory of the same name, no duplicate
        if dname not in out and not any(o.startswith(dname + '/') or dname.startswith(o + '/') for o in out):
            out.append(dname)
    return out


def gen_lookup_cases(rng, chains: typing.Dict[str, typing.List[str]], n: int, tier: str) -> typing.List[dict]:
    classes = sorted(chains)
    cases = []

    def tpl(names):
        return [x + '.j2' for x in names]
    # (0) fixed corpus of files that must NOT count (each alone in the user dir, the real template in the package), and that must
    for x, par in (('StructureType', 'CompositeType'), ('PrimitiveType', 'SerializableType'), ('Any', 'ABC')):
        if x in chains and par in chains.get(x, []):
            leaf = max((c for c in classes if x in chains[c]), key=lambda c: len(chains[c]))
            for pat in DECOYS + ['%s.inc.j2|%s.j2']:
                fs = [q % x for q in pat.split('|')]
                for pol in ('FIND_ALL', 'FIND_FIRST'):
                    cases.append({'policy': pol, 'fs': fs + tpl([par]), 'pkg': tpl([x]), 'seq': [leaf, x, leaf], 'get': [fs[0], x + '.j2']})
            cases.append({'policy': 'FIND_ALL', 'fs': [x.lower() + '.j2', x[:-1] + '.j2'], 'pkg': tpl([x]), 'seq': [leaf, x], 'get': []})
            cases.append({'policy': 'FIND_ALL', 'fs': None, 'pkg': [x + '.inc.j2', x + '.draft.j2'] + tpl([par]), 'seq': [leaf, x], 'get': []})
    # (a) fixed corpus: the memo-cross shape in several places of the hierarchy, shadowing, policies, sub-directory
    for anc, desc, sib in (('IntegerType', 'UnsignedIntegerType', 'SignedIntegerType'), ('Any', 'StructureType', 'VoidType'),
                           ('CompositeType', 'UnionType', 'ServiceType'), ('SerializableType', 'ByteType', 'BooleanType'),
                           ('Attribute', 'PaddingField', 'Constant'), ('ABC', 'Any', 'Set')):
        if all(x in chains for x in (anc, desc, sib)) and anc in chains[desc] and anc in chains[sib]:
            for fs in ([], ['base.j2'], tpl([anc]), tpl([desc])):
                for pol in ('FIND_ALL', 'FIND_FIRST'):
                    cases.append({'policy': pol, 'fs': fs, 'pkg': tpl([anc, desc]), 'seq': [sib, desc, anc, desc], 'get': tpl([anc, desc, sib])})
            cases.append({'policy': 'FIND_ALL', 'fs': None, 'pkg': tpl([anc, desc]), 'seq': [sib, desc], 'get': []})
            cases.append({'policy': 'FIND_ALL', 'fs': tpl([anc, desc]), 'pkg': None, 'seq': [sib, desc], 'get': []})
    cases.append({'policy': 'FIND_ALL', 'fs': ['CompositeType.j2'], 'pkg': ['StructureType.j2'], 'seq': ['StructureType'], 'get': ['StructureType.j2']})
    # several user search paths: first path wins for the same name, the more specific class may live in a later path, sub-directory
    for pol in ('FIND_ALL', 'FIND_FIRST'):
        cases.append({'policy': pol, 'fs': ['CompositeType.j2'], 'fs_more': [['StructureType.j2', 'CompositeType.j2']], 'pkg': ['StructureType.j2'],
                      'seq': ['StructureType', 'UnionType', 'StructureType'], 'get': ['CompositeType.j2', 'StructureType.j2']})
        cases.append({'policy': pol, 'fs': [], 'fs_more': [['Any.j2'], ['Any.j2', 'VoidType.j2']], 'pkg': ['VoidType.j2'],
                      'seq': ['VoidType', 'BooleanType'], 'get': ['Any.j2', 'VoidType.j2']})
        cases.append({'policy': pol, 'fs': ['sub/StructureType.j2', 'CompositeType.j2'], 'pkg': ['StructureType.j2'], 'seq': ['StructureType'], 'get': []})
        cases.append({'policy': pol, 'fs': ['CompositeType.j2'], 'fs_more': [['sub/StructureType.j2']], 'pkg': [], 'seq': ['StructureType'], 'get': []})
    cases.append({'policy': 'FIND_ALL', 'fs': ['StructureType.j2'], 'pkg': ['StructureType.j2'], 'seq': ['StructureType'], 'get': ['StructureType.j2']})
    cases.append({'policy': 'FIND_ALL', 'fs': ['sub/StructureType.j2', 'Any.txt', 'notes.md'], 'pkg': ['StructureType.j2'], 'seq': ['StructureType', 'UnionType'], 'get': []})
    cases.append({'policy': 'FIND_FIRST', 'fs': ['x/y/Any.j2'], 'pkg': ['StructureType.j2'], 'seq': ['StructureType'], 'get': []})
    # dangling links named like type templates (listed by the loader, not loadable): the nearest LOADABLE template counts
    for pol in ('FIND_FIRST', 'FIND_ALL'):
        cases.append({'policy': pol, 'fs': ['CompositeType.j2'], 'dangling': ['StructureType.j2'], 'pkg': [], 'seq': ['StructureType', 'UnionType'], 'get': []})
        cases.append({'policy': pol, 'fs': ['Any.j2'], 'dangling': ['VoidType.j2', 'SerializableType.j2'], 'pkg': ['VoidType.j2'],
                      'seq': ['VoidType', 'BooleanType', 'VoidType'], 'get': []})
    # (b) every class x subsets of its own chain in the user / built-in sets, cold and warm
    per_class = max(2, (n // 2) // max(1, len(classes)))
    for cn in classes:
        ch = chains[cn]
        for _ in range(per_class):
            fs = None if rng.random() < 0.12 else tpl([a for a in ch if rng.random() < rng.choice([0.1, 0.3, 0.6])])
            pkg = None if rng.random() < 0.12 else tpl([a for a in ch if rng.random() < rng.choice([0.2, 0.5, 0.8])])
            fs = with_decoys(rng, fs, ch, 0.5)
            pkg = with_decoys(rng, pkg, ch, 0.3)
            warm = [rng.choice(ch + classes[:3]) for _ in range(rng.randrange(0, 4))]
            case = {'policy': rng.choice(['FIND_ALL', 'FIND_ALL', 'FIND_FIRST']), 'fs': fs, 'pkg': pkg, 'seq': warm + [cn] + warm[:1],
                    'get': rng.sample(tpl(ch), min(2, len(ch)))}
            if fs is not None and rng.random() < 0.3:   # further user search paths, overlapping names included
                case['fs_more'] = [with_decoys(rng, tpl([a for a in ch if rng.random() < 0.4]), ch, 0.3) for _ in range(rng.randrange(1, 3))]
            cases.append(case)
    # (c) random sets over all class names, longer sequences biased towards related classes
    while len(cases) < n:
        focus = chains[rng.choice(classes)]
        related = [c for c in classes if set(chains[c]) & set(focus[:max(1, len(focus) - 2)])] or classes
        pool = related if rng.random() < 0.7 else classes
        dens = rng.choice([0.05, 0.15, 0.35])
        fs = None if rng.random() < 0.1 else tpl([c for c in classes if rng.random() < dens])
        pkg = None if rng.random() < 0.1 else tpl([c for c in classes if rng.random() < rng.choice([0.1, 0.3, 0.5])])
        fs = with_decoys(rng, fs, pool, 0.5, 6)
        pkg = with_decoys(rng, pkg, pool, 0.3, 6)
        seq = [rng.choice(pool) for _ in range(rng.randrange(1, 8 if tier == 'quick' else 14))]
        get = rng.sample(fs, min(2, len(fs))) if fs and rng.random() < 0.3 else []
        cases.append({'policy': rng.choice(['FIND_ALL', 'FIND_ALL', 'FIND_FIRST']), 'fs': fs, 'pkg': pkg, 'seq': seq, 'get': get})
    return cases


E2E_NAMES = ['StructureType', 'UnionType', 'DelimitedType', 'ServiceType', 'CompositeType', 'SerializableType', 'Any', 'ABC']


def gen_e2e_cases(rng, n: int) -> typing.List[dict]:
    """real DSDLCodeGenerator.generate_all over a namespace with a structure, a union, a delimited type and a service: user template
    dirs (marker templates) incl. sub-directories, a user Any.j2, several dirs, no dir at all (built-in templates), both policies"""
    def tpl(names):
        return [x + '.j2' for x in names]
    cases = [
        {'lang': 'c', 'policy': 'FIND_FIRST', 'dirs': None},
        {'lang': 'py', 'policy': 'FIND_FIRST', 'dirs': None},
        {'lang': 'c', 'policy': 'FIND_FIRST', 'dirs': [tpl(['Any'])]},
        {'lang': 'py', 'policy': 'FIND_ALL', 'dirs': [tpl(['Any'])]},
        {'lang': 'c', 'policy': 'FIND_FIRST', 'dirs': [tpl(['StructureType', 'UnionType', 'DelimitedType', 'ServiceType'])]},
        {'lang': 'c', 'policy': 'FIND_FIRST', 'dirs': [['sub/StructureType.j2', 'CompositeType.j2']]},
        {'lang': 'c', 'policy': 'FIND_ALL', 'dirs': [['sub/StructureType.j2', 'CompositeType.j2']]},
        {'lang': 'py', 'policy': 'FIND_FIRST', 'dirs': [tpl(['CompositeType']), tpl(['StructureType', 'CompositeType'])]},
        {'lang': 'c', 'policy': 'FIND_FIRST', 'dirs': [tpl(['ABC'])]},
        {'lang': 'c', 'policy': 'FIND_ALL', 'dirs': [tpl(['ABC', 'UnionType'])]},
        {'lang': 'py', 'policy': 'FIND_FIRST', 'dirs': [['StructureType.inc.j2', 'UnionType.j2', 'parts/ServiceType.j2']]},
        {'lang': 'c', 'policy': 'FIND_FIRST', 'dirs': [[]]},
    ]
    while len(cases) < n:
        dirs = []
        for _ in range(rng.choice([1, 1, 2, 3])):
            names = tpl([x for x in E2E_NAMES if rng.random() < rng.choice([0.15, 0.35, 0.6])])
            dirs.append(with_decoys(rng, names, E2E_NAMES, 0.4) or [])
        cases.append({'lang': rng.choice(['c', 'py']), 'policy': rng.choice(['FIND_FIRST', 'FIND_FIRST', 'FIND_ALL']), 'dirs': dirs})
    return cases


def exhaustive_chain_cases(chains) -> typing.List[dict]:
    """thorough: the deepest chain, EVERY pair of subsets of it (user x built-in), lookup of the leaf after its parent (warm memo)"""
    leaf = max(chains, key=lambda c: (len(chains[c]), c))
    ch = chains[leaf][:6]
    cases = []
    for a in range(1 << len(ch)):
        for b in range(1 << len(ch)):
            fs = [ch[i] + '.j2' for i in range(len(ch)) if a >> i & 1]
            pkg = [ch[i] + '.j2' for i in range(len(ch)) if b >> i & 1]
            cases.append({'policy': 'FIND_ALL', 'fs': fs, 'pkg': pkg, 'seq': [ch[1], leaf, ch[2], leaf], 'get': []})
    return cases


def fresh_name(rng) -> str:
    return 'zz_' + ''.join(rng.choice('abcdefghij_') for _ in range(rng.randrange(1, 9)))


def gen_env_cases(rng, d: dict, tier: str) -> typing.List[dict]:
    cases = []
    dsdl_names = sorted({n for r in d['roots'].values() for n in r} | {oracle_alias(n) for r in d['roots'].values() for n in r})
    langs = sorted(d['env'])
    reserved = d['reserved_namespaces'] + d['reserved_names']
    for lang in langs:
        e = d['env'][lang]
        full = lang == 'c' or tier != 'quick'
        gl = sorted(set(e['globals']) | set(reserved) | set(d['jinja_globals']))
        for n in (gl if full else rng.sample(gl, 6)):
            cases.append({'lang': lang, 'allow': False, 'globals': {n: 1}, 'filters': None, 'tests': None, 'dsdl': False, 'post': []})
        fl = sorted(set(e['filters']) | set(d['gen_filters']))
        for n in (fl if full else rng.sample(fl, 8)):
            cases.append({'lang': lang, 'allow': False, 'globals': None, 'filters': {n: 2}, 'tests': None, 'dsdl': n in d['gen_filters'], 'post': []})
        tl = sorted(set(e['tests']) | set(dsdl_names) | set(d['gen_tests']))
        for n in (tl if full else rng.sample(tl, 8)):
            cases.append({'lang': lang, 'allow': False, 'globals': None, 'filters': None, 'tests': {n: 3},
                          'dsdl': n in dsdl_names or n in d['gen_tests'], 'post': []})
    # a language without a template package (js) cannot build a DSDLCodeGenerator without user templates: plain environment only
    for c in cases:
        if c['lang'] not in (d.get('templates') or {}):
            c['dsdl'] = False
    # random mixtures, post-construction additions, allow_replacements
    for _ in range(60 if tier == 'quick' else 600):
        lang = rng.choice(langs)
        e = d['env'][lang]

        def pick(pool, k):
            out = {}
            for i in range(rng.randrange(0, k)):
                out[rng.choice(pool) if rng.random() < 0.35 else fresh_name(rng)] = 10 + i
            return out
        dsdl = rng.random() < 0.25 and lang in (d.get('templates') or {})
        post = []
        for i in range(rng.randrange(0, 4)):
            kind = rng.choice(['test', 'filter'])
            pool = (e['tests'] + dsdl_names) if kind == 'test' else e['filters']
            post.append([kind, rng.choice(pool) if rng.random() < 0.3 else fresh_name(rng), 50 + i])
        cases.append({'lang': lang, 'allow': (not dsdl) and rng.random() < 0.3,
                      'globals': pick(e['globals'] + reserved, 3) if rng.random() < 0.6 else None,
                      'filters': pick(e['filters'], 3) if rng.random() < 0.6 else None,
                      'tests': pick(e['tests'] + dsdl_names, 3) if rng.random() < 0.6 else None,
                      'dsdl': dsdl, 'post': post})
    return cases


def env_line(c: dict, q_unchecked: bool) -> str:
    def named(m):
        return enc_list(['%s=%d' % (enc(k), v) for k, v in (m or {}).items()])
    post = enc_list(['%s:%s=%d' % ('t' if k == 'test' else 'f', enc(n), v) for k, n, v in c['post']])
    return ' '.join(['E', '1' if c['allow'] else '0', '1' if q_unchecked else '0', '1' if c['dsdl'] else '0', enc(c['lang']),
                     named(c['globals']), named(c['filters']), named(c['tests']), post])


def parse_env(line: str) -> typing.Optional[dict]:
    if line == 'ERR':
        return None
    t = line.split(' ')
    if t[0] != 'OK':
        return {'bad': line[:200]}
    out = {}
    for key, blob in (('globals', t[2]), ('filters', t[4]), ('tests', t[6])):
        m = {}
        for item in dec_list(blob):
            k, v = item.rsplit('=', 1)
            m[dec(k)] = v
        out[key] = m
    return out


def env_oracle(c: dict, ref: dict, got: dict, d: dict) -> typing.Optional[str]:
    """the property on one environment case; returns a complaint or None.  ref = result of the same case without user additions"""
    user = {k: set((c.get(k) or {})) for k in ('globals', 'filters', 'tests')}
    for kind, name, _ in c['post']:
        user['tests' if kind == 'test' else 'filters'].add(name)
    if 'err' in got:
        return None if got['err'] == 'RuntimeError' else 'unexpected exception %s' % got
    for coll in ('globals', 'filters', 'tests'):
        for n, tag in got[coll].items():
            if n in ref[coll] and tag.startswith('U') and not (c['allow'] and coll != 'globals'):
                return '%s[%r] was defined by the environment and is now the user object %s (no error raised)' % (coll, n, tag)
    return None


# ---- main ---------------------------------------------------------------------------------------------------------
def main(chk: core.Check, replay: typing.Optional[str] = None) -> int:
    load_known_fragment(chk)
    res = core.coq_check('C16', ['lookup', 'pin_c16_loader', 'pin_c16_env', 'pin_c16_wiring', 'pin_c16_surface'])
    chk.proof_coverage(res, [
        'C16 translator tools/translators/gen_c16.py: T1 dump of the pydsdl forest / template listings / bundled jinja2 names / per-language '
        'environment names / RESERVED_GLOBAL_ sets / TEMPLATE_SUFFIX, T2 translation of the alias rule and of _field_is_instance, of the '
        'gate on additional_globals, statement order of CodeGenEnvironment.__init__',
        'shape pins (tools/translators/shape_pin.py, pins/c16_loader.txt, pins/c16_env.txt) for the hand-modelled loader functions and '
        '_add_to_environment/add_test/_add_each_to_environment; model of pathlib suffix/stem (Python 3.12 semantics) in Gen/Lookup.v',
        'hand models Gen/Lookup.v (loader, instance tests) and Gen/LookupEnv.v (environment), tied by the correspondence run below',
        'extraction: Require Extraction ExtrOcamlBasic only; OCaml 4.13.1; ocaml/c16_driver.ml',
    ])
    broken: typing.List[str] = []
    if not res.ok:
        broken.append('proof obligation: %s %s' % (res.failed_file or 'translator', res.failed_theorem or ''))
    ok_model, exe, log = core.build_extracted('c16', 'ExtractC16.v', 'c16_driver.ml')
    if not ok_model:
        broken.append('model does not build/extract: ' + log[-300:])

    d = None
    try:
        from tools.translators import gen_c16
        d = gen_c16.data()
        ids = gen_c16.class_ids(d)
        global TOP_LEVEL_ONLY, CHAIN_ENDS_AT_ANY, FACTS_UNKNOWN
        FACTS_UNKNOWN = d.get('loader_shape') is None
        TOP_LEVEL_ONLY = bool(d.get('index_top_level_only'))
        CHAIN_ENDS_AT_ANY = bool(d.get('chain_ends_at_any'))
    except Exception as ex:  # translator failed closed: keep going with the oracle only
        broken.append('translator data unavailable: %s' % ex)
        ids = {}
        try:
            d = gen_c16.fallback_data()
        except Exception as ex2:
            d = None
            broken.append('fallback dump unavailable: %s' % ex2)

    # ---- probes of the listed findings on the implementation -------------------------------------------------------
    probe_doc = {'lookup': [{'policy': 'FIND_ALL', 'fs': [], 'pkg': ['IntegerType.j2', 'UnsignedIntegerType.j2'],
                             'seq': ['SignedIntegerType', 'UnsignedIntegerType'], 'get': []},
                            {'policy': 'FIND_ALL', 'fs': ['sub/StructureType.j2', 'CompositeType.j2'], 'pkg': ['StructureType.j2'],
                             'seq': ['StructureType'], 'get': []},
                            {'policy': 'FIND_ALL', 'fs': ['CompositeType.j2'], 'pkg': ['StructureType.j2'], 'seq': ['StructureType'], 'get': []},
                            {'policy': 'FIND_FIRST', 'fs': ['ABC.j2'], 'pkg': ['StructureType.j2'], 'seq': ['StructureType'], 'get': []},
                            {'policy': 'FIND_FIRST', 'fs': ['CompositeType.j2'], 'dangling': ['StructureType.j2'], 'pkg': [],
                             'seq': ['StructureType'], 'get': []}],
                 'tests': True,
                 'env': [{'lang': 'c', 'allow': False, 'globals': {'range': 1}, 'filters': None, 'tests': None, 'dsdl': False, 'post': []}]}
    probe = run_impl(probe_doc)
    if 'harness_error' in probe:
        chk.violation({'what': 'C16 harness could not run', 'output': probe['harness_error'], 'broken': broken}, found_input=False)
        return chk.finish()
    live_memo = probe['lookup'][0].get('res') == ['IntegerType.j2', 'IntegerType.j2']
    tv = probe['tests']
    if 'err' in tv:
        chk.violation({'what': 'instance-test harness failed', 'output': tv['err'], 'broken': broken}, found_input=False)
        return chk.finish()
    live_attr = any(v['cls'] == 'PaddingField' and v['res'].get('padding') is False for v in tv['values'])
    live_glob = probe['env'][0].get('globals', {}).get('range') == 'U1'
    live_subdir = 'err' not in probe['lookup'][1] and impl_outcomes(probe['lookup'][1]) == ['R:P:StructureType.j2']
    live_shadow = 'err' not in probe['lookup'][2] and impl_outcomes(probe['lookup'][2]) == ['R:U0:CompositeType.j2']
    live_chain = 'err' not in probe['lookup'][3] and impl_outcomes(probe['lookup'][3]) == ['R:U0:ABC.j2']
    q_chain = live_chain and chk.is_known(KF_CHAIN)
    live_dangling = 'err' not in probe['lookup'][4] and impl_outcomes(probe['lookup'][4]) == ['N:StructureType.j2']
    q_dangling = live_dangling and chk.is_known(KF_DANGLING)
    # a finding that is not listed as `known` (i.e. fixed, or never listed) whose witness reproduces is a regression: VIOLATION with the witness
    regressions = []
    for fid, live, witness in ((KF_MEMO, live_memo, probe_doc['lookup'][0]), (KF_SUBDIR, live_subdir, probe_doc['lookup'][1]),
                               (KF_CHAIN, live_chain, probe_doc['lookup'][3]), (KF_DANGLING, live_dangling, probe_doc['lookup'][4]),
                               (KF_ATTR, live_attr, {'test': 'padding', 'value': 'PaddingField of a parsed structure'}),
                               (KF_GLOB, live_glob, probe_doc['env'][0])):
        if live and not chk.is_known(fid):
            regressions.append((fid, witness))
    q_subdir = live_subdir and chk.is_known(KF_SUBDIR)
    q_shadow = live_shadow and chk.is_known(KF_SHADOW)
    for fid, live in ((KF_MEMO, live_memo), (KF_ATTR, live_attr), (KF_GLOB, live_glob), (KF_SUBDIR, live_subdir), (KF_SHADOW, live_shadow), (KF_CHAIN, live_chain),
                      (KF_DANGLING, live_dangling)):
        if live and chk.is_known(fid):
            chk.report_known(fid)
    q_shared = live_memo and chk.is_known(KF_MEMO)
    q_dt = live_attr and chk.is_known(KF_ATTR)
    q_glob = live_glob and chk.is_known(KF_GLOB)

    # chains of the real classes as the implementation sees them (oracle input; independent of the translator)
    chains_doc = run_chain_dump()
    if chains_doc is None:
        chk.violation({'what': 'could not dump class chains', 'broken': broken}, found_input=False)
        return chk.finish()
    chains = chains_doc

    # ---- 1. lookups ----------------------------------------------------------------------------------------------------
    n_cases = 2500 if chk.tier == 'quick' else 30000
    if replay:
        doc = json.load(open(replay))
        lk_cases = [doc['lookup_case']] if 'lookup_case' in doc else []
        env_cases = [doc['env_case']] if 'env_case' in doc else []
    else:
        lk_cases = gen_lookup_cases(chk.rng, chains, n_cases, chk.tier)
        if chk.tier != 'quick':
            lk_cases += exhaustive_chain_cases(chains)
        env_cases = gen_env_cases(chk.rng, d, chk.tier) if d else []
    ref_cases = []
    seen_ref = {}
    for c in env_cases:
        key = (c['lang'], c['dsdl'])
        if key not in seen_ref:
            seen_ref[key] = len(ref_cases)
            ref_cases.append({'lang': c['lang'], 'allow': False, 'globals': None, 'filters': None, 'tests': None, 'dsdl': c['dsdl'], 'post': []})
    e2e_specs = [] if replay else gen_e2e_cases(chk.rng, 36 if chk.tier == 'quick' else 300)
    impl = run_impl({'lookup': lk_cases, 'env': ref_cases + env_cases, 'e2e': e2e_specs})
    if 'harness_error' in impl:
        chk.violation({'what': 'C16 harness could not run', 'output': impl['harness_error'], 'broken': broken}, found_input=False)
        return chk.finish()
    # end-to-end stratum: every real generate_all run becomes a lookup case whose outcomes were read from the generated files
    n_plain = len(lk_cases)
    tpl_listing = (d or {}).get('templates') or {}
    for spec, r in zip(e2e_specs, impl.get('e2e', [])):
        if 'err' in r:
            lk_cases.append({'policy': spec['policy'], 'fs': None, 'pkg': None, 'seq': [], 'get': [], 'e2e': spec})
            impl['lookup'].append({'err': 'end-to-end run failed: ' + r['err']})
            continue
        dirs = spec['dirs']
        lk_cases.append({'policy': spec['policy'], 'fs': None if dirs is None else dirs[0], 'fs_more': [] if dirs is None else dirs[1:],
                         'pkg': list(tpl_listing.get(spec['lang'], [])), 'seq': r['seq'], 'get': [], 'e2e': spec})
        impl['lookup'].append({'out': r['out'], 'res': [None] * len(r['seq']), 'src': [None] * len(r['seq']), 'get': []})

    stats = {'decoy_files': sum(1 for c in lk_cases[:n_plain] for k in ('fs', 'pkg') for x in (c[k] or []) if stem(x) not in chains or '/' in x),
             'lookup_cases': n_plain, 'lookups': 0, 'warm_lookups': 0, 'both_loaders': 0, 'find_first': 0, 'multi_user_dirs': 0,
             'subdir_trigger_cases': 0, 'shadow_trigger_lookups': 0, 'known_subdir_instances': 0, 'known_shadow_instances': 0, 'known_chain_instances': 0, 'known_dangling_instances': 0, 'dangling_cases': 0, 'e2e_cases': 0, 'e2e_types_generated': 0,
             'rendered_none': 0, 'rendered_user': 0, 'rendered_user_not_first_dir': 0, 'rendered_builtin': 0, 'nearest_not_self': 0,
             'template_not_found': 0, 'test_evaluations': 0, 'test_values': 0, 'known_attr_instances': 0, 'known_memo_instances': 0,
             'env_cases': len(env_cases), 'env_errors': 0, 'env_dsdl_mode': 0, 'known_glob_instances': 0, 'env_allow': 0}
    distinct = set()
    bad_oracle, bad_model = [], []
    traces = 0

    lines = []
    if ok_model and ids:
        for c in lk_cases:
            pol = 'A' if c['policy'] == 'FIND_ALL' else 'F'
            lines.append(' '.join(['L', '1' if q_shared else '0', pol, enc_roots(c), enc_tset_raw(c['pkg']), enc_list([str(ids[x]) for x in c['seq']])]))
            lines.append(' '.join(['G', pol, enc_roots(c), enc_tset_raw(c['pkg']), enc_list([enc(x) for x in c['get']])]))
    mout = run_model(exe, lines) if lines else None
    for i, c in enumerate(lk_cases):
        got = impl['lookup'][i]
        prop = oracle_rendered(chains, c)
        roots, pkg = loaders(c)
        sub_t = subdir_trigger(c)
        stats['lookups'] += len(c['seq'])
        stats['warm_lookups'] += max(0, len(c['seq']) - 1)
        stats['both_loaders'] += roots is not None and pkg is not None
        stats['find_first'] += c['policy'] == 'FIND_FIRST'
        stats['multi_user_dirs'] += roots is not None and len(roots) > 1
        stats['subdir_trigger_cases'] += sub_t
        model = None
        if mout is not None:
            a, b = mout[2 * i].split(' '), mout[2 * i + 1].split(' ')
            if a[0] == 'R' and b[0] == 'G' and len(a) == 12:
                def outs(blob):
                    return [x if x == 'T' else (x[:2] + dec(x[2:]) if x.startswith('N:') else x[:x.index(':', 2) + 1] + dec(x[x.index(':', 2) + 1:]))
                            for x in dec_list(blob)]
                model = {'res': [None if x == '-' else dec(x) for x in dec_list(a[1])],
                         'spec': [None if x == '-' else dec(x) for x in dec_list(a[3])],
                         'out': outs(a[5]), 'prop': outs(a[7]), 'flat': a[9] == '1', 'shadow_free': [x == '1' for x in dec_list(a[11])],
                         'get': [None if x == 'N' else x for x in dec_list(b[1])]}
            else:
                model = {'bad': mout[2 * i][:200]}
        if 'err' in got:
            bad_oracle.append(('lookup', c, 'no exception', got['err'], model))
            continue
        iout = impl_outcomes(got)
        if c.get('e2e'):   # a built-in template leaves no marker: only the origin is observable
            stats['e2e_cases'] += 1
            stats['e2e_types_generated'] += sum(1 for o in iout if o.startswith('R:'))
            prop = ['R:P' if o.startswith('R:P:') else o for o in prop]
            if model is not None and 'bad' not in model:
                model['out'] = ['R:P' if o.startswith('R:P:') else o for o in model['out']]
                model['prop'] = ['R:P' if o.startswith('R:P:') else o for o in model['prop']]
        exp_get = [oracle_source(c, n) for n in c['get']]
        got_get = [None if x is None else x.strip() for x in got['get']]
        for j, cn in enumerate(c['seq']):
            o = prop[j]
            stats['rendered_none'] += o == 'T'
            stats['rendered_user'] += o.startswith('R:U')
            stats['rendered_user_not_first_dir'] += o.startswith('R:U') and not o.startswith('R:U0')
            stats['rendered_builtin'] += o.startswith('R:P')
            stats['nearest_not_self'] += o.startswith('R:') and o.rsplit(':', 1)[-1] != cn + '.j2'
            stats['template_not_found'] += iout[j].startswith('N:')
        key = (c['policy'], json.dumps([c['fs'], c.get('fs_more'), c['pkg']]), tuple(c['seq']))
        if len(c['seq']) > 1 and any(o != 'T' for o in prop):
            distinct.add(key)
        # the property on the implementation (rendered file per lookup, and get_source on the extra names)
        for j, cn in enumerate(c['seq']):
            if iout[j] == prop[j]:
                continue
            if got['res'][j] is not None and '/' in got['res'][j] and not live_subdir and iout[j].startswith('R:') \
                    and iout[j].split(':', 2)[2] == got['res'][j]:
                continue   # F-LOOKUP-SUBDIR-NAME repaired by rendering the chosen sub-directory file itself: chosen == rendered
            if q_dangling and iout[j].startswith('N:') and iout[j][2:] in (c.get('dangling') or []):
                stats['known_dangling_instances'] += 1
                continue
            sh_t = under_any_shape(lambda: shadow_trigger(chains, c, cn))
            stats['shadow_trigger_lookups'] += sh_t
            # the quirk-faithful model must reproduce the instance; if the model cannot be built, or a proof obligation / pin is broken
            # (the regenerated facts the model is instantiated with are then defaults), the trigger alone decides
            same_as_model = (mout is None) or (not res.ok) or (model is not None and 'bad' not in model and model['out'][j] == iout[j])
            if sub_t and q_subdir and same_as_model and got['res'][j] is not None and '/' in got['res'][j]:
                stats['known_subdir_instances'] += 1
            elif q_chain and same_as_model and chain_trigger(chains, c, cn):
                stats['known_chain_instances'] += 1
            elif sh_t and q_shadow and same_as_model:
                stats['known_shadow_instances'] += 1
            else:
                bad_oracle.append(('lookup', c, {'rendered': prop, 'lookup_index': j}, {'rendered': iout, 'res': got['res']}, model))
                break
        else:
            if got_get != exp_get:
                bad_oracle.append(('lookup', c, {'get': exp_get}, {'get': got_get}, model))
        if c.get('dangling'):
            stats['dangling_cases'] += 1
        if model is not None and not (c.get('dangling') and live_dangling):   # dangling names are outside the model while the code indexes them
            traces += 1
            mget = [None if g is None else g for g in model.get('get', [])]
            iget = [None if g is None else g.split(':', 1)[0] for g in got_get]
            if 'bad' in model or (not c.get('e2e') and model['res'] != got['res']) or model['out'] != iout or mget != iget:
                bad_model.append(('lookup', c, model, {'res': got['res'], 'rendered': iout, 'get': got_get}))
            elif not q_shared and model['res'] != model['spec']:
                bad_model.append(('lookup: model differs from its own nearest-ancestor spec', c, model, got))
            elif model['prop'] != prop:
                bad_model.append(('lookup: Coq statement of the property (p_spec_rendered) differs from the Python oracle', c, model, prop))
            elif any(model['flat'] and sf and model['out'][j] != model['prop'][j] and (CHAIN_ENDS_AT_ANY or not chain_trigger(chains, c, c['seq'][j]))
                     for j, sf in enumerate(model['shadow_free'])):
                bad_model.append(('lookup: model contradicts C16_rendered_file_partial', c, model, got))

    # ---- 2. instance tests on real pydsdl objects -------------------------------------------------------------------------
    roots = {}
    for order in (d['roots'].values() if d else []):
        for cn in order:
            roots[cn] = cn
            roots[oracle_alias(cn)] = cn
    if d is None:  # fall back to the implementation's own class list for the oracle
        for cn in chains:
            if 'SerializableType' in chains[cn] or 'Attribute' in chains[cn]:
                roots[cn] = cn
                roots[oracle_alias(cn)] = cn
    if sorted(tv['names']) != sorted(roots):
        bad_oracle.append(('tests', 'names', sorted(roots), sorted(tv['names']), None))
    for lang, missing in tv['env_has'].items():
        if missing:
            bad_oracle.append(('tests', 'env.tests of %s lacks' % lang, [], missing, None))
    tlines, tkeys = [], []
    for v in tv['values']:
        stats['test_values'] += 1
        for name in sorted(tv['names']):
            if name not in v['res']:
                continue
            stats['test_evaluations'] += 1
            e = oracle_test(chains, roots, name, v)
            g = v['res'][name]
            trig = v['dt'] is not None and roots.get(name) in chains[v['cls']]
            if g != e:
                if trig and q_dt:
                    stats['known_attr_instances'] += 1
                else:
                    bad_oracle.append(('test', {'name': name, 'value': {'cls': v['cls'], 'dt': v['dt']}}, e, g, None))
            if ok_model and ids and v['cls'] in ids and (v['dt'] is None or v['dt'] in ids):
                tlines.append('T %s %s %d %d' % ('1' if q_dt else '0', enc(name), ids[v['cls']], ids[v['dt']] if v['dt'] else ids[v['cls']]))
                tkeys.append((name, v, g))
    tout = run_model(exe, tlines) if tlines else []
    for (name, v, g), line in zip(tkeys, tout):
        t = line.split(' ')
        traces += 1
        if t[0] != 'T' or t[1] != ('1' if g else '0'):
            bad_model.append(('test', {'name': name, 'value': {'cls': v['cls'], 'dt': v['dt']}}, line, g))
        distinct.add(('test', name, v['cls'], v['dt']))

    # ---- 3. environment ---------------------------------------------------------------------------------------------------
    refs = impl['env'][:len(ref_cases)]
    env_got = impl['env'][len(ref_cases):]
    elines = [env_line(c, q_glob) for c in env_cases] if (ok_model and d) else []
    eout = run_model(exe, elines) if elines else None
    for i, c in enumerate(env_cases):
        got = env_got[i]
        ref = refs[seen_ref[(c['lang'], c['dsdl'])]]
        stats['env_dsdl_mode'] += c['dsdl']
        stats['env_allow'] += c['allow']
        stats['env_errors'] += 'err' in got
        if 'err' in ref:
            bad_oracle.append(('env', c, 'reference environment builds', ref, None))
            continue
        glob_trig = any(n in ref['globals'] and n not in (d['reserved_namespaces'] + d['reserved_names'])
                        and n in d['jinja_globals'] for n in (c['globals'] or {}))
        complaint = env_oracle(c, ref, got, d)
        model = parse_env(eout[i]) if eout is not None else 'n/a'
        if complaint:
            same = model not in ('n/a', None) and 'bad' not in model and 'err' not in got and all(model[k] == got[k] for k in ('globals', 'filters', 'tests'))
            if glob_trig and q_glob and same:
                stats['known_glob_instances'] += 1
            else:
                bad_oracle.append(('env', c, complaint, got, model))
        if eout is not None:
            traces += 1
            distinct.add(('env', json.dumps(c, sort_keys=True)))
            if model is None:
                if 'err' not in got or got['err'] != 'RuntimeError':
                    bad_model.append(('env', c, 'ERR', got))
            elif 'bad' in model:
                bad_model.append(('env', c, model, got))
            elif 'err' in got:
                bad_model.append(('env', c, 'no error', got))
            else:
                for k in ('globals', 'filters', 'tests'):
                    if model[k] != got[k]:
                        diff = {n: (model[k].get(n), got[k].get(n)) for n in set(model[k]) | set(got[k]) if model[k].get(n) != got[k].get(n)}
                        bad_model.append(('env', c, {'collection': k, 'model_vs_impl': diff}, None))
                        break

    chk.coverage.update({
        'evaluations': stats['lookups'] + stats['test_evaluations'] + len(env_cases),
        'distinct_nontrivial': len(distinct),
        'rule': 'lookup: fixed corpus (memo-cross shape at six places of the hierarchy x user-set variants x both policies, shadowing, '
                'sub-directories, every decoy pattern -- X.inc.j2, X.draft.j2, X.j2.bak, X.txt, X.J2, x.j2, prefixes/suffixes of class names, '
                'same stem in sub-directories -- alone in the user dir with the real template in the package) + every class of the dumped forest x random subsets of its own chain as user / built-in templates x warm-up '
                'lookups, decoy files mixed into half of the user sets and a third of the built-in sets + random sets over all class names with sequences of up to 7 (quick) / 13 (thorough) lookups biased to related '
                'classes' + ('; + every pair of subsets of the deepest chain (6 classes) with warm memo' if chk.tier != 'quick' else '') +
                '; tests: every DSDL test name x every object of a parsed namespace (types, fields, padding, constants, element and tag '
                'types); env: every name present in a fresh environment / reserved / DSDL test / generator method as additional global, '
                'filter and test (all languages in thorough, C fully + samples in quick) + random mixtures with post-construction '
                'additions and allow_replacements; non-trivial = distinct multi-lookup case with at least one hit, distinct (test, class, '
                'data-type class), distinct environment case',
        'samples': [lk_cases[i] for i in range(0, min(len(lk_cases), 400), 57)] + env_cases[:3],
        'traces_validated_against_impl': traces,
        'distribution': stats,
        'quirks_probed': {KF_MEMO: live_memo, KF_ATTR: live_attr, KF_GLOB: live_glob, KF_SUBDIR: live_subdir, KF_SHADOW: live_shadow, KF_CHAIN: live_chain, KF_DANGLING: live_dangling},
        'rendered_file': 'oracle = property reading of C16_rendered_file_partial (most specific class with <Class>.j2 in ANY root, file of the '
                         'first root); deviations only under the two listed findings (%d sub-directory, %d user-general-first instances, '
                         'each reproduced by the model)' % (stats['known_subdir_instances'], stats['known_shadow_instances']),
    })

    if regressions:
        fid, witness = regressions[0]
        e = chk.known_entry(fid) or {}
        rep = {'what': 'the witness of %s (status %s) reproduces on the implementation: the defect is back' % (fid, e.get('status', 'not listed')),
               'finding': fid, 'witness': witness, 'recorded_witness': e.get('witness'), 'all_regressions': [r[0] for r in regressions], 'broken': broken}
        if isinstance(witness, dict) and 'seq' in witness:
            rep['lookup_case'] = witness
        elif isinstance(witness, dict) and 'lang' in witness:
            rep['env_case'] = witness
        chk.violation(rep, found_input=True)
    elif bad_oracle:
        kind, c, exp, got, model = bad_oracle[0]
        rep = {'what': 'implementation violates the property (%s)' % kind, 'expected_by_property': exp, 'implementation': got, 'model': model,
               'broken': broken, 'n_failing': len(bad_oracle)}
        if kind == 'lookup':
            small = shrink_lookup(c, chains, q_subdir, q_shadow, q_chain) if not c.get('e2e') else c
            rep['lookup_case'] = small
            rep['original_case'] = c
            if small is not c:
                rep['expected_by_property'] = {'rendered': oracle_rendered(chains, small)}
                g = run_impl({'lookup': [small]}).get('lookup', [None])[0]
                rep['implementation'] = {'rendered': impl_outcomes(g) if g and 'err' not in g else None, 'raw': g}
        elif kind == 'env':
            rep['env_case'] = c
        else:
            rep['case'] = c
        chk.violation(rep, found_input=True)
    elif bad_model:
        kind, c, m, got = bad_model[0]
        rep = {'correspondence': 'Gen/Lookup*.v vs %s' % kind, 'model': m, 'implementation': got, 'n_disagreements': len(bad_model),
               'what': 'model and implementation disagree but no input violating the property was found', 'broken': broken}
        rep['lookup_case' if kind.startswith('lookup') else ('env_case' if kind == 'env' else 'case')] = c
        chk.violation(rep, found_input=False)
    elif broken:
        chk.violation({'broken': broken, 'coq_error': res.error_text[-2000:], 'translators': res.translator_msgs,
                       'what': 'proof obligation, translator or model build no longer checks; searched %d lookups, %d test evaluations, %d '
                               'environment cases on the implementation' % (stats['lookups'], stats['test_evaluations'], len(env_cases))},
                      found_input=False)
    return chk.finish()


def run_chain_dump() -> typing.Optional[dict]:
    code = ('import json, pydsdl\n'
            'seen = []\n'
            'def walk(c):\n'
            '    if c in seen: return\n'
            '    seen.append(c)\n'
            '    for s in c.__subclasses__(): walk(s)\n'
            'walk(pydsdl.Any)\n'
            'for c in list(seen):\n'
            '    for b in c.__mro__:\n'
            '        if b is not object and b not in seen: seen.append(b)\n'
            'print("C16CH" + json.dumps({c.__name__: [b.__name__ for b in c.__mro__ if b is not object] for c in seen}))\n')
    p = core.run([core.PY, '-c', code], env=core.repo_env(), timeout=120)
    try:
        return json.loads(p.stdout[p.stdout.index('C16CH') + 5:])
    except Exception:
        return None


def lookup_fails(c: dict, got: dict, chains, q_subdir: bool, q_shadow: bool, q_chain: bool = False) -> bool:
    """the implementation's rendered files differ from the property's, outside the listed findings' triggers"""
    iout, prop = impl_outcomes(got), oracle_rendered(chains, c)
    sub_t = subdir_trigger(c) and q_subdir
    def chosen_is_rendered(j):
        r = got['res'][j]
        return r is not None and '/' in r and iout[j].startswith('R:') and iout[j].split(':', 2)[2] == r
    return any(iout[j] != prop[j] and not (sub_t and got['res'][j] is not None and '/' in got['res'][j])
               and not (not q_subdir and chosen_is_rendered(j))
               and not (q_chain and chain_trigger(chains, c, cn))
               and not (q_shadow and under_any_shape(lambda: shadow_trigger(chains, c, cn))) for j, cn in enumerate(c['seq']))


def shrink_lookup(case: dict, chains, q_subdir: bool = False, q_shadow: bool = False, q_chain: bool = False) -> dict:
    def fails(c):
        r = run_impl({'lookup': [c]})
        if 'harness_error' in r or 'err' in r['lookup'][0]:
            return False
        return lookup_fails(c, r['lookup'][0], chains, q_subdir, q_shadow, q_chain)
    cur = dict(case, get=[])
    if not fails(cur):
        return case
    budget = 40
    changed = True
    while changed and budget > 0:
        changed = False
        cands = []
        if cur.get('fs_more'):
            cands.append(dict(cur, fs_more=cur['fs_more'][:-1]))
        for k in ('seq', 'fs', 'pkg'):
            if cur[k]:
                for i in range(len(cur[k])):
                    cands.append(dict(cur, **{k: cur[k][:i] + cur[k][i + 1:]}))
        for c in cands:
            budget -= 1
            if budget <= 0:
                break
            if c['seq'] and fails(c):
                cur, changed = c, True
                break
    return cur
