"""C03: round trip, cross-target and cross-option agreement of generated codecs."""
from __future__ import annotations

import typing

from tools.lib import core
from tools.harness import c03_pairs

PROP = 'C03'

MANIFEST = dict(
    technique='Coq proof: every target is the one DSDL wire specification composed with its float16 rounding rule, so round trip, '
              're-serialization, cross-target and option independence are corollaries of the specification-level theorems; '
              'oracle-free pairwise comparison of the real generated C / C++ / Python codecs under the option matrix on the same '
              'requests, own-chain round trips, and comparison with the extracted per-target observables',
    text='Theorems in coq/theories/Properties/C03.v (see design_notes/C03.md): round trip des(ser v) = cast v per target, '
         're-serialization ser(des(ser v)) = ser v (enc_cast_idem, using pack(unpack h) = h on float16 images from Prims/F16Thm.v), '
         'stability of des-ser-des, C = C++ and all deserializers equal, Python = C whenever no float16 field holds an exact tie '
         '(f16 tie refuted by the witness 0x3F801000), option independence (the observables take an option record they provably do not '
         'use; the code walker is independent of the primitive record).  Tie: random valid namespaces (dsdlgen) + regression corpus + '
         'fixed tie/odd-width types, values and byte strings from valgen; ALL builds (C any/little/big x asserts; C++ 14/17/20/17-pmr x '
         'asserts; Python) answer the same requests and are compared pairwise with each other, each build runs its own '
         'ser->des->ser and des->ser->des chains, and every answer is compared with the extracted observable of its target.',
    note='Trusted: Coq kernel; extraction (ExtrOcamlBasic only) + ocaml/c03_driver.ml; pydsdl front end (astdump.py); harness drivers. '
         'The Python rounding rule (ties to even) is a definition (Spec/TargetsC03.v f16_pack_rne) validated against struct.pack on '
         'every run.  Python observability limits (no consumed size, one error class, setters reject out-of-range values) are respected: '
         'such requests are counted as not comparable for that target.  Big-endian hosts are not covered.',
    design='§5 C03')

TRUSTED = [
    'extraction: Require Extraction ExtrOcamlBasic only; OCaml 4.13.1; ocaml/c03_driver.ml (copy of codec_driver.ml + pser/tief/nanc)',
    'pydsdl 1.25 front end: the type JSON (tools/harness/codec/astdump.py) is what nunavut itself is handed',
    'Prims/F16.v float16 conversion model and Prims/F16Thm.v / F16ArithThm.v theorems (C14)',
    'Spec/TargetsC03.v: Python float16 rounding (struct.pack "<e": nearest, ties to even) stated relative to the C rule; validated '
    'against the generated Python on every run (tie strata)',
    'the layout mask (Spec/Wire.v mask_body) is used only to LOCATE float fields when two answers differ, to accept NaN-vs-NaN',
    'harness: generated per-namespace drivers (tools/harness/codec/target_*.py), gcc/g++/clang, CPython 3.12 + NumPy',
]


def main(chk: core.Check, replay: typing.Optional[str] = None) -> int:
    return c03_pairs.run(chk, TRUSTED, replay)
