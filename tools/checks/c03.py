"""C03: round trip, cross-target and cross-option agreement of generated codecs."""
from __future__ import annotations

import typing

from tools.lib import core
from tools.harness import c03_pairs

PROP = 'C03'

MANIFEST = dict(
    technique='Coq proof about code-shaped observables: the generated (de)serializers of C, C++ and Python are modelled as the TARGET-SHAPED '
              'walkers (C incl. the little-endian memmove / bulk-copy template paths, C++ bitspan routine, Python Serializer/Deserializer) over '
              'the SHIPPED primitive models, wrapped in the omit-float build gate and the epilogue assertions; every language option of '
              'properties.yaml is classified (proved / pairwise only / not exercised) against the regenerated option list; equality with the wire specification, cross-target '
              'agreement, option independence, round trip, re-serialization and des-ser-des stability are DERIVED from the instance '
              'refinement theorems; oracle-free pairwise comparison of the real generated codecs under the option matrix, own-chain round '
              'trips, comparison with the extracted specification and with the extracted code-shaped observables',
    text='Theorems in coq/theories/Properties/C03.v (see design_notes/C03.md), proofs in Codec/ObsC03Thm.v, Spec/WireThmC03.v, '
         'Spec/TargetPreThm.v: obs = spec (from c_/cpp_/py_walk_*_refines), assertions never fire, round trip through any two targets, '
         'reser, value-level des-ser-des (partial: float16 NaN payloads; refuted in general), C = C++ on every storable value, all targets '
         'equal when no float16 field holds an exact tie (refuted by 0x3F801000 computed through the primitive models), option independence, '
         'enc_cast_idem, cast values hold no tie / fit storage, Python leaf = spec of the pre-adjusted value, RNE on all 31744 ties.  Tie: '
         'random valid namespaces (dsdlgen) + regression corpus + fixed tie/odd-width types; ALL builds (C any/little/big x asserts; C++ '
         '14/17/20/17-pmr x asserts; Python) answer the same requests and are compared pairwise, each build runs its own ser->des->ser and '
         'des->ser->des chains, every answer is compared with the extracted specification and a sample with the extracted obs_ser/obs_des '
         'under the build\'s own option flags.',
    note='Trusted: Coq kernel; extraction (ExtrOcamlBasic only) + ocaml/c03_driver.ml; pydsdl front end (astdump.py); harness drivers; the '
         'primitive models of Prims/*.v (C14).  Side conditions of the theorems: whole-byte buffers below 2^64 bits, values within the '
         'generated storage types (storage_ok), top-level composite.  C++ std / allocator flavour / array container do not reach the models '
         '(pairwise runs only).  Python observability limits (no consumed size, one error class, setters reject out-of-range values) are '
         'respected: such requests are counted as not comparable for that target.  Big-endian hosts are not covered.  Translators run: '
         'optguard, c03opt, c01, codec_tpl (option list, scan of where each option reaches the codec templates, is_zero_cost_primitive, codec '
         'template structure are in the cone of Properties/C03.v).  Assertion statements hold on the domain override-off / no capacity macro.',
    design='§5 C03')

TRUSTED = [
    'extraction: Require Extraction ExtrOcamlBasic only; OCaml 4.13.1; ocaml/c03_driver.ml (copy of codec_driver.ml + pser/tief/nanc)',
    'pydsdl 1.25 front end: the type JSON (tools/harness/codec/astdump.py) is what nunavut itself is handed',
    'Prims/F16.v float16 conversion model and Prims/F16Thm.v / F16ArithThm.v theorems (C14)',
    'Spec/TargetPre.v py_enc_prim: explicit model of the Python value conversions (clamp, two\'s complement, mask, struct.pack "<e" = '
    'nearest, ties to even); validated against the generated Python on every run (tie strata, oser py)',
    'Prims/CPrims.v, CppPrims.v, PyPrims.v primitive models and Codec/Instances*.v (C14 / b-refine): the observables run over them',
    'the layout mask (Spec/Wire.v mask_body) is used only to LOCATE float fields when two answers differ, to accept NaN-vs-NaN',
    'harness: generated per-namespace drivers (tools/harness/codec/target_*.py), gcc/g++/clang, CPython 3.12 + NumPy',
]


def main(chk: core.Check, replay: typing.Optional[str] = None) -> int:
    return c03_pairs.run(chk, TRUSTED, replay)
