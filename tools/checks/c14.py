"""C14: support-library bit primitives are correct for all offsets, lengths and values."""
from __future__ import annotations

import concurrent.futures
import json
import os
import struct
import subprocess
import typing

from tools.lib import core

PROP = 'C14'
HARNESS = os.path.join(core.VERIF, 'tools', 'harness')

MANIFEST = dict(
    technique='Coq proof (loop invariants with fuel, bit-level rewriting, integer arithmetic over N/Z, finite sweeps by vm_compute) about '
              'algorithm-faithful hand models of the rendered C, C++ and Python support code; extracted-model vs. implementation '
              'correspondence on exhaustive small-parameter sweeps; independent big-integer oracle as falsifier',
    text='36 theorems (mostly conjunctions of lemmas of Prims/*Thm.v, each named in the proof) + 10 examples in coq/theories/Properties/C14.v, each for EVERY offset, length, buffer, declared size and value (no '
         'bound; preconditions of the code\'s contract as guards). C (both target_endianness renderings): nunavutCopyBits copies '
         'exactly the addressed bits, leaves every other bit untouched, no out-of-range access (memmove path and bit loop); '
         'SaturateBufferFragmentBitLength; GetBits zero-extends and zero-pads; SetUxx/SetIxx/SetBit report a too-small buffer iff '
         '8*size < off+len, else write exactly min(len,64) bits; GetU8..U64/GetBit read the field with zeros beyond the declared size, '
         'len clamped, any offset; GetI8..I64 sign-extend (sat 0, 1, = width; no signed overflow in the C expression); little = any/big. '
         'Half precision (C and C++): round trip and NaN preservation over all 65 536 halves (vm_compute, bound in the statement), unpack '
         'exact; for ALL binary32 inputs: sign copied, result is the nearest half with ties away from zero (f16_rounding_rule), hence '
         'faithful, monotone, 0x7C00 exactly from 65520 on, inf/NaN preserved. C++ bitspan: copyTo with its clamp, setZeros zeroes exactly '
         '[offset, offset+length) (the fixed source; the old under-zeroing witness offset 7 length 2 is in the corpus), '
         'padAndMoveToAlignment, the three subspans, set/get members proved equal to the C functions. Python: Serializer invariant '
         '"bits at or after the cursor are zero"; add_unaligned_bytes/unsigned/signed/bit/array_of_bits, add_aligned_bytes/unsigned/'
         'signed/u8..u64/i8..i64/array_of_bits, pad_to_alignment append exactly the value\'s bits; Deserializer '
         'fetch_(un)aligned_bytes/unsigned/signed/bit/array_of_bits, fetch_aligned_u8..i64 return the bits at the cursor of the '
         'zero-extended buffer; fork_bytes of both works on a window of the same bytes. Round 2: every remaining public member of the three '
         'modules (C SetIxx/SetBit as unsigned stores, float set/get as integer set/get of the bit pattern composed with f16 pack/unpack; '
         'C++ setZeros(), copyTo(dst), at_offset, set_offset, offset_bytes(_ceil), offset_misalignment, align_offset_to, saturate; Python '
         'Serializer.buffer, skip_bits, arrays of standard primitives incl. the NotImplementedError of the big-endian classes, '
         'ZeroExtendingBuffer get_byte/get_unsigned_slice/fork_bytes) has a model, a theorem and a correspondence stratum; coverage '
         'table in design_notes/C14.md. Round 5: the SetUxx theorems state their domain off+len < 2^W; outside it the shipped check '
         'wraps and overruns (C14_set_uxx_offset_wrap_refuted, known finding F-SETUXX-OFFSET-WRAP reproduced on the rendered headers, fix '
         'patch design_notes/C14_wrap_fix.patch proved correct for every offset); the C theorems are proved for size_t of 32 and 64 bits '
         '(C14_size_t_widths); the float multiplications of Float16Pack/Unpack are proved equal to Flocq binary32 arithmetic on their '
         'whole domain (C14_f16_ieee_bridge); Python float members under the named struct packing law; invariant theorems for arbitrary '
         'sequences of cursor operations incl. the fork/join/header/skip pattern (Python) and store/zero/pad sequences (C++; round 7: no '
         'premise on the cursor, staying below 2^64 follows from success). Round 7: C++ setUxx/setIxx equal the C functions at EVERY '
         'offset and length (C14_cpp_set_uxx_every_offset). Round 8: the Python model IS the text of /repo f2fd316 (capacity test '
         '_ensure_writable): every writer either lands exactly the requested bits or raises with nothing stored, for every cursor, '
         'length and buffer size (C14_py_too_small_reported + _derived: all 27 writers incl. signed, i8..i64, floats, arrays, '
         'pad_to_alignment); the pre-fix text and its refutation are History/C14_py_history.v. C++ padAndMoveToAlignment / '
         'subspan(bits_at, size_bits) over the whole size_t range of their arguments (text of /repo fcc36ca): '
         'C14_cpp_pad_every_alignment, C14_cpp_subspan_every_offset; the text of before (padding cast to uint8_t, wrapping sums; '
         'findings F-BITSPAN-PAD-TRUNC, F-BITSPAN-SUBSPAN-WRAP, fixed) and its refutations are History/C14_history.v. Static ties: AST shape pin of 81 Python methods + the '
         'member lists of the 7 classes (ONE accepted shape) and token-stream pin of every function of the rendered C and C++ headers '
         'for 25 option combinations (every Jinja branch: endianness x asserts x omit_float; C++ standards/flavours incl. pmr and cetl); '
         'the hash of each regenerated dump must equal the hash the model file names as the text it models (modelled_*_sha); fix '
         'facts regenerated from /repo are obligations by reflexivity (C14_py_capacity_test_live: f2fd316, '
         'C14_setuxx_saturating_check_live: ba46e0a, C14_bitspan_fix_state: fcc36ca), so reverting a landed fix breaks '
         'the proof layer; a witness of a `fixed` finding that reproduces is reported as the failing input. Tie: extracted models vs. the headers/module rendered by nnvg from /repo (C any/little/'
         'big x asserts on/off, gcc + clang ASan/UBSan, + an omit-float rendering; C++14 (17, 20 thorough) x asserts, g++ + clang++ ASan, + '
         'the target_endianness=little rendering and a c++17-pmr omit-float rendering; 32-bit size_t: three C and three C++ renderings '
         'are COMPILED ONLY (clang --target=i386 -c -Werror -Wconversion/-Wshorten-64-to-32; nothing 32-bit can be linked or run here); '
         'Python with NumPy) on the '
         'same calls / operation sequences, return values and full buffers with guard bytes compared; thorough: C vs C++ vs NumPy '
         'natively on all 2^32 binary32 inputs.',
    note='Trusted: Coq kernel; the hand models Prims/CPrims.v, CppPrims.v, PyPrims.v, F16.v (validated by the correspondence runs, not '
         'derived from the source); LP64 little-endian host, 8-bit bytes, unsigned int 32 bits, conversions to signed types modulo 2^w '
         '(gcc/clang); IEEE-754 binary32 multiplication by 2^-112 / 2^112 in round-to-nearest-even modelled on integers (no FTZ/DAZ); '
         'memmove/memset as list splices; NumPy uint8 arithmetic, scalar store, slice assignment, packbits/unpackbits(bitorder=little), '
         'x.view(uint8), struct.pack/unpack "<e|f|d" by their documented semantics; extraction (ExtrOcamlBasic only) + '
         'ocaml/c14_driver.ml; the drivers tools/harness/c14_*; gcc 12 / clang 14 sanitizers; CPython 3.12 / NumPy 2.5.3. Rounding: C/C++ '
         'pack ties away from zero, Python (struct) ties to even - both allowed by C14 (nearest or adjacent); the difference is C03\'s '
         'F-F16-TIE, not a C14 finding. Not covered: big-endian hosts (the Python big-endian classes are instantiated directly: their '
         'array methods raise NotImplementedError, everything else is inherited); overlapping src/dst in copy (documented UB); Python '
         'float add/fetch reduce to the byte methods through struct semantics that are assumed, not proved (x.view(uint8)/frombuffer = '
         'little-endian image likewise); fetch_aligned_array_of_bits has no separate theorem (same slice + unpackbits lemmas as the '
         'unaligned one); a Python exception is modelled as `no state returned` (pad_to_alignment has then already moved the cursor of '
         'the Python object); skip_bits with a negative argument; add_aligned_u8 of a value above 255 raises OverflowError (stated premise '
         'x <= 255); C++ padAndMoveToAlignment(0) is a division by zero in both texts; 32-bit targets are compiled, never executed (no 32-bit libc/loader; gcc -m32 cannot even '
         'preprocess: <bits/libc-header-start.h> missing; clang uses the x86_64 glibc headers with an empty <gnu/stubs-32.h>); cetl '
         'flavour: rendered and token-pinned (equal to the c++14 stream), cannot be compiled offline (CETL headers absent).',
    design='§5 C14')

C_VARIANTS = [('any', False), ('any', True), ('little', False), ('little', True), ('big', False), ('big', True)]   # big: thorough tier only
M64 = (1 << 64) - 1


# ---------------------------------------------------------------------------------------------------------------------
# the property as an executable oracle (big integers; independent of nunavut and of the Coq model)
# ---------------------------------------------------------------------------------------------------------------------
def unhex(s: str) -> bytes:
    return b'' if s == '-' else bytes.fromhex(s)


def hx(b: bytes) -> str:
    return b.hex() if b else '-'


def put_bits(buf: bytes, off: int, n: int, value: int) -> bytes:
    x = int.from_bytes(buf, 'little')
    mask = ((1 << n) - 1) << off
    x = (x & ~mask) | ((value << off) & mask)
    return x.to_bytes(len(buf), 'little')


def field(buf: bytes, size: int, off: int, n: int) -> int:
    """n bits at bit offset off of the first `size` bytes, zero-extended"""
    return (int.from_bytes(buf[:size], 'little') >> off) & ((1 << n) - 1)


def oracle(line: str) -> typing.Optional[str]:
    """expected answer for a command line, or None if the property does not constrain it (contract violated / wrap-around probes)"""
    t = line.split(' ')
    c = t[0]
    if c == 'sat':
        size, off, ln = int(t[1]), int(t[2]), int(t[3])
        if size * 8 > M64:
            return None
        return str(min(ln, max(0, size * 8 - off)))
    if c == 'cp':
        dst, doff, ln, src, soff = unhex(t[1]), int(t[2]), int(t[3]), unhex(t[4]), int(t[5])
        if doff + ln > 8 * len(dst) or soff + ln > 8 * len(src):
            return None
        return hx(put_bits(dst, doff, ln, field(src, len(src), soff, ln)))
    if c == 'gb':
        out, buf, size, off, ln = unhex(t[1]), unhex(t[2]), int(t[3]), int(t[4]), int(t[5])
        nb = (ln + 7) // 8
        if nb > len(out) or size > len(buf):
            return None
        return hx(field(buf, size, off, ln).to_bytes(nb, 'little') + out[nb:])
    if c in ('su', 'si', 'sb', 'sf32', 'sf64'):
        buf, size, off = unhex(t[1]), int(t[2]), int(t[3])
        if size > len(buf):
            return None
        if c == 'sb':
            value, ln = (0 if t[4] == '0' else 1), 1
        elif c == 'sf32':
            value, ln = int(t[4]), 32
        elif c == 'sf64':
            value, ln = int(t[4]), 64
        else:
            value, ln = int(t[4]) & M64, int(t[5])
        if size * 8 < off + ln:
            return '-3 ' + hx(buf)
        return '0 ' + hx(put_bits(buf, off, min(ln, 64), value))
    if c in ('gu', 'gi'):
        w, buf, size, off, ln = int(t[1]), unhex(t[2]), int(t[3]), int(t[4]), int(t[5])
        if size > len(buf):
            return None
        n = min(ln, w)
        v = field(buf, size, off, n)
        if c == 'gi' and n > 0 and (v >> (n - 1)) & 1:
            v -= 1 << n
        return str(v)
    if c == 'gbit':
        buf, size, off = unhex(t[1]), int(t[2]), int(t[3])
        return None if size > len(buf) else str(field(buf, size, off, 1))
    if c in ('gf32', 'gf64'):
        buf, size, off = unhex(t[1]), int(t[2]), int(t[3])
        return None if size > len(buf) else str(field(buf, size, off, int(c[2:])))
    if c in ('pyserbe', 'pydesbe'):
        # the classes for big-endian hosts share everything with the little-endian ones except the arrays of standard primitives,
        # which raise NotImplementedError
        ops = t[2].split(';') if len(t) > 2 else []
        k = next((i for i, o in enumerate(ops) if o.split(':')[0] in ('aa', 'ua')), None)
        base = (lambda o: oracle_pyser(int(t[1]), o)) if c == 'pyserbe' else (lambda o: oracle_pydes(unhex(t[1]), o))
        if k is None:
            e = base(ops)
            return None if e is None else (canon_pydes('pydes ' + ' '.join(t[1:]), e) if c == 'pydesbe' else e)
        return None if base(ops[:k]) is None else 'EXC@%d' % k
    if c == 'zeb':
        buf, out = unhex(t[1]), []
        for i, o in enumerate(t[2].split(';') if len(t) > 2 else []):
            f = o.split(':')
            if f[0] == 'gb':
                out.append(str(buf[int(f[1])] if int(f[1]) < len(buf) else 0))
            elif f[0] == 'sl':
                l, r = int(f[1]), int(f[2])
                if l > r:
                    return 'EXC@%d' % i
                out.append(hx((buf[l:r] + bytes(r - l))[:r - l]))
            elif f[0] == 'fk':
                o_, n_ = int(f[1]), int(f[2])
                if o_ + n_ > len(buf):
                    return 'EXC@%d' % i
                out.append(hx(buf[o_:o_ + n_]))
            elif f[0] == 'bl':
                out.append(str(8 * len(buf)))
            else:
                return None
        return ','.join(out)
    if c == 'xza':
        buf, size, off = unhex(t[1]), int(t[2]), int(t[3])
        if size > len(buf):
            return None
        return '0 ' + hx(put_bits(buf, off, max(0, 8 * size - off), 0))
    if c == 'xcpa':
        dst, dsize, doff, src, ssize, soff = unhex(t[1]), int(t[2]), int(t[3]), unhex(t[4]), int(t[5]), int(t[6])
        n = max(0, 8 * ssize - soff)
        if dsize > len(dst) or ssize > len(src) or doff + n > 8 * dsize:
            return None
        return hx(put_bits(dst, doff, n, field(src, ssize, soff, n)))
    if c == 'xat':
        size, off, bits = int(t[1]), int(t[2]), int(t[3])
        return None if off + bits > M64 or size * 8 > M64 else '%d %d' % (max(0, 8 * size - off - bits), off + bits)
    if c == 'xob':
        return str(int(t[2]) // 8)
    if c == 'xmis':
        off, n = int(t[1]), int(t[2])
        return None if n == 0 else '%d %d %d' % (off % n, int(off % n == 0), int(off % 8 == 0))
    if c == 'xso':
        size, bits = int(t[1]), int(t[3])
        return None if size * 8 > M64 else '%d %d' % (max(0, 8 * size - bits), bits)
    if c == 'pyser':
        return oracle_pyser(int(t[1]), t[2].split(';') if len(t) > 2 else [])
    if c == 'pydes':
        e = oracle_pydes(unhex(t[1]), t[2].split(';') if len(t) > 2 else [])
        return None if e is None else canon_pydes(line, e)
    if c == 'xz':
        buf, size, off, ln = unhex(t[1]), int(t[2]), int(t[3]), int(t[4])
        if size > len(buf):
            return None
        return ('-3 ' + hx(buf)) if ln > max(0, 8 * size - off) else ('0 ' + hx(put_bits(buf, off, ln, 0)))
    if c == 'xpad':
        buf, size, off, n = unhex(t[1]), int(t[2]), int(t[3]), int(t[4])
        if size > len(buf) or not 1 <= n < (1 << 64):
            return None
        pad = (n - off % n) % n
        if pad > max(0, 8 * size - off):
            return '-3 %d %s' % (off, hx(buf))
        return '0 %d %s' % (off + pad, hx(put_bits(buf, off, pad, 0)))
    if c == 'xcp':
        dst, dsize, doff, ln, src, ssize, soff = unhex(t[1]), int(t[2]), int(t[3]), int(t[4]), unhex(t[5]), int(t[6]), int(t[7])
        n = min(ln, max(0, 8 * ssize - soff))
        if dsize > len(dst) or ssize > len(src) or doff + n > 8 * dsize:
            return None
        return hx(put_bits(dst, doff, n, field(src, ssize, soff, n)))
    if c in ('xsub', 'xsubb', 'xsub2'):
        nalloc, size, off = int(t[1]), int(t[2]), int(t[3])
        bits = int(t[4]) if c != 'xsubb' else 0
        k, o = (off + bits) // 8, (off + bits) % 8
        if size > nalloc:
            return None
        if c == 'xsub':
            ns = size - k if k < size else 0
            k = min(k, size)          # the pointer never passes one past the end of the data
        elif c == 'xsubb':
            ns = min(int(t[4]), size - k if k < size else 0)
            k = min(k, size)
        else:
            if k > size or o + int(t[5]) > 8 * (size - k):
                return '-3'
            floor_, ceil_ = (o + int(t[5])) // 8, (o + int(t[5]) + 7) // 8
            return Pred(lambda got, k=k, o=o, a=floor_, b=ceil_: got in ('%d %d %d' % (k, max(0, 8 * a - o), o), '%d %d %d' % (k, max(0, 8 * b - o), o)),
                        'pointer advanced by %d bytes, offset %d, size() of the floored (%d) or rounded-up (%d) byte count' % (k, o, max(0, 8 * floor_ - o), max(0, 8 * ceil_ - o)))
        return '%d %d %d' % (k, max(0, 8 * ns - o), o)
    if c == 'xbits':
        size, off = int(t[1]), int(t[2])
        return None if size * 8 > M64 else str(max(0, size * 8 - off))
    if c == 'xceil':
        off = int(t[2])
        return None if off + 7 > M64 else str((off + 7) // 8)
    if c == 'xalign':
        off, n = int(t[1]), int(t[2])
        return None if off + n > M64 else str((off + n - 1) // n * n)
    if c == 'f16p':
        return Pred(lambda got, x=int(t[1]): judge_f16_pack(x, got), lambda x=int(t[1]): describe_f16_pack(x))
    if c == 'f16u':
        return Pred(lambda got, h=int(t[1]): judge_f16_unpack(h, got), lambda h=int(t[1]): describe_f16_unpack(h))
    if c == 'gf16':
        buf, size, off = unhex(t[1]), int(t[2]), int(t[3])
        if size > len(buf):
            return None
        h = field(buf, size, off, 16)
        return Pred(lambda got, h=h: judge_f16_unpack(h, got), lambda h=h: describe_f16_unpack(h))
    if c == 'sf16':
        buf, size, off, x = unhex(t[1]), int(t[2]), int(t[3]), int(t[4])
        if size > len(buf):
            return None
        if size * 8 < off + 16:
            return '-3 ' + hx(buf)

        def ok(got: str) -> bool:
            g = got.split(' ')
            if len(g) != 2 or g[0] != '0' or len(unhex(g[1])) != len(buf):
                return False
            nb = unhex(g[1])
            return judge_f16_pack(x, str(field(nb, len(nb), off, 16))) and put_bits(nb, off, 16, 0) == put_bits(buf, off, 16, 0)
        return Pred(ok, 'rc 0, 16 bits at offset %d hold a half that %s; every other bit unchanged' % (off, describe_f16_pack(x)))
    return None


FMT = {2: '<e', 4: '<f', 8: '<d'}


def pack_float(size: int, x: float) -> bytes:
    try:
        return struct.pack(FMT[size], x)
    except OverflowError:
        return struct.pack(FMT[size], float('inf') if x > 0 else float('-inf'))


def int_bits(v: int, n: int) -> typing.List[int]:
    return [(v >> i) & 1 for i in range(n)]


def bytes_bits(b: bytes) -> typing.List[int]:
    return [(x >> i) & 1 for x in b for i in range(8)]


def bits_int(bits: typing.List[int]) -> int:
    return sum(b << i for i, b in enumerate(bits))


def oracle_pyser(n: int, ops: typing.List[str]) -> typing.Optional[str]:
    """Serializer semantics demanded by the property: every add_* writes exactly the value's bits at the cursor and advances it;
    nothing else changes.  None if the sequence leaves the documented usage (capacity incl. the spare byte, alignment, ranges)."""
    mem = [0] * (8 * (n + 1))
    cur, lim = 0, 8 * (n + 1)
    stack: typing.List[tuple] = []
    base = 0

    def put(bits: typing.List[int], need_aligned: bool = False, spare: bool = False):
        """True: written; 'exc': the property demands an exception (the bits do not fit); False: outside the documented usage
        (misaligned, or it fits but the byte-wise writers lack the spare byte they need): unconstrained"""
        nonlocal cur
        if need_aligned and cur % 8:
            return False
        if not bits and base + cur > lim:
            return False
        if bits and base + cur + len(bits) > lim:
            return 'exc'
        if bits and spare and (base + cur) // 8 + (len(bits) + 7) // 8 + 1 > lim // 8:
            return False
        for i, b in enumerate(bits):
            mem[base + cur + i] |= b
        cur += len(bits)
        return True

    for k_op, op in enumerate(ops):
        t = op.split(':')
        c = t[0]
        ok = True
        if c == 'sk':
            cur += int(t[1])
            ok = True
        elif c == 'pad':
            k = int(t[1])
            ok = (k > 0) and put([0] * ((k - cur % k) % k))
        elif c == 'bit':
            ok = put([int(t[1] != '0')])
        elif c in ('ub', 'ab'):
            ok = put(bytes_bits(unhex(t[1])), c == 'ab', c == 'ub')
        elif c in ('au', 'uu'):
            v, b = int(t[1], 0), int(t[2])
            ok = b >= 1 and v >= 0 and put(int_bits(v, b), c == 'au', c == 'uu')          # implicit truncation: value mod 2^b
        elif c in ('as', 'us'):
            v, b = int(t[1]), int(t[2])
            ok = b >= 2 and -(1 << (b - 1)) <= v < (1 << (b - 1)) and put(int_bits(v % (1 << b), b), c == 'as', c == 'us')
        elif c in ('u8', 'u16', 'u32', 'u64'):
            w, v = int(c[1:]), int(t[1], 0)
            ok = 0 <= v < ((1 << w) if w == 8 else (1 << 200)) and put(int_bits(v, w), True)     # u16/u32/u64 truncate, u8 rejects
        elif c in ('i8', 'i16', 'i32', 'i64'):
            w, v = int(c[1:]), int(t[1])
            ok = -(1 << (w - 1)) <= v < (1 << (w - 1)) and put(int_bits(v % (1 << w), w), True)
        elif c in ('abits', 'ubits'):
            ok = put([int(ch == '1') for ch in ('' if t[1] == '-' else t[1])], c == 'abits', c == 'ubits')
        elif c in ('af', 'uf'):
            ok = put(bytes_bits(pack_float(int(t[1]), struct.unpack('<d', bytes.fromhex(t[2]))[0])), c == 'af', c == 'uf')
        elif c in ('aa', 'ua'):
            ok = put(bytes_bits(unhex(t[2])), c == 'aa', c == 'ua')
        elif c == 'fork':
            k = int(t[1])
            if cur % 8 or base + cur + 8 * (k + 1) > lim:
                return None
            stack.append((base, cur, lim))
            base, cur, lim = base + cur, 0, base + cur + 8 * (k + 1)
        elif c == 'join':
            base, cur, lim = stack.pop()
        else:
            return None
        if ok == 'exc':
            return 'EXC@%d' % k_op if not stack else None
        if not ok:
            return None
    if stack:
        return None
    whole = bits_int(mem).to_bytes(n + 1, 'little')
    return '%d %s %s' % (cur, hx(whole), hx(whole[:(cur + 7) // 8]))


def oracle_pydes(buf: bytes, ops: typing.List[str]) -> typing.Optional[str]:
    """Deserializer semantics: every fetch_* returns the bits at the cursor of the implicitly zero-extended buffer"""
    x = int.from_bytes(buf, 'little')
    nbits = 8 * len(buf)
    cur = 0
    stack: typing.List[tuple] = []
    out: typing.List[str] = []

    def take(k: int) -> int:
        nonlocal cur
        v = ((x & ((1 << nbits) - 1)) >> cur) & ((1 << k) - 1) if cur < nbits else 0
        cur += k
        return v

    for op in ops:
        t = op.split(':')
        c = t[0]
        if c in ('ab', 'au', 'as', 'abits', 'af', 'aa', 'u8', 'u16', 'u32', 'u64', 'i8', 'i16', 'i32', 'i64', 'fork') and cur % 8:
            return None
        if c == 'sk':
            cur += int(t[1])
        elif c == 'pad':
            k = int(t[1])
            if k <= 0:
                return None
            cur += (k - cur % k) % k
        elif c in ('ab', 'ub', 'af', 'uf'):
            k = int(t[1])
            out.append(hx(take(8 * k).to_bytes(k, 'little')))
        elif c in ('aa', 'ua'):
            w, k = int(t[1][2:]), int(t[2])
            elems = [take(8 * w) for _ in range(k)]
            out.append(hx(b''.join(e.to_bytes(w, 'little') for e in elems)) + (('/' + '.'.join(str(e) for e in elems)) if t[1][1] == 'u' else ''))
        elif c in ('au', 'uu'):
            if int(t[1]) < 1:
                return None
            out.append(str(take(int(t[1]))))
        elif c in ('as', 'us'):
            b = int(t[1])
            if b < 2:
                return None
            v = take(b)
            out.append(str(v - (1 << b) if v >> (b - 1) else v))
        elif c in ('u8', 'u16', 'u32', 'u64'):
            out.append(str(take(int(c[1:]))))
        elif c in ('i8', 'i16', 'i32', 'i64'):
            b = int(c[1:])
            v = take(b)
            out.append(str(v - (1 << b) if v >> (b - 1) else v))
        elif c == 'bit':
            out.append(str(take(1)))
        elif c in ('abits', 'ubits'):
            k = int(t[1])
            v = take(k)
            out.append(''.join(str((v >> i) & 1) for i in range(k)) or '-')
        elif c == 'rem':
            out.append(str(nbits - cur))
        elif c == 'fork':
            k = int(t[1])
            if max(nbits - cur, 0) // 8 < k:
                return None
            stack.append((x, nbits, cur))
            start = min(cur // 8, nbits // 8)
            x, nbits, cur = (x >> (8 * start)) & ((1 << (8 * k)) - 1), 8 * k, 0
        elif c == 'join':
            x, nbits, cur = stack.pop()
        else:
            return None
    return ','.join(out + [str(cur)])


def canon_pydes(line: str, got: str) -> str:
    """floats are compared as the bytes they pack to, all NaNs as 'nan' (C14 speaks of NaN-ness only)"""
    if not line.startswith(('pydes ', 'pydesbe ')) or ('af:' not in line and 'uf:' not in line) or got.startswith('EXC'):
        return got
    t = line.split(' ')
    ops = t[2].split(';') if len(t) > 2 else []
    toks = got.split(',')
    k = 0
    for op in ops:
        o = op.split(':')
        if o[0] in ('sk', 'pad', 'fork', 'join'):
            continue
        if k >= len(toks):
            break
        if o[0] in ('af', 'uf') and toks[k] not in ('nan', '-'):
            size = int(o[1])
            try:
                v = struct.unpack(FMT[size], bytes.fromhex(toks[k]))[0]
                if v != v:
                    toks[k] = 'nan'
            except Exception:
                pass
        k += 1
    return ','.join(toks)


class Pred:
    """an expected answer given as a predicate (the property allows more than one answer)"""
    def __init__(self, fn, desc):
        self.fn, self.desc = fn, desc

    def __call__(self, got: str) -> bool:
        try:
            return bool(self.fn(got))
        except Exception:
            return False

    def __str__(self) -> str:
        return self.desc() if callable(self.desc) else self.desc


def meets(e, got: str) -> bool:
    return e(got) if isinstance(e, Pred) else got == e


def val16(h: int) -> int:
    """magnitude of a half in units of 2^-24 (0x7C00 evaluates to 65536 = the first value out of range)"""
    e, m = h >> 10, h & 1023
    return m if e == 0 else (1024 + m) << (e - 1)


def val32(y: int) -> int:
    """magnitude of a finite binary32 in units of 2^-149"""
    e, m = y >> 23, y & 0x7FFFFF
    return m if e == 0 else ((1 << 23) + m) << (e - 1)


def judge_f16_pack(x: int, got: str) -> bool:
    """C14 for float16 packing: NaN -> NaN, +-inf -> +-inf, sign kept, |x| >= 65520 -> inf, |x| <= 65504 -> finite,
    result is the nearest half or one adjacent to the exact value"""
    g = int(got)
    if not 0 <= g < 65536:
        return False
    s, y, gs, h = x >> 31, x & 0x7FFFFFFF, g >> 15, g & 0x7FFF
    if y > 0x7F800000:
        return h > 0x7C00
    if gs != s or h > 0x7C00:
        return False
    if y == 0x7F800000:
        return h == 0x7C00
    v = val32(y)
    if v >= (65520 << 149):
        return h == 0x7C00
    if v <= (65504 << 149) and h == 0x7C00:
        return False
    lo = val16(h - 1) << 125 if h > 0 else 0
    return lo <= v and (h == 0x7C00 or v <= (val16(h + 1) << 125))


def describe_f16_pack(x: int) -> str:
    y = x & 0x7FFFFFFF
    if y > 0x7F800000:
        return 'is a NaN'
    try:
        ref = int.from_bytes(struct.pack('<e', struct.unpack('<f', x.to_bytes(4, 'little'))[0]), 'little')
    except OverflowError:
        ref = ((x >> 31) << 15) | 0x7C00
    return 'is 0x%04x (round-to-nearest-even reference of struct) or, if the input is not representable, a neighbour on the side of the exact value' % ref


def judge_f16_unpack(h: int, got: str) -> bool:
    g = int(got)
    if (h & 0x7FFF) > 0x7C00:
        return (g & 0x7FFFFFFF) > 0x7F800000 and g < (1 << 32)
    return g == int.from_bytes(struct.pack('<f', struct.unpack('<e', h.to_bytes(2, 'little'))[0]), 'little')


def describe_f16_unpack(h: int) -> str:
    if (h & 0x7FFF) > 0x7C00:
        return 'a binary32 NaN'
    return str(int.from_bytes(struct.pack('<f', struct.unpack('<e', h.to_bytes(2, 'little'))[0]), 'little'))


def struct_pack_e(x: int) -> int:
    """round-to-nearest-even reference (CPython struct)"""
    try:
        return int.from_bytes(struct.pack('<e', struct.unpack('<f', x.to_bytes(4, 'little'))[0]), 'little')
    except OverflowError:
        return ((x >> 31) << 15) | 0x7C00


def nontrivial(line: str) -> typing.Optional[str]:
    """name of the non-default branch a case exercises (for the coverage counters), or None"""
    t = line.split(' ')
    c = t[0]
    if c == 'cp':
        doff, ln, soff = int(t[2]), int(t[3]), int(t[5])
        if ln == 0:
            return None
        if soff % 8 or doff % 8:
            return 'cp-loop-multi' if (max(soff % 8, doff % 8) + ln > 8) else 'cp-loop-single'
        return 'cp-aligned-tail' if ln % 8 else 'cp-aligned'
    if c in ('su', 'si', 'sb', 'sf32', 'sf64'):
        size, off = int(t[2]), int(t[3])
        ln = 1 if c == 'sb' else 32 if c == 'sf32' else 64 if c == 'sf64' else int(t[5])
        if size * 8 < off + ln:
            return c + '-too-small'
        if ln > 64:
            return c + '-clamped'
        return (c + '-unaligned') if off % 8 and ln else None
    if c in ('gu', 'gi'):
        w, size, off, ln = int(t[1]), int(t[3]), int(t[4]), int(t[5])
        if ln > w:
            return c + '-clamped'
        if ln and off + ln > size * 8:
            return c + '-zero-extended'
        return (c + '-unaligned') if off % 8 and ln else None
    if c == 'gb':
        size, off, ln = int(t[3]), int(t[4]), int(t[5])
        if ln and off + ln > size * 8:
            return 'gb-zero-extended'
        return 'gb-padded' if ln % 8 else None
    if c == 'sat':
        return 'sat'
    if c == 'zeb':
        return 'zeb'
    if c in ('xza', 'xcpa', 'xat', 'xob', 'xmis', 'xso'):
        return c
    if c in ('pyser', 'pydes', 'pyserbe', 'pydesbe'):
        ops = t[2] if len(t) > 2 else ''
        kinds = sorted({o.split(':')[0] for o in ops.split(';') if o})
        return c + ':' + '+'.join(k for k in kinds if k not in ('sk',))[:60] if kinds else None
    if c == 'xz':
        size, off, ln = int(t[2]), int(t[3]), int(t[4])
        if ln > max(0, 8 * size - off):
            return 'xz-too-small'
        if ln == 0:
            return None
        return 'xz-crosses-byte-from-unaligned-offset' if (off % 8 and off % 8 + ln > 8) else 'xz-unaligned' if off % 8 else 'xz-unaligned-end' if ln % 8 else None
    if c == 'xpad':
        return 'xpad-pads' if int(t[3]) % int(t[4]) else None
    if c == 'xcp':
        return 'xcp-clamped' if int(t[4]) > max(0, 8 * int(t[6]) - int(t[7])) else 'xcp'
    if c in ('xsub', 'xsubb', 'xsub2', 'xbits', 'xceil', 'xalign'):
        return c
    if c == 'f16p':
        y = int(t[1]) & 0x7FFFFFFF
        if y >= 0x7F800000:
            return 'f16p-inf-nan'
        if y >= 0x477FF000:
            return 'f16p-overflow'
        if y < (113 << 23):
            return 'f16p-subnormal-result' if y >= (102 << 23) else 'f16p-underflow'
        return 'f16p-tie' if (y & 0x1FFF) == 0x1000 else 'f16p-inexact' if (y & 0x1FFF) else None
    if c == 'f16u':
        h = int(t[1]) & 0x7FFF
        return 'f16u-inf-nan' if h >= 0x7C00 else 'f16u-subnormal' if h < 1024 else None
    if c in ('sf16', 'gf16'):
        return c
    if c in ('gbit', 'gf32', 'gf64'):
        return c if int(t[3]) % 8 else None
    return None


# ---------------------------------------------------------------------------------------------------------------------
# case generation (C primitives)
# ---------------------------------------------------------------------------------------------------------------------
def content(rng, kind: int, n: int) -> bytes:
    if kind == 0:
        return bytes(n)
    if kind == 1:
        return b'\xff' * n
    return bytes(rng.randrange(256) for _ in range(n))


VALUES = [M64, 0, 0xAAAAAAAAAAAAAAAA, 0x0123456789ABCDEF]
EXTRA_OFFS = [24, 31, 32, 33, 63, 64, 65, 95, 96, 97, 103, 104, 200]


def gen_c_cases(rng, tier: str) -> typing.List[str]:
    thorough = tier == 'thorough'
    L: typing.List[str] = []
    n = 0
    # -- nunavutCopyBits: every (src offset, dst offset, length), exactly fitting buffers (+ slack in the thorough tier)
    for soff in range(24):
        for doff in range(24):
            for ln in range(81):
                for kind in range(3):
                    slack = (0, 0) if not thorough else ((0, 0), (1, 0), (0, 2))[kind]
                    ds, ss = (doff + ln + 7) // 8 + slack[0], (soff + ln + 7) // 8 + slack[1]
                    if kind == 0:
                        d, s = bytes(ds), b'\xff' * ss
                    elif kind == 1:
                        d, s = b'\xff' * ds, bytes(ss)
                    else:
                        d, s = content(rng, 2, ds), content(rng, 2, ss)
                    L.append('cp %s %d %d %s %d' % (hx(d), doff, ln, hx(s), soff))
    # -- set / get: offsets x lengths x declared sizes x contents; the allocation is `pad` bytes longer than the declared size
    offs = list(range(24))
    for size in range(13):
        for off in offs + EXTRA_OFFS:
            small_grid = off >= 24
            for ln in range(81):
                if small_grid and ln not in (0, 1, 7, 8, 9, 16, 31, 32, 33, 63, 64, 65, 80):
                    continue
                kinds = range(3) if thorough else [n % 3]
                for kind in kinds:
                    n += 1
                    pad = (0, 2, 1)[n % 3]
                    buf = hx(content(rng, kind, size + pad))
                    v = VALUES[n % 4] if n % 5 else rng.getrandbits(64)
                    L.append('su %s %d %d %d %d' % (buf, size, off, v, ln))
                    sv = v - (1 << 64) if v >> 63 else v
                    L.append('si %s %d %d %d %d' % (buf, size, off, sv, ln))
                    rb = hx(content(rng, 2 if kind == 0 else kind, size + pad))
                    for w in (8, 16, 32, 64):
                        L.append('gu %d %s %d %d %d' % (w, rb, size, off, ln))
                        L.append('gi %d %s %d %d %d' % (w, rb, size, off, ln))
                    nb = (ln + 7) // 8
                    L.append('gb %s %s %d %d %d' % (hx(content(rng, 1 + n % 2, nb + n % 3)), rb, size, off, ln))
        for off in list(range(0, 112)) + [199, 200, 1000]:
            buf = content(rng, 2, size + (off % 3))
            L.append('gbit %s %d %d' % (hx(buf), size, off))
            L.append('sb %s %d %d %d' % (hx(buf), size, off, off % 2))
            L.append('sb %s %d %d %d' % (hx(content(rng, 1, size + 1)), size, off, 0))
            L.append('gf32 %s %d %d' % (hx(buf), size, off))
            L.append('gf64 %s %d %d' % (hx(buf), size, off))
            L.append('sf32 %s %d %d %d' % (hx(buf), size, off, rng.getrandbits(32)))
            L.append('sf64 %s %d %d %d' % (hx(buf), size, off, rng.getrandbits(64)))
            L.append('gf16 %s %d %d' % (hx(buf), size, off))
            L.append('sf16 %s %d %d %d' % (hx(buf), size, off, rng.choice([rng.getrandbits(32), 0x3F800000 + rng.getrandbits(20), 0x477FF000, 0x7FC00000])))
    # -- signed getters on boundary values: the field holds the minimum (10..0), the maximum (01..1), -1 and 1, at every offset 0..15
    #    and every length 1..64, surrounded by the complement pattern
    for off in range(16):
        for ln in range(1, 65):
            for v in {1 << (ln - 1), (1 << (ln - 1)) - 1, (1 << ln) - 1, 1}:
                size = (off + ln + 7) // 8
                for fill in (0, (1 << (8 * size)) - 1):
                    x = (fill & ~(((1 << ln) - 1) << off)) | (v << off)
                    buf = hx(x.to_bytes(size, 'little'))
                    for w in (8, 16, 32, 64):
                        if ln <= w:
                            L.append('gi %d %s %d %d %d' % (w, buf, size, off, ln))
    # -- nunavutSaturateBufferFragmentBitLength incl. the size_t wrap-around region (pure function: safe to call with anything)
    edge = [0, 1, 7, 8, 9, 63, 64, 65, 1 << 31, (1 << 32) - 1, 1 << 32, (1 << 61) - 1, 1 << 61, (1 << 61) + 1, (1 << 63), M64 - 8, M64 - 1, M64]
    for a in edge:
        for b in edge:
            for c in (0, 1, 64, 1 << 40, M64):
                L.append('sat %d %d %d' % (a, b, c))
    for _ in range(2000):
        L.append('sat %d %d %d' % (rng.randrange(0, 40), rng.randrange(0, 400), rng.randrange(0, 400)))
    # -- random larger ones
    big: typing.List[str] = []
    for _ in range(20000 if thorough else 1500):
        ln = rng.choice([rng.randrange(0, 2100), rng.randrange(0, 300), 8 * rng.randrange(0, 200)])
        soff, doff = rng.choice([rng.randrange(0, 2500), 8 * rng.randrange(0, 300)]), rng.choice([rng.randrange(0, 2500), 8 * rng.randrange(0, 300)])
        d = content(rng, rng.randrange(3), (doff + ln + 7) // 8 + rng.randrange(0, 3))
        s = content(rng, 2, (soff + ln + 7) // 8 + rng.randrange(0, 3))
        big.append('cp %s %d %d %s %d' % (hx(d), doff, ln, hx(s), soff))
        size = rng.randrange(0, 300)
        buf = hx(content(rng, 2, size + rng.randrange(0, 3)))
        off = rng.choice([rng.randrange(0, 8 * size + 70), 8 * rng.randrange(0, size + 3)])
        ln2 = rng.randrange(0, 256)
        w = rng.choice([8, 16, 32, 64])
        big.append('gu %d %s %d %d %d' % (w, buf, size, off, ln2))
        big.append('gi %d %s %d %d %d' % (w, buf, size, off, ln2))
        big.append('su %s %d %d %d %d' % (buf, size, off, rng.getrandbits(64), ln2))
        big.append('si %s %d %d %d %d' % (buf, size, off, rng.getrandbits(64) - (1 << 63), ln2))
        ln3 = rng.randrange(0, 600)
        big.append('gb %s %s %d %d %d' % (hx(content(rng, 1, (ln3 + 7) // 8 + 1)), buf, size, off, ln3))
    # spread the (for the list-based model) expensive large cases evenly over the shards
    step = max(1, len(L) // (len(big) + 1))
    out: typing.List[str] = []
    for k in range(0, len(L), step):
        out.extend(L[k:k + step])
        if big:
            out.append(big.pop())
    out.extend(big)
    L = out
    return L


def gen_cpp_cases(rng, tier: str) -> typing.List[str]:
    """commands that exist only on the C++ bitspan: setZeros, padAndMoveToAlignment, copyTo with explicit span sizes (clamp),
    the three subspans, size(), offset_bytes_ceil(), align_offset_to"""
    thorough = tier == 'thorough'
    L = ['xz ffff 2 7 2', 'xz ffffff 3 7 2', 'xz ffffffff 4 15 10']          # first line: the witness of F-CPP-ZEROS (fixed in /repo)
    n = 0
    for size in range(13):
        for off in list(range(24)) + [o for o in EXTRA_OFFS if o <= 8 * size + 9]:
            for ln in range(81):
                for kind in ((1, 2) if thorough else (1 + (n % 2),)):
                    n += 1
                    L.append('xz %s %d %d %d' % (hx(content(rng, kind, size + (n % 3))), size, off, ln))
        for off in range(0, 8 * size + 12):
            for nb in (8, 16, 32, 64):
                L.append('xpad %s %d %d %d' % (hx(content(rng, 1 + (off + nb) % 2, size + off % 2)), size, off, nb))
            L.append('xbits %d %d' % (size, off))
            L.append('xceil %d %d' % (size, off))
    for off in list(range(0, 200)) + [M64 - 70, M64 - 64, M64 - 63, M64 - 8, M64 - 7]:
        for nb in (8, 16, 32, 64):
            L.append('xalign %d %d' % (off, nb))
    for a in (0, 1, 1 << 61, (1 << 61) + 1, M64 >> 3, M64):
        for b in (0, 1, 7, 8, 9, M64 - 7, M64 - 6, M64):
            L.append('xbits %d %d' % (a, b))
            L.append('xceil %d %d' % (0, b))
            L.append('xob %d %d' % (0, b))
    # setZeros() [no argument], copyTo(dst) [no length], at_offset, offset_bytes
    for size in range(9):
        for off in range(0, 8 * size + 10):
            for kind in (1, 2):
                L.append('xza %s %d %d' % (hx(content(rng, kind, size + off % 3)), size, off))
            L.append('xob %d %d' % (size, off))
            for bits in (0, 1, 7, 8, 9, 8 * size, 8 * size + 1, 100):
                L.append('xat %d %d %d' % (size, off, bits))
                L.append('xso %d %d %d' % (size, off, bits))
            for nb in (1, 8, 16, 32, 64):
                L.append('xmis %d %d' % (off, nb))
    for ssize in range(5):
        for soff in range(8 * ssize + 10):
            n = max(0, 8 * ssize - soff)
            for doff in (0, 1, 5, 8, 11):
                dsize = (doff + n + 7) // 8 + (soff % 2)
                L.append('xcpa %s %d %d %s %d %d' % (hx(content(rng, rng.randrange(3), dsize + 1)), dsize, doff,
                                                    hx(content(rng, 2, ssize + soff % 2)), ssize, soff))
    for ssize in range(5):
        for soff in range(8 * ssize + 10):
            for ln in range(0, 41):
                for doff in ((0, 3, 8, 13) if not thorough else range(16)):
                    dsize = (doff + ln + 7) // 8 + (ln % 2)
                    L.append('xcp %s %d %d %d %s %d %d' % (hx(content(rng, rng.randrange(3), dsize + ln % 3)), dsize, doff, ln,
                                                          hx(content(rng, 2, ssize + soff % 2)), ssize, soff))
    for size in range(7):
        for pad in (0, 2):
            nalloc = size + pad
            for off in range(0, 8 * nalloc + 1):
                for bits in range(0, 8 * nalloc - off + 1, 1 if thorough else 3):
                    L.append('xsub %d %d %d %d' % (nalloc, size, off, bits))
                    for sb in (0, 1, 7, 8, 9, 16, 24, 8 * size):
                        L.append('xsub2 %d %d %d %d %d' % (nalloc, size, off, bits, sb))
                for nb in range(0, size + 3):
                    L.append('xsubb %d %d %d %d' % (nalloc, size, off, nb))
    # the whole size_t range of the arguments (findings F-BITSPAN-PAD-TRUNC / F-BITSPAN-SUBSPAN-WRAP): alignments above 255,
    # offsets and sizes whose sums wrap around 2^64
    T = 1 << 64
    for size in (0, 1, 4, 40, 80):
        for off in sorted({0, 1, 3, 7, 8, 9, 44, 255, 256, 257, 8 * size, max(0, 8 * size - 1), 8 * size + 8}):
            for n in (256, 257, 300, 511, 512, 513, 640, 1000, 1 << 16, (1 << 32) + 8, 1 << 63, T - 8, T - 1):
                L.append('xpad %s %d %d %d' % (hx(content(rng, rng.randrange(3), size)), size, off, n))
    for size in (0, 1, 4, 6):
        for off in (0, 1, 7, 8, 9, 8 * size, 8 * size + 3):
            for at in (T - 1, T - 7, T - 8, T - 9, T - off if off else T - 16, T - off - 1, T - 8 * size - off - 1, T // 2):
                for sb in (0, 1, 8, 8 * size):
                    L.append('xsub2 %d %d %d %d %d' % (size + 1, size, off, at % T, sb))
            for at in (0, 1, 8):
                for sb in (T - 1, T - 6, T - 7, T - 8, T - 9, T - off - at if off + at else T - 16, T // 2):
                    L.append('xsub2 %d %d %d %d %d' % (size + 1, size, off, at, sb % T))
    return L


def rand_bits_value(rng, n: int) -> int:
    return rng.choice([0, (1 << n) - 1, rng.getrandbits(n), 1 << (n - 1), 1]) & ((1 << n) - 1) if n > 0 else 0


def gen_py_cases(rng, tier: str) -> typing.List[str]:
    """operation sequences on the Python Serializer / Deserializer: every start offset 0..23 x every add_* / fetch_* method x
    every bit length 1..64 (byte and bit arrays up to 80 bits), followed by a marker write/read; random longer sequences; forks"""
    thorough = tier == 'thorough'
    L: typing.List[str] = []

    def prefix(off: int) -> typing.List[str]:
        ops = []
        while off > 0:
            k = min(off, rng.choice([1, 3, 8, 13, 24]))
            ops.append('uu:%d:%d' % (rand_bits_value(rng, k), k) if rng.random() < 0.8 else 'sk:%d' % k)
            off -= k
        return ops

    def sval(b: int) -> int:
        return rng.choice([-(1 << (b - 1)), (1 << (b - 1)) - 1, -1, 0, rng.randrange(-(1 << (b - 1)), 1 << (b - 1))])

    def dblhex(size: int) -> str:
        x = rng.choice([0.0, -0.0, 1.0, -2.5, 65504.0, 65520.0, 1e5, -1e39, 3.4e38, 1e-8, 5.96e-8, float('inf'), float('-inf'), rng.uniform(-70000, 70000),
                        rng.uniform(-1, 1) * 10.0 ** rng.randrange(-45, 40)])
        return struct.pack('<d', x).hex()

    for off in range(24):
        unal, al = [], []
        for b in range(1, 65):
            reps = 2 if thorough else 1
            for _ in range(reps):
                unal.append('uu:%d:%d' % (rand_bits_value(rng, b), b))
                al.append('au:%d:%d' % (rand_bits_value(rng, b), b))
                if b >= 2:
                    unal.append('us:%d:%d' % (sval(b), b))
                    al.append('as:%d:%d' % (sval(b), b))
        for nb in range(0, 11):
            h = hx(content(rng, 2, nb))
            unal.append('ub:' + h)
            al.append('ab:' + h)
        for cnt in range(0, 81):
            bs = ''.join(rng.choice('01') for _ in range(cnt)) or '-'
            unal.append('ubits:' + bs)
            al.append('abits:' + bs)
        unal += ['bit:0', 'bit:1', 'pad:8', 'pad:16', 'pad:32', 'pad:64']
        for w in (8, 16, 32, 64):
            al += ['u%d:%d' % (w, rand_bits_value(rng, w)), 'u%d:%d' % (w, (1 << w) - 1), 'i%d:%d' % (w, sval(w)), 'i%d:%d' % (w, -(1 << (w - 1)))]
        for size in (2, 4, 8):
            for _ in range(4):
                d = dblhex(size)
                packed = pack_float(size, struct.unpack('<d', bytes.fromhex(d))[0]).hex()
                unal.append('uf:%d:%s:%s' % (size, d, packed))
                al.append('af:%d:%s:%s' % (size, d, packed))
        for dt, isz in (('<u2', 2), ('<i4', 4), ('<f8', 8)):
            h = hx(content(rng, 2, isz * rng.randrange(0, 4)))
            unal.append('ua:%s:%s' % (dt, h))
            al.append('aa:%s:%s' % (dt, h))
        for op in unal + (al if off % 8 == 0 else []):
            ops = prefix(off) + [op, 'uu:1:1', 'bit:1']
            L.append('pyser 24 ' + ';'.join(ops))
        # deserializer: same grid of fetches on random / short buffers (zero extension)
        dun = ['uu:%d' % b for b in range(1, 65)] + ['us:%d' % b for b in range(2, 65)] + ['ub:%d' % k for k in range(0, 11)] + \
              ['ubits:%d' % k for k in range(0, 81)] + ['bit', 'uf:2', 'uf:4', 'uf:8', 'pad:8', 'pad:64', 'rem']
        dal = ['au:%d' % b for b in range(1, 65)] + ['as:%d' % b for b in range(2, 65)] + ['ab:%d' % k for k in range(0, 11)] + \
              ['abits:%d' % k for k in range(0, 81)] + ['u8', 'u16', 'u32', 'u64', 'i8', 'i16', 'i32', 'i64', 'af:2', 'af:4', 'af:8']
        for op in dun + (dal if off % 8 == 0 else []):
            for size in ((0, 2, 5, 12) if not thorough else (0, 1, 2, 3, 5, 8, 12)):
                buf = content(rng, rng.choice([1, 2, 2]), size)
                L.append('pydes %s %s' % (hx(buf), ';'.join((['sk:%d' % off] if off else []) + [op, 'uu:3', 'bit', 'rem'])))
    # arrays of standard-bit-length primitives: every dtype x count 0..5 x offsets 0..15, on buffers shorter and longer than needed
    dtypes = ['<u1', '<u2', '<u4', '<u8', '<i1', '<i2', '<i4', '<i8', '<f2', '<f4', '<f8']
    for off in range(16):
        for dt in dtypes:
            w = int(dt[2:])
            for cnt in range(0, 6 if not thorough else 9):
                for size in (0, w * cnt // 2, w * cnt + 3):
                    buf = hx(content(rng, 2, size))
                    pre = ['sk:%d' % off] if off else []
                    L.append('pydes %s %s' % (buf, ';'.join(pre + ['ua:%s:%d' % (dt, cnt), 'uu:5', 'rem'])))
                    if off % 8 == 0:
                        L.append('pydes %s %s' % (buf, ';'.join(pre + ['aa:%s:%d' % (dt, cnt), 'uu:5', 'rem'])))
                h = hx(content(rng, 2, w * cnt))
                L.append('pyser 64 ' + ';'.join(prefix(off) + ['ua:%s:%s' % (dt, h), 'bit:1']))
                if off % 8 == 0:
                    L.append('pyser 64 ' + ';'.join(prefix(off) + ['aa:%s:%s' % (dt, h), 'bit:1']))
    # the classes for big-endian hosts (instantiated directly): inherited methods behave as on the little-endian classes, the
    # array-of-primitives methods raise NotImplementedError
    for off in (0, 3, 8, 13):
        for op in ('uu:%d:11' % rand_bits_value(rng, 11), 'us:-5:7', 'ub:a1b2c3', 'ubits:1011001', 'bit:1', 'pad:16', 'ua:<u2:01020304', 'ua:<f4:0000803f') + \
                  (('au:77:9', 'ab:0102', 'u32:305419896', 'i16:-2', 'abits:110', 'aa:<u2:0102', 'aa:<i8:0102030405060708') if off % 8 == 0 else ()):
            L.append('pyserbe 24 ' + ';'.join(prefix(off) + [op, 'uu:1:1']))
        for op in ('uu:11', 'us:7', 'ub:3', 'ubits:9', 'bit', 'pad:16', 'rem', 'ua:<u2:2', 'ua:<f8:1') + \
                  (('au:9', 'ab:2', 'u32', 'i16', 'abits:5', 'aa:<u4:1', 'aa:<i1:3') if off % 8 == 0 else ()):
            for size in (0, 3, 12):
                L.append('pydesbe %s %s' % (hx(content(rng, 2, size)), ';'.join((['sk:%d' % off] if off else []) + [op, 'uu:3'])))
    # ZeroExtendingBuffer: get_byte, get_unsigned_slice, fork_bytes, bit_length
    for size in range(0, 9):
        buf = hx(content(rng, 2, size))
        ops = ['bl'] + ['gb:%d' % i for i in range(0, size + 3)] + ['sl:%d:%d' % (l, r) for l in range(0, size + 3) for r in range(l, size + 4)]
        L.append('zeb %s %s' % (buf, ';'.join(ops)))
        for o in range(0, size + 2):
            for n_ in range(0, size + 3):
                L.append('zeb %s fk:%d:%d;bl' % (buf, o, n_))
        L.append('zeb %s sl:%d:%d' % (buf, size + 1, size))
    # signed fetches on boundary values (minimum 10..0, maximum 01..1, -1, 1) at every offset 0..15 and every bit length 2..64
    for off in range(16):
        for b in range(2, 65):
            for v in {1 << (b - 1), (1 << (b - 1)) - 1, (1 << b) - 1, 1}:
                size = (off + b + 7) // 8
                for fill in (0, (1 << (8 * size)) - 1):
                    x = (fill & ~(((1 << b) - 1) << off)) | (v << off)
                    pre = ['sk:%d' % off] if off else []
                    L.append('pydes %s %s' % (hx(x.to_bytes(size, 'little')), ';'.join(pre + ['us:%d' % b, 'rem'])))
                    if off % 8 == 0:
                        L.append('pydes %s %s' % (hx(x.to_bytes(size, 'little')), ';'.join(pre + ['as:%d' % b, 'rem'])))
    # over-range values (the documented implicit truncation): every offset 0..23 x every bit length 1..64 x values wider than the
    # field, each followed by further unaligned writes (which rely on the bits after the cursor being zero)
    for off in range(24):
        for b in range(1, 65):
            wide = [(1 << b), (1 << b) | rand_bits_value(rng, b), (1 << (b + 1 + rng.randrange(0, 7))) - 1, (1 << 71) - 1 - rng.getrandbits(40)]
            tail = ['uu:%d:%d' % (rng.getrandbits(5), 5), 'bit:1', 'ub:%s' % hx(content(rng, 2, 2)), 'uu:0x%x:%d' % ((1 << 70) + 5, 3)]
            for v in wide:
                L.append('pyser 32 ' + ';'.join(prefix(off) + ['uu:0x%x:%d' % (v, b)] + tail))
                if off % 8 == 0:
                    L.append('pyser 32 ' + ';'.join(prefix(off) + ['au:0x%x:%d' % (v, b)] + tail))
        if off % 8 == 0:
            for w in (16, 32, 64):
                L.append('pyser 32 ' + ';'.join(prefix(off) + ['u%d:0x%x' % (w, (1 << (w + 3)) + rng.getrandbits(w)), 'uu:3:2', 'bit:1']))
    # too-small buffers: every writer with the cursor around the end of buffers of 1..4 bytes (Serializer.new(0..3)); the property
    # demands an exception as soon as the bits do not fit
    small_ops = ['ab:77', 'ab:0102', 'ab:-', 'au:5:3', 'au:165:8', 'au:421:9', 'au:0x1ffff:17', 'as:-3:5', 'as:-300:11', 'abits:101', 'abits:111111111',
                 'aa:<u1:09', 'aa:<u2:0102', 'u8:7', 'u16:258', 'u32:16909060', 'u64:72623859790382856', 'i8:-7', 'i16:-2', 'i32:-2', 'i64:-2',
                 'af:2:000000000000f03f:003c', 'af:4:000000000000f03f:0000803f', 'af:8:000000000000f03f:000000000000f03f',
                 'ub:ff', 'ub:ffee', 'ub:-', 'uu:5:3', 'uu:165:8', 'uu:421:9', 'us:-3:5', 'ubits:101', 'ubits:111111111', 'ua:<u1:09', 'ua:<u2:0102',
                 'uf:2:000000000000f03f:003c', 'uf:8:000000000000f03f:000000000000f03f', 'bit:1', 'pad:8', 'pad:64']
    for nreq in range(0, 4):
        end = 8 * (nreq + 1)
        for c0 in range(max(0, end - 26), end + 10):
            for op in small_ops:
                if op[0] == 'a' and op.split(':')[0] != 'af' and c0 % 8 and not op.startswith(('ab', 'au', 'as', 'aa')):
                    continue
                if op.split(':')[0] in ('ab', 'au', 'as', 'abits', 'aa', 'af', 'u8', 'u16', 'u32', 'u64', 'i8', 'i16', 'i32', 'i64') and c0 % 8:
                    continue
                L.append('pyser %d %s' % (nreq, ';'.join((['sk:%d' % c0] if c0 else []) + [op, 'bit:1'])))
    # degenerate bit lengths: the asserts of the source raise (compared with the model only)
    for off in (0, 5, 8):
        for op in ('uu:5:0', 'us:1:1', 'us:0:0', 'au:5:0', 'as:1:1'):
            L.append('pyser 8 ' + ';'.join(prefix(off) + [op]))
        for op in ('uu:0', 'us:1', 'us:0', 'au:0', 'as:1'):
            L.append('pydes 0102 ' + ';'.join((['sk:%d' % off] if off else []) + [op]))
    # random longer sequences
    ser_un = ['uu', 'us', 'ub', 'ubits', 'bit', 'pad', 'uf', 'sk']
    for _ in range(20000 if thorough else 2500):
        ops, cur, cap = [], 0, 8 * 40
        for _ in range(rng.randrange(1, 9)):
            k = rng.choice(ser_un + (['au', 'as', 'ab', 'abits', 'u', 'i', 'af'] if cur % 8 == 0 else []))
            if k in ('uu', 'au'):
                b = rng.randrange(1, 65); op = '%s:%d:%d' % (k, rand_bits_value(rng, b), b); cur += b
            elif k in ('us', 'as'):
                b = rng.randrange(2, 65); op = '%s:%d:%d' % (k, sval(b), b); cur += b
            elif k in ('ub', 'ab'):
                nb = rng.randrange(0, 6); op = '%s:%s' % (k, hx(content(rng, 2, nb))); cur += 8 * nb
            elif k in ('ubits', 'abits'):
                c = rng.randrange(0, 30); op = '%s:%s' % (k, ''.join(rng.choice('01') for _ in range(c)) or '-'); cur += c
            elif k == 'bit':
                op = 'bit:%d' % rng.randrange(2); cur += 1
            elif k == 'pad':
                n = rng.choice([8, 16, 32, 64]); op = 'pad:%d' % n; cur += (n - cur % n) % n
            elif k == 'sk':
                c = rng.randrange(0, 20); op = 'sk:%d' % c; cur += c
            elif k in ('uf', 'af'):
                size = rng.choice([2, 4, 8]); d = dblhex(size)
                op = '%s:%d:%s:%s' % (k, size, d, pack_float(size, struct.unpack('<d', bytes.fromhex(d))[0]).hex()); cur += 8 * size
            elif k == 'u':
                w = rng.choice([8, 16, 32, 64]); op = 'u%d:%d' % (w, rand_bits_value(rng, w)); cur += w
            else:
                w = rng.choice([8, 16, 32, 64]); op = 'i%d:%d' % (w, sval(w)); cur += w
            if cur + 8 > cap:
                break
            ops.append(op)
        L.append('pyser 40 ' + ';'.join(ops))
        dops = []
        cur = 0
        for _ in range(rng.randrange(1, 9)):
            k = rng.choice(['uu:%d' % rng.randrange(1, 65), 'us:%d' % rng.randrange(2, 65), 'ub:%d' % rng.randrange(0, 6), 'ubits:%d' % rng.randrange(0, 30), 'bit',
                            'pad:%d' % rng.choice([8, 16, 32, 64]), 'sk:%d' % rng.randrange(0, 20), 'uf:%d' % rng.choice([2, 4, 8]), 'rem'])
            dops.append(k)
        L.append('pydes %s %s' % (hx(content(rng, 2, rng.randrange(0, 30))), ';'.join(dops)))
    # forks (delimited serialization pattern) and deserializer forks
    for _ in range(3000 if thorough else 400):
        pre = 8 * rng.randrange(0, 4)
        n = rng.randrange(0, 12)
        child, used = [], 0
        while True:
            b = rng.randrange(1, 33)
            if used + b > 8 * n - 32 or len(child) > 4:
                break
            child.append('uu:%d:%d' % (rand_bits_value(rng, b), b)); used += b
        if 8 * n >= 32:
            nbytes = (used + 7) // 8
            ops = prefix(pre) + ['fork:%d' % n, 'sk:32'] + child + ['pad:8', 'join', 'u32:%d' % nbytes, 'sk:%d' % (8 * nbytes), 'uu:5:3']
            L.append('pyser 24 ' + ';'.join(ops))
        size = rng.randrange(0, 16)
        k = rng.randrange(0, size + 1)
        at = rng.randrange(0, max(1, size - k + 1))
        L.append('pydes %s %s' % (hx(content(rng, 2, size)), ';'.join((['sk:%d' % (8 * at)] if at else []) +
                                                                    ['fork:%d' % k, 'uu:%d' % rng.randrange(1, 65), 'ub:%d' % rng.randrange(0, 6), 'rem', 'join', 'sk:%d' % (8 * k), 'uu:7', 'rem'])))
    return L


def gen_f16_cases(rng, tier: str) -> typing.List[str]:
    """all 65536 halves for unpack; pack on every binary32 exponent x a mantissa grid containing every rounding boundary
    (multiples of 4096 of the 23-bit mantissa: ties and truncation points) and its neighbours; sorted by magnitude per sign"""
    L = ['f16u %d' % h for h in range(65536)]
    deltas = (0, 4095, 4096, 8191) if tier == 'quick' else (0, 1, 2047, 2048, 4094, 4095, 4096, 4097, 4098, 6143, 6144, 6145, 8189, 8190, 8191, 5000)
    for e in range(256):
        base = e << 23
        # quick tier: the full mantissa grid where the result is finite and non-zero (and one binade around), a sparse one elsewhere
        step = 1 if (tier != 'quick' or 98 <= e <= 144) else 16
        for j in range(0, 1024, step):
            for d in sorted(deltas):
                L.append('f16p %d' % (base + 8192 * j + d))
    neg = []
    for e in range(256):
        for j in range(0, 1024, 8 if tier == 'quick' else 2):
            for d in (0, 4095, 4096, 8191):
                neg.append('f16p %d' % ((1 << 31) + (e << 23) + 8192 * j + d))
    L += neg
    special = [0, 1 << 31, 0x7F800000, 0xFF800000, 0x7FC00000, 0xFFC00000, 0x7F800001, 0xFF800001, 0x7FFFFFFF, 0xFFFFFFFF, 0x7FA00000]
    for centre in (0x477FE000, 0x477FF000, 0x47800000, 0x38800000, 0x33000000, 0x33800000, 0x387FC000, 0x38000000, 0x00800000, 0x32FFFFFF):
        special += [centre + d for d in range(-3, 4)] + [(1 << 31) + centre + d for d in range(-3, 4)]
    L += ['f16p %d' % x for x in special]
    L += ['f16p %d' % rng.getrandbits(32) for _ in range(1 << (16 if tier == 'quick' else 20))]
    return L


# ---------------------------------------------------------------------------------------------------------------------
# building the implementation under test
# ---------------------------------------------------------------------------------------------------------------------
def _render_and_build(job: tuple) -> tuple:
    """(name, nnvg args, compiler command prefix, source) -> (name, exe or None, log)"""
    name, outdir, nnvg_args, cc, src = job
    p = core.run([core.PY, '-m', 'nunavut'] + nnvg_args + ['--outdir', outdir], env=core.repo_env(), timeout=120)
    if p.returncode != 0:
        return name, None, 'nnvg failed: ' + p.stdout[-1500:]
    exe = os.path.join(outdir, 'drv_' + name + ('.o' if '-c' in cc else ''))
    q = core.run(cc + ['-I', outdir, '-o', exe, src], timeout=300)
    if q.returncode != 0:
        return name, None, 'compile failed: ' + q.stdout[-3000:]
    return name, exe, q.stdout[-500:]


CLANG32 = ['clang', '--target=i386-unknown-linux-gnu', '-c', '-O1', '-Wall', '-Wextra', '-Werror', '-isystem', os.path.join(HARNESS, 'c14_stub32xx'),
           '-isystem', '/usr/include/x86_64-linux-gnu']
CLANGXX32 = ['clang++', '--target=i386-unknown-linux-gnu', '-c', '-O1', '-Wall', '-Wextra', '-Werror', '-Wshorten-64-to-32', '-DC14_EXPECT_SIZE_T=4',
             '-isystem', os.path.join(HARNESS, 'c14_stub32xx'), '-isystem', '/usr/include/c++/12', '-isystem', '/usr/include/x86_64-linux-gnu/c++/12',
             '-isystem', '/usr/include/x86_64-linux-gnu']
COMPILED_ONLY: typing.List[str] = []      # names of the 32-bit objects that compiled (nothing to run)
FLOAT_COMMANDS = ('sf16', 'sf32', 'sf64', 'gf16', 'gf32', 'gf64', 'f16p', 'f16pb', 'f16pl', 'f16pr', 'f16u', 'f16ul')


def build_c_targets(scratch: str, tier: str) -> typing.Tuple[dict, typing.List[str]]:
    jobs = []
    src = os.path.join(HARNESS, 'c14_c_drv.c')
    gcc = ['gcc', '-std=c11', '-O1', '-Wall', '-Wextra', '-Werror', '-pedantic', '-DNUNAVUT_ASSERT=assert']
    clang = ['clang', '-std=c11', '-O1', '-g', '-fsanitize=address,undefined', '-fno-sanitize-recover=all', '-DEXACT_ALLOC',
             '-DNUNAVUT_ASSERT=assert']
    for e, a in C_VARIANTS:
        if e == 'big' and tier == 'quick':
            continue   # the `big` rendering differs from `any` only in a comment and the option hash
        name = 'c_%s_%s' % (e, 'asserts' if a else 'noasserts')
        args = ['--target-language', 'c', '--generate-support', 'only', '--target-endianness', e] + (['--enable-serialization-asserts'] if a else [])
        jobs.append((name, os.path.join(scratch, name), args, gcc, src))
        if a and e != 'big':
            jobs.append((name + '_asan', os.path.join(scratch, name + '_asan'), args, clang, src))
        # the omit_float_serialization_support branch of the template: same driver without its float commands
        if (e == 'any' and a) or (tier == 'thorough' and e == 'little' and not a):
            jobs.append((name + '_omitfloat', os.path.join(scratch, name + '_omitfloat'), args + ['--omit-float-serialization-support'],
                         gcc + ['-DC14_OMIT_FLOAT'], src))
    # 32-bit size_t: COMPILE ONLY (clang --target=i386 -c; there is no 32-bit C library or loader in the sandbox, so nothing can be
    # linked or run; gcc -m32 stops at <bits/libc-header-start.h>).  The strict probe instantiates every function with -Wconversion.
    for e, a, f in (('any', False, False), ('little', True, False), ('any', True, True)):
        name = 'c32_%s_%s%s' % (e, 'asserts' if a else 'noasserts', '_omitfloat' if f else '')
        args = ['--target-language', 'c', '--generate-support', 'only', '--target-endianness', e] + (['--enable-serialization-asserts'] if a else []) + \
               (['--omit-float-serialization-support'] if f else [])
        jobs.append((name, os.path.join(scratch, name), args, CLANG32 + ['-std=c11', '-Wconversion', '-DNUNAVUT_ASSERT=assert'] +
                     (['-DC14_OMIT_FLOAT'] if f else []), os.path.join(HARNESS, 'c14_probe32.c')))
    targets, errors = {}, []
    with concurrent.futures.ThreadPoolExecutor(max_workers=6) as ex:
        for name, exe, log in ex.map(_render_and_build, jobs):
            if exe is None:
                errors.append('%s: %s' % (name, log))
            elif name.startswith('c32_'):
                COMPILED_ONLY.append(name)
            else:
                targets[name] = {'exe': exe, 'model': 'c-little' if '_little_' in name else 'c-any', 'omit_float': name.endswith('_omitfloat')}
    return targets, errors


def build_cpp_targets(scratch: str, tier: str) -> typing.Tuple[dict, typing.List[str]]:
    jobs = []
    src = os.path.join(HARNESS, 'c14_cpp_drv.cpp')
    stds = ['c++14'] + (['c++17', 'c++20'] if tier == 'thorough' else [])
    for std in stds:
        for a in (False, True):
            name = 'cpp_%s_%s' % (std.replace('+', 'p'), 'asserts' if a else 'noasserts')
            args = ['--target-language', 'cpp', '--experimental-languages', '--generate-support', 'only', '--language-standard', std] + \
                   (['--enable-serialization-asserts'] if a else [])
            gxx = ['g++', '-std=' + std, '-O1', '-Wall', '-Wextra', '-pedantic', '-DNUNAVUT_ASSERT=assert']
            jobs.append((name, os.path.join(scratch, name), args, gxx, src))
            if std == 'c++14' and not a:
                clang = ['clang++', '-std=c++14', '-O1', '-g', '-fsanitize=address,undefined', '-fno-sanitize-recover=all', '-DEXACT_ALLOC']
                jobs.append((name + '_asan', os.path.join(scratch, name + '_asan'), args, clang, src))
    base = ['--target-language', 'cpp', '--experimental-languages', '--generate-support', 'only']
    gxx = ['-O1', '-Wall', '-Wextra', '-pedantic', '-DNUNAVUT_ASSERT=assert']
    # the remaining Jinja branches of cpp/support/serialization.j2: target_endianness == 'little', omit_float_serialization_support;
    # and the pmr flavour (the cetl flavour needs the CETL headers, absent here: its rendering is covered by the token pin only)
    jobs.append(('cpp_cpp14_little_asserts', os.path.join(scratch, 'cpp_cpp14_little_asserts'),
                 base + ['--language-standard', 'c++14', '--target-endianness', 'little', '--enable-serialization-asserts'], ['g++', '-std=c++14'] + gxx, src))
    jobs.append(('cpp_cpp17pmr_asserts_omitfloat', os.path.join(scratch, 'cpp_cpp17pmr_asserts_omitfloat'),
                 base + ['--language-standard', 'c++17-pmr', '--enable-serialization-asserts', '--omit-float-serialization-support'],
                 ['g++', '-std=c++17', '-DC14_OMIT_FLOAT'] + gxx, src))
    if tier == 'thorough':
        jobs.append(('cpp_cpp17pmr_noasserts', os.path.join(scratch, 'cpp_cpp17pmr_noasserts'), base + ['--language-standard', 'c++17-pmr'],
                     ['g++', '-std=c++17'] + gxx, src))
        jobs.append(('cpp_cpp14_little_noasserts_omitfloat', os.path.join(scratch, 'cpp_cpp14_little_noasserts_omitfloat'),
                     base + ['--language-standard', 'c++14', '--target-endianness', 'little', '--omit-float-serialization-support'],
                     ['g++', '-std=c++14', '-DC14_OMIT_FLOAT'] + gxx, src))
    # 32-bit size_t: compile only (see build_c_targets)
    for nm, extra, defs in (('cpp32_cpp14_noasserts', [], []), ('cpp32_cpp14_little_asserts', ['--target-endianness', 'little', '--enable-serialization-asserts'], []),
                            ('cpp32_cpp14_asserts_omitfloat', ['--enable-serialization-asserts', '--omit-float-serialization-support'], ['-DC14_OMIT_FLOAT'])):
        jobs.append((nm, os.path.join(scratch, nm), base + ['--language-standard', 'c++14'] + extra,
                     CLANGXX32 + ['-std=c++14', '-DNUNAVUT_ASSERT=assert'] + defs, src))
    targets, errors = {}, []
    with concurrent.futures.ThreadPoolExecutor(max_workers=6) as ex:
        for name, exe, log in ex.map(_render_and_build, jobs):
            if exe is None:
                errors.append('%s: %s' % (name, log))
            elif name.startswith('cpp32_'):
                COMPILED_ONLY.append(name)
            else:
                targets[name] = {'exe': exe, 'model': 'cpp', 'omit_float': name.endswith('_omitfloat')}
    return targets, errors


def build_py_target(scratch: str) -> typing.Tuple[dict, typing.List[str]]:
    out = os.path.join(scratch, 'py_support')
    p = core.run([core.PY, '-m', 'nunavut', '--target-language', 'py', '--generate-support', 'only', '--outdir', out], env=core.repo_env(), timeout=120)
    if p.returncode != 0 or not os.path.exists(os.path.join(out, 'nunavut_support.py')):
        return {}, ['py: nnvg failed: ' + p.stdout[-1500:]]
    pydeps = os.path.join(core.BUILD, 'pydeps')
    if not os.path.isdir(os.path.join(pydeps, 'numpy')):
        return {}, ['py: NumPy is not installed in build/pydeps (run tools/setup.sh)']
    env = core.repo_env()
    env['PYTHONPATH'] = os.pathsep.join([out, pydeps, env['PYTHONPATH']])
    return {'py_support': {'exe': core.PY, 'cmd': [core.PY, os.path.join(HARNESS, 'c14_py_drv.py')], 'env': env, 'model': 'py'}}, []


# ---------------------------------------------------------------------------------------------------------------------
# running a shard: every implementation build, the extracted model, the oracle
# ---------------------------------------------------------------------------------------------------------------------
def _run_exe(cmd: typing.List[str], text: str, env=None) -> typing.Tuple[typing.List[str], str, int]:
    try:
        p = subprocess.run(cmd, input=text, stdout=subprocess.PIPE, stderr=subprocess.PIPE, text=True, timeout=1200, env=env)
        return p.stdout.splitlines(), p.stderr[-2000:], p.returncode
    except subprocess.TimeoutExpired:
        return [], 'timeout', 124


def run_shard(job: dict) -> dict:
    lines: typing.List[str] = job['lines']
    text = '\n'.join(lines) + '\n'
    res = {'n': len(lines), 'oracle_bad': [], 'model_bad': [], 'crash': [], 'compared_model': 0, 'compared_oracle': 0, 'branches': {},
           'strata': set(), 'nontrivial_keys': 0, 'f16_vs_struct': {}}
    expected = [oracle(l) for l in lines]
    model_out: typing.Dict[str, typing.Optional[typing.List[str]]] = {}
    if job.get('model_exe'):
        for m in sorted({job.get('model_for_all') or t['model'] for t in job['targets'].values()} - {None}):
            out, err, rc = _run_exe([job['model_exe'], m], text)
            if m == 'py':
                out = [canon_pydes(l, g) for l, g in zip(lines, out)]
            model_out[m] = out if (rc == 0 and len(out) == len(lines)) else None
            if model_out[m] is None:
                res['crash'].append({'target': 'model ' + m, 'stderr': err, 'lines_answered': len(out)})
    verdicts: typing.List[typing.Optional[tuple]] = [None] * len(lines)   # (answer, verdict) of the previous build, per line
    seen = set()
    for l in lines:
        b = nontrivial(l)
        if b is not None:
            res['branches'][b] = res['branches'].get(b, 0) + 1
            seen.add(l)
        if l.startswith('cp '):
            t = l.split(' ')
            res['strata'].add((int(t[5]) % 8, int(t[2]) % 8, int(t[3]) % 8))
    res['nontrivial_keys'] = len(seen)
    for name, t in sorted(job['targets'].items()):
        out, err, rc = _run_exe(t.get('cmd') or [t['exe']], text,
                                env=t.get('env') or dict(os.environ, ASAN_OPTIONS='detect_leaks=1:abort_on_error=0', UBSAN_OPTIONS='print_stacktrace=1'))
        if rc != 0 or len(out) != len(lines):
            k = min(len(out), len(lines) - 1)
            res['crash'].append({'target': name, 'line': lines[k], 'returncode': rc, 'stderr': err, 'lines_answered': len(out),
                                 'expected_by_property': None if expected[k] is None else str(expected[k])})
        mo = model_out.get(job.get('model_for_all') or t['model'])
        prev = None  # monotonicity of float16 packing along the (sorted) grid
        for i, got in enumerate(out[:len(lines)]):
            if t.get('omit_float') and lines[i].split(' ', 1)[0] in FLOAT_COMMANDS:
                continue     # rendering without float support: the driver has no such command (answers ERR), nothing to compare
            if lines[i].startswith('f16p '):
                x = int(lines[i][5:])
                if (x & 0x7FFFFFFF) <= 0x7F800000 and got.isdigit():
                    g = int(got)
                    if prev is not None and (prev[0] >> 31) == (x >> 31) and prev[0] <= x and (prev[1] & 0x7FFF) > (g & 0x7FFF) \
                            and len(res['oracle_bad']) < 50:
                        res['oracle_bad'].append({'target': name, 'line': lines[i], 'implementation': got,
                                                  'expected_by_property': 'monotone: |%d| <= |%d| but packed %d > %d' % (prev[0], x, prev[1], g)})
                    prev = (x, g)
                    if name == job.get('tie_stats_target'):
                        ref = struct_pack_e(x)
                        tie = 2 * val32(x & 0x7FFFFFFF) == (val16(ref & 0x7FFF) + val16(g & 0x7FFF)) << 125
                        k = 'equal_to_struct_e' if ref == g else 'differs_at_exact_tie' if tie and abs(ref - g) == 1 else 'differs_otherwise'
                        res['f16_vs_struct'][k] = res['f16_vs_struct'].get(k, 0) + 1
                else:
                    prev = None
            e = expected[i]
            if e is not None:
                res['compared_oracle'] += 1
                pv = verdicts[i]
                if pv is None or pv[0] != got:
                    pv = verdicts[i] = (got, meets(e, got))
                if not pv[1] and len(res['oracle_bad']) < 50:
                    res['oracle_bad'].append({'target': name, 'line': lines[i], 'expected_by_property': str(e), 'implementation': got,
                                              'model': mo[i] if mo else None})
            if mo is not None:
                res['compared_model'] += 1
                if got != mo[i] and len(res['model_bad']) < 50:
                    res['model_bad'].append({'target': name, 'line': lines[i], 'model': mo[i], 'implementation': got,
                                             'expected_by_property': None if e is None else str(e)})
    # the model against the property as well (a defect of the model must not hide behind an equal defect of the code)
    for m, mo in model_out.items():
        if mo is None:
            continue
        for i, got in enumerate(mo):
            if expected[i] is not None and not meets(expected[i], got) and len(res['model_bad']) < 50:
                res['model_bad'].append({'target': 'model ' + m, 'line': lines[i], 'model': got, 'expected_by_property': str(expected[i])})
    res['strata'] = sorted(res['strata'])
    return res


def native_f16_job(job: dict) -> dict:
    """no model in the loop: C vs C++ digests of nunavutFloat16Pack/float16Pack over whole ranges, and C vs NumPy astype(float16)"""
    res = {'ranges': len(job['ranges']), 'values': 0, 'c_vs_cpp_mismatch': [], 'numpy': None}
    text = ''.join('f16pr %d %d 1\n' % (a, n) for a, n in job['ranges'])
    outs = {}
    for name in ('c', 'cpp'):
        if job.get(name):
            o, err, rc = _run_exe([job[name]], text)
            outs[name] = o if rc == 0 and len(o) == len(job['ranges']) else None
    if outs.get('c') and outs.get('cpp'):
        for (a, n), x, y in zip(job['ranges'], outs['c'], outs['cpp']):
            res['values'] += n
            if x != y:
                res['c_vs_cpp_mismatch'].append({'start': a, 'count': n, 'c_digest': x, 'cpp_digest': y})
    if job.get('c') and job.get('numpy_env'):
        args = [core.PY, os.path.join(HARNESS, 'c14_f16_numpy.py'), job['c'], job['scratch']]
        for a, n in job['ranges']:
            args += [str(a), str(n)]
        o, err, rc = _run_exe(args, '', env=job['numpy_env'])
        try:
            res['numpy'] = json.loads(o[-1])
        except Exception:
            res['numpy'] = {'error': (err or '')[-300:], 'other': 0, 'values': 0}
    return res


DROP_ID = 'F-PY-SER-SILENT-DROP'


WRAP_ID = 'F-SETUXX-OFFSET-WRAP'
PAD_ID = 'F-BITSPAN-PAD-TRUNC'
SUB_ID = 'F-BITSPAN-SUBSPAN-WRAP'
PAD_WITNESS = 'xpad ' + '00' * 80 + ' 80 8 512'
SUB_WITNESS = 'xsub2 4 4 8 18446744073709551609 8'


def ensure_known_loaded(chk: core.Check) -> None:
    """known_findings.json is merged from known_findings.d/ by the lead; the fragment of this property is authoritative for its own
    entries (a status flipped there takes effect at once, also before the next merge)"""
    frag = os.path.join(core.VERIF, 'known_findings.d', 'C14.json')
    try:
        for e in json.load(open(frag))['findings']:
            chk.known[:] = [k for k in chk.known if k['id'] != e['id']] + [e]
    except Exception:
        pass


def probe_offset_wrap(chk: core.Check, all_targets: dict) -> dict:
    """runs the witness of F-SETUXX-OFFSET-WRAP in a process of its own on one C and one C++ build.
    reproduces = anything but `-3 <buffer unchanged>` (a crash, or a success code)"""
    e = chk.known_entry(WRAP_ID)
    line = (e or {}).get('witness', {}).get('line', 'su 0000 2 18446744073709551608 255 16')
    out = {}
    for name in ('c_any_noasserts', 'c_little_noasserts', 'cpp_cpp14_noasserts'):
        t = all_targets.get(name)
        if not t:
            continue
        o, err, rc = _run_exe(t.get('cmd') or [t['exe']], line + '\n', env=t.get('env'))
        out[name] = 'fixed' if (rc == 0 and o == ['-3 0000']) else ('reproduces: ' + (o[0] if o else 'crash (exit %s)' % rc))
    return out


def case_weight(b: dict) -> tuple:
    l = b.get('line', '')
    return (len(l), l)


# ---------------------------------------------------------------------------------------------------------------------
def main(chk: core.Check, replay: typing.Optional[str] = None) -> int:
    scratch = core.scratch('c14-')
    broken: typing.List[str] = []

    import time
    t0 = time.time()
    timing = {}
    # 1. proof obligations
    res = core.coq_check('C14', ['pin_c14py', 'pin_c14c'])
    timing['coq_s'] = round(time.time() - t0, 1)
    chk.proof_coverage(res, [
        'hand models coq/theories/Prims/CPrims.v (C header), CppPrims.v (C++ bitspan), PyPrims.v (Python Serializer/Deserializer), F16.v '
        '(float16 pack/unpack on integers), function by function, tied by the correspondence runs of this check',
        'platform assumptions written into the models: LP64, little-endian host, 8-bit bytes, unsigned int = 32 bits, conversion to a '
        'signed integer type is modulo 2^w (gcc/clang), memmove/memset = list splice; the float multiplications of Float16Pack/Unpack '
        'are IEEE-754 binary32 round-to-nearest-even without flush-to-zero: their integer transcription (F16.v) is PROVED equal to '
        'Flocq 4.1 b32_mult / b32_compare on the whole domain (C14_f16_ieee_bridge, which therefore lists the axioms of the standard '
        'library Reals: ClassicalDedekindReals.sig_forall_dec, sig_not_dec, functional_extensionality_dep, Classical_Prop.classic); '
        'no other theorem depends on them',
        'size_t width: theorems proved for M = 2^32 and M = 2^64 (CPrimsW.v); only the 64-bit instance is run against compiled code '
        '(no 32-bit runtime in the sandbox); three C and three C++ renderings are compiled to i386 objects with clang -Werror -Wconversion / -Wshorten-64-to-32 (x86_64 glibc headers + an empty gnu/stubs-32.h stand-in)',
        'NumPy/struct semantics used by the Python model: uint8 arithmetic, scalar store (OverflowError above 255), slice assignment '
        '(fits or raises; a length-1 source broadcasts), packbits/unpackbits(bitorder="little"), x.view(uint8) = little-endian image, '
        'struct.pack/unpack("<e|f|d") (Section variable float_to_bytes)',
        'extraction: Require Extraction ExtrOcamlBasic only; OCaml 4.13.1; ocaml/c14_driver.ml',
        'drivers tools/harness/c14_c_drv.c, c14_cpp_drv.cpp, c14_py_drv.py, c14_f16_numpy.py; gcc/g++ 12, clang 14 and their sanitizers; '
        'CPython 3.12, NumPy 2.5.3; the big-integer oracle in tools/checks/c14.py',
    ])
    if not res.ok:
        broken.append('proof obligation: %s %s' % (res.failed_file or 'coq', res.failed_theorem or ''))

    # 2. model and implementation builds
    ok_model, model_exe, log = core.build_extracted('c14', 'ExtractC14.v', 'c14_driver.ml')
    if not ok_model:
        broken.append('model does not build/extract: ' + log[-400:])
    targets, errors = build_c_targets(scratch, chk.tier)
    cpp_targets, cpp_errors = build_cpp_targets(scratch, chk.tier)
    py_targets, py_errors = build_py_target(scratch)
    for e in errors + cpp_errors + py_errors:
        broken.append('implementation build: ' + e[:600])

    # Findings with a witness: each witness is run on the real builds, in a process of its own, on EVERY run.
    #   status fixed + witness reproduces  -> the defect is back: VIOLATION with the witness as failing input;
    #   (no C14 finding is `known` at present: all four are fixed; the models are the fixed texts, nothing is excused.)
    ensure_known_loaded(chk)
    regressions: typing.List[dict] = []
    wrap = probe_offset_wrap(chk, dict(targets, **cpp_targets))                       # F-SETUXX-OFFSET-WRAP, fixed in /repo ba46e0a
    for name, v in wrap.items():
        if v.startswith('reproduces'):
            if chk.is_known(WRAP_ID):
                chk.report_known(WRAP_ID)
            else:
                regressions.append({'target': name, 'line': 'su 0000 2 18446744073709551608 255 16', 'implementation': v, 'finding': WRAP_ID,
                                    'expected_by_property': '-3 0000 (too-small buffer reported, nothing written)'})
    py_drop_live = False                                                              # F-PY-SER-SILENT-DROP, fixed in /repo f2fd316
    if py_targets:
        t = py_targets['py_support']
        e = chk.known_entry(DROP_ID)
        w = (e or {}).get('witness', {}).get('line') or 'pyser 2 sk:24;ab:77'
        o, err, rc = _run_exe(t['cmd'], w + '\n', env=t['env'])
        py_drop_live = bool(o) and not o[0].startswith('EXC')
        if py_drop_live:
            regressions.append({'target': 'py_support', 'line': w, 'implementation': o[0], 'finding': DROP_ID,
                                'expected_by_property': 'EXC@1 (the write does not fit: an exception, nothing stored)'})
    bitspan = {}                                                                      # F-BITSPAN-PAD-TRUNC / -SUBSPAN-WRAP, fixed in /repo fcc36ca
    probe_t = cpp_targets.get('cpp_cpp14_noasserts')
    for fid, w, good in ((PAD_ID, PAD_WITNESS, lambda o: o[0].startswith(('0 512 ', '-3 '))), (SUB_ID, SUB_WITNESS, lambda o: o[0] == '-3')):
        if not probe_t:
            continue
        o, err, rc = _run_exe([probe_t['exe']], w + '\n')
        live = not (rc == 0 and o and good(o))
        bitspan[fid] = 'reproduces: ' + (o[0][:40] if o else 'crash (exit %s)' % rc) if live else 'does not reproduce'
        if live and chk.is_known(fid):
            chk.report_known(fid)       # only if the lead sets the entry back to `known`; the model is the fixed text either way
        elif live:
            regressions.append({'target': 'cpp_cpp14_noasserts', 'line': w, 'implementation': o[0] if o else 'crash (exit %s)' % rc, 'finding': fid,
                                'expected_by_property': '0 512 <80 zero bytes> (cursor on a multiple of 512)' if fid == PAD_ID else '-3 (offset beyond the buffer)'})
    timing['builds_s'] = round(time.time() - t0 - timing['coq_s'], 1)
    t1 = time.time()
    # 3. cases
    if replay:
        doc = json.load(open(replay))
        lines = [doc['line']] if doc.get('line') else gen_c_cases(chk.rng, chk.tier) + gen_cpp_cases(chk.rng, chk.tier) + gen_py_cases(chk.rng, chk.tier) + gen_f16_cases(chk.rng, chk.tier)
    else:
        lines = gen_c_cases(chk.rng, chk.tier) + gen_cpp_cases(chk.rng, chk.tier) + gen_py_cases(chk.rng, chk.tier) + gen_f16_cases(chk.rng, chk.tier)
    chunk = 20000
    tie_target = 'c_any_noasserts' if 'c_any_noasserts' in targets else None
    mexe = model_exe if ok_model else None
    # float16 lines do not depend on the endianness rendering: one model run; the big pack grid goes to two builds only
    all_targets = dict(targets, **cpp_targets)
    is_py = lambda l: l.startswith(('py', 'zeb'))
    # the Python target converts halves with struct (ties to even): property oracle only, no model in the loop
    py_f16 = {k: dict(v, model=None) for k, v in py_targets.items()}
    f16_sample = [l for i, l in enumerate(lines) if l.startswith('f16u ') or (l.startswith('f16p ') and i % (4 if chk.tier == 'thorough' else 16) == 0)]
    grid_targets = {k: v for k, v in all_targets.items() if k in ('c_any_noasserts', 'c_little_asserts_asan', 'cpp_cpp14_noasserts')} or \
                   {k: v for k, v in all_targets.items() if not v.get('omit_float')}
    cpp_noassert = {k: v for k, v in cpp_targets.items() if 'noasserts' in k}
    is_x = lambda l: l[0] == 'x'
    is_xsub = lambda l: l.startswith(('xsub', 'xat', 'xob', 'xmis', 'xso'))
    jobs = []
    for fam_targets, fam_lines, mfa in ((all_targets, [l for l in lines if not l.startswith('f16p ') and not is_x(l) and not is_py(l)], None),
                                        (py_targets, [l for l in lines if is_py(l)], None),
                                        (py_f16, f16_sample, None),
                                        (cpp_targets, [l for l in lines if is_x(l) and not is_xsub(l)], None),
                                        (cpp_noassert, [l for l in lines if is_xsub(l)], None),
                                        (grid_targets, [l for l in lines if l.startswith('f16p ')], 'c-any')):
        if not fam_targets:
            continue
        jobs += [{'lines': fam_lines[i:i + chunk], 'targets': fam_targets, 'model_exe': mexe, 'tie_stats_target': tie_target, 'model_for_all': mfa,
                  }
                 for i in range(0, len(fam_lines), chunk)]
    results = []
    with concurrent.futures.ProcessPoolExecutor(max_workers=min(8, max(1, len(jobs)))) as ex:
        for r in ex.map(run_shard, jobs):
            results.append(r)

    # native sweep of float16 packing (no model): all 2^32 binary32 patterns in the thorough tier, a sample in the quick tier
    native = {'values_c_vs_cpp': 0, 'c_vs_cpp_mismatch': [], 'numpy_values': 0, 'numpy_equal': 0, 'numpy_tie_differences': 0, 'numpy_nan_pairs': 0,
              'numpy_other': 0, 'numpy_witnesses': []}
    c_exe = (targets.get('c_any_noasserts') or {}).get('exe')
    cpp_exe = (cpp_targets.get('cpp_cpp14_noasserts') or {}).get('exe')
    if c_exe and not replay:
        if chk.tier == 'thorough':
            ranges = [(i << 24, 1 << 24) for i in range(256)]
        else:
            ranges = [(0x38000000, 1 << 22), (0x47000000, 1 << 22), (0xB3000000, 1 << 21), (chk.rng.randrange(0, 255) << 24, 1 << 21)]
        np_env = (py_targets.get('py_support') or {}).get('env')
        njobs = [{'ranges': ranges[i:i + 8], 'c': c_exe, 'cpp': cpp_exe, 'numpy_env': np_env, 'scratch': scratch} for i in range(0, len(ranges), 8)]
        with concurrent.futures.ProcessPoolExecutor(max_workers=min(8, len(njobs))) as ex:
            for r in ex.map(native_f16_job, njobs):
                native['values_c_vs_cpp'] += r['values']
                native['c_vs_cpp_mismatch'] += r['c_vs_cpp_mismatch']
                if r['numpy']:
                    native['numpy_values'] += r['numpy'].get('values', 0)
                    native['numpy_equal'] += r['numpy'].get('equal', 0)
                    native['numpy_tie_differences'] += r['numpy'].get('tie_differences', 0)
                    native['numpy_nan_pairs'] += r['numpy'].get('nan_pairs', 0)
                    native['numpy_other'] += r['numpy'].get('other', 0)
                    native['numpy_witnesses'] += r['numpy'].get('witnesses', [])[:3]
    timing['run_s'] = round(time.time() - t1, 1)
    chk.notes.append('timing: %r' % timing)
    oracle_bad = [b for r in results for b in r['oracle_bad']]
    model_bad = [b for r in results for b in r['model_bad']]
    crashes = [b for r in results for b in r['crash']]
    branches: typing.Dict[str, int] = {}
    strata = set()
    for r in results:
        for k, v in r['branches'].items():
            branches[k] = branches.get(k, 0) + v
        strata |= {tuple(s) for s in r['strata']}
    f16_vs_struct: typing.Dict[str, int] = {}
    for r in results:
        for k, v in r['f16_vs_struct'].items():
            f16_vs_struct[k] = f16_vs_struct.get(k, 0) + v
    kinds: typing.Dict[str, int] = {}
    for l in lines:
        k = l.split(' ', 1)[0]
        kinds[k] = kinds.get(k, 0) + 1

    chk.coverage.update({
        'evaluations': sum(r['compared_oracle'] for r in results),
        'distinct_nontrivial': sum(r['nontrivial_keys'] for r in results),
        'rule': 'exhaustive grid: nunavutCopyBits for src offset 0..23 x dst offset 0..23 x length 0..80 x {zero/ones, ones/zero, random} '
                'contents with exactly fitting buffers (thorough: also slack bytes); set/get/GetBits for declared size 0..12 x offset '
                '0..23 (+13 larger offsets on a reduced length grid) x length 0..80 x contents, allocation 0..2 bytes longer than the '
                'declared size, widths 8/16/32/64; SetBit/GetBit/F32/F64 for offsets 0..111; SaturateBufferFragmentBitLength incl. '
                'size_t wrap-around arguments; seeded random larger buffers (up to 2500-bit offsets, 2100-bit lengths). Every '
                'call is executed by every build of the header. non-trivial = distinct call that takes a non-default branch (bit loop, '
                'masked tail byte, too-small error, clamp, zero extension, unaligned access)',
        'samples': [lines[i] for i in range(0, len(lines), max(1, len(lines) // 25))][:30],
        'traces_validated_against_impl': sum(r['compared_model'] for r in results),
        'distribution': {'calls': len(lines), 'by_command': kinds, 'by_branch': branches, 'implementation_builds': sorted(all_targets) + sorted(py_targets),
                         'compiled_only_32bit': sorted(COMPILED_ONLY),
                         'copy_strata_src_mod8_dst_mod8_len_mod8': '%d of 512' % len(strata),
                         'float16_pack_C_vs_struct_e': f16_vs_struct,
                         'float16_native_sweep_no_model': native,
                         'offset_wrap_probe': wrap, 'py_silent_drop_live': py_drop_live, 'bitspan_probes': bitspan,
                         'float16_rounding_rules': 'C/C++ nunavutFloat16Pack: nearest, ties away from zero (proved: f16_rounding_rule); '
                                                   'Python struct/NumPy: nearest, ties to even; both are allowed by C14 (nearest or adjacent)'},
    })

    if replay:
        for r in results:
            for b in r['oracle_bad'] + r['model_bad'] + r['crash']:
                print(json.dumps(b))
        print('replayed %d line(s): %d property failures, %d model disagreements, %d crashes' % (len(lines), len(oracle_bad), len(model_bad), len(crashes)))

    # differences between C and NumPy that are not exact ties: a violation only if the C result is not faithful
    for w in native['numpy_witnesses']:
        if 'x' in w and not judge_f16_pack(w['x'], str(w['c'])):
            oracle_bad.append({'target': 'c_any_noasserts (native sweep)', 'line': 'f16p %d' % w['x'], 'implementation': str(w['c']),
                               'expected_by_property': describe_f16_pack(w['x'])})
    if native['c_vs_cpp_mismatch']:
        model_bad.append({'target': 'cpp_cpp14_noasserts vs c_any_noasserts (native sweep)', 'line': 'f16pr %(start)d %(count)d 1' % native['c_vs_cpp_mismatch'][0],
                          'model': native['c_vs_cpp_mismatch'][0]['c_digest'], 'implementation': native['c_vs_cpp_mismatch'][0]['cpp_digest'],
                          'expected_by_property': 'C and C++ carry the same float16Pack: equal digests'})
    impl_crashes = [c for c in crashes if not c['target'].startswith('model')]
    if regressions or oracle_bad or impl_crashes:
        # a fixed finding whose witness reproduces comes first: the witness is the failing input that is reported
        cands = regressions + sorted(oracle_bad, key=case_weight) or impl_crashes
        b = cands[0]
        chk.violation({'line': b.get('line'), 'target': b['target'], 'expected_by_property': b.get('expected_by_property'),
                       'implementation': b.get('implementation', b.get('stderr')), 'model': b.get('model'),
                       'what': 'a support-library primitive does not meet its contract on this call (smallest of %d failing calls)' % len(cands),
                       'n_failing': len(oracle_bad) + len(regressions), 'regressed_findings': sorted({r['finding'] for r in regressions}),
                       'crashes': impl_crashes[:3], 'broken': broken}, found_input=True)
    elif model_bad or crashes:
        b = sorted(model_bad, key=case_weight)[0] if model_bad else crashes[0]
        chk.violation({'line': b.get('line'), 'target': b['target'], 'model': b.get('model'), 'implementation': b.get('implementation'),
                       'correspondence': 'Prims/CPrims.v (extracted) vs rendered serialization.h',
                       'what': 'model and implementation disagree but no call violating the property was found',
                       'n_disagreements': len(model_bad), 'broken': broken, 'crashes': crashes[:3]}, found_input=False)
    elif broken:
        chk.violation({'broken': broken, 'coq_error': res.error_text[-2000:],
                       'what': 'proof obligation or build no longer checks; searched %d calls on the implementation' % len(lines)},
                      found_input=False)
    return chk.finish()
