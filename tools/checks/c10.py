"""C10: per-type output ignores sibling types, processing order and earlier runs in the same interpreter."""
from __future__ import annotations

import concurrent.futures
import json
import os
import re
import typing

from tools.lib import core
from tools.checks import c15 as linepp  # split_lines / oracle: the line-by-line specification (imported, not edited)

PROP = 'C10'
FID = 'F-LEL-LEAK'

MANIFEST = dict(
    technique='Coq proof (induction over histories of generator constructions/generate_all calls, interaction-tree model of '
              'template rendering, invariants on memo tables and post-processor state) over T2-translated UniqueNameGenerator / '
              'LimitEmptyLines and translated structure facts of _generate_code; extracted-model vs. real-API correspondence in '
              'one interpreter per history',
    text='Theorems in coq/theories/Properties/C10.v, for every history of generator constructions, generate_all() calls (any per-call '
         'arguments, dry runs) and cache clearings in one interpreter, every input set, every processing order. Inventories '
         'regenerated from src/nunavut on every run and proved admissible by vm_compute: every memoisation site is keyed by the identity '
         'of self and by-value arguments (and no caller modifies a memoised value), every store on a long-lived object that is '
         'reachable from rendering is reset per file / overwritten per generate_all / a memo of a pure function, every unique-name '
         'filter runs at render time (no exception), every read beyond a type\'s closure (Namespace API, generator namespace, globals, '
         'language context) in render-phase code and in templates a type file can be made of is accounted for, the bundled engine\'s '
         'process-wide lexer cache is keyed by everything the Lexer reads, every object bound at module/class scope (literal containers and results of calls, i.e. '
         'instances) is never written nor handed to code that could keep it (or is reviewed), every keyword argument of the bundled '
         'jinja2 Environment constructor is an allow-listed per-environment value. C10_file_indep: PREMISES class forest, admissible site table (the '
         'model looks memo keys up through it), admissible store table and read table (the model\'s per-file step consults both: '
         'scratch state / the run\'s input set become visible to rendering otherwise), and the named '
         'premise render_pure (which program a template is does not depend on process state); conclusion: same effective '
         'configuration + template listing + constructed processors + type => same template and same bytes in any two histories. '
         'C10_file_indep_real instantiates it with the regenerated tables and C16\'s regenerated pydsdl class forest, leaving only '
         'render_pure. C10_subset: S included in W, closure of k inside S => the file of k EXISTS in both single runs and is '
         'byte-identical. Also: unique names after reset are a function of this file\'s calls; memo transparency and the coarse-key '
         'counterexample; template selection = nearest class of the chain in the listing; dry runs are inert. Regression variants '
         '(shared LimitEmptyLines counter, F-LEL-LEAK) are in History/C10_history.v. '
         'Tie: UniqueNameGenerator, LimitEmptyLines(.reset) and the reset facts of _generate_code are re-translated from /repo on '
         'every run; the extracted model is run on the same histories as the real DSDLCodeGenerator (user template SETS over the '
         'pydsdl hierarchy with markers, written from random scripts: exact bytes and selected template; built-in c/cpp/py/html '
         'templates: byte comparison against new-interpreter references, line skeletons through the model) over whole namespace / '
         'dependency-closed subsets / permuted order / second runs / other-option generators / cleared caches / a REDEFINED variant '
         'of the namespace / every type rendered first / ONE generator called repeatedly with different per-call arguments / earlier '
         'runs in the same interpreter with OTHER option sets (trim_blocks, lstrip_blocks, target language, post-processor list, user '
         'template directory, language options).',
    note='Trusted: Coq kernel; T2 translators (pyfun_tr.py, gen_c10.py); extraction (ExtrOcamlBasic only) + ocaml/c10_driver.ml; '
         'render_pure is a named premise of the theorems, backed outside Coq by the scanned inventories and tested by the byte '
         'comparison of real runs; the store scanner\'s render-phase reachability is a name-based over-approximate call graph. Namespace (__init__/index) files '
         'and support files are not compared. builtin templates end every file in a non-blank line: checked per run, not proved.',
    design='§5 C10')

LANGS = ['c', 'cpp', 'py', 'html']
# (key, prefix, suffix) each language's unique-name filter passes to UniqueNameGenerator: overwritten at the start of every run
# from the source of /repo (derive_uniq_tables); these literals are only the fallback when that fails (which is reported)
UNIQ_ARGS = {'c': ('c', '_', '_'), 'cpp': ('cpp', '_', '_'), 'py': ('py', '_', '_'), 'html': ('html', '', '')}
# how a user template asks for a unique name.  For C++ the argument is made non-constant on purpose: the C++ filter is a plain
# (non-volatile, non-context) filter, so Jinja evaluates it at template COMPILE time when its argument is a literal -- known
# finding F-CPP-UNIQ-FOLD, probed separately by fold_witness_history()
UNIQ_EXPR = {'c': '"%s" | to_template_unique_name', 'py': '"%s" | to_template_unique_name', 'html': '"%s" | make_unique',
             'cpp': '("%s" ~ T.short_name[:0]) | to_template_unique_name'}
FID_FOLD = 'F-CPP-UNIQ-FOLD'
FID_MEMO = 'F-PY-PICKLE-MEMO'
AUDIT_TIME = re.compile(r'(Generated at\s*:\s*)[^\n]*UTC')


def mask_time(text: str) -> str:
    """with embed_auditing_info the files carry the wall-clock time of the run (C07's subject): masked before any comparison"""
    return AUDIT_TIME.sub(r'\1<TIME> UTC', text)


MODEL_BLOB = re.compile(r"_restore_constant_\(\s*(?:'[^'\n]*'\s*)+\)")


def mask_blob(text: str) -> str:
    """a generated Python module with the pickled pydsdl model replaced by a placeholder (used only while F-PY-PICKLE-MEMO
    reproduces: the pickle carries lazily memoised fields of shared pydsdl objects)"""
    return MODEL_BLOB.sub('_restore_constant_(<MODEL>)', text)

HARNESS = os.path.join(core.VERIF, 'tools', 'harness', 'c10_impl.py')


# ---------------------------------------------------------------------------------------------------------------
# encoding for the OCaml driver
# ---------------------------------------------------------------------------------------------------------------
def enc(s: str) -> str:
    return '.'.join(str(ord(c)) for c in s) if s else 'e'


def dec(s: str) -> str:
    return '' if s == 'e' else ''.join(chr(int(t)) for t in s.split('.'))


def enc_list(xs) -> str:
    return ','.join(enc(x) for x in xs) if xs else '-'


def enc_pps(pps) -> str:
    return ':'.join('T' if p[0] == 'trim' else 'L%d' % p[1] for p in pps) or '-'


# ---------------------------------------------------------------------------------------------------------------
# the property as an executable oracle (independent of nunavut and of the Coq model): the file of a type is a function of
# its own script (its own unique-name calls, its own text) and of the configured processors, nothing else
# ---------------------------------------------------------------------------------------------------------------
def script_text(script, lang: str, mark: str = '') -> str:
    counts: typing.Dict[typing.Tuple[str, str], int] = {}
    key, pre, suf = UNIQ_ARGS[lang]
    out = []
    for it in script:
        if it[0] == 't':
            out.append(it[1])
        elif it[0] == 'k':
            out.append(mark)
        elif it[0] == 'u':
            n = counts.get((key, it[1]), 0)
            counts[(key, it[1])] = n + 1
            out.append('%s%s%d%s' % (pre, it[1], n, suf))
    return ''.join(out)


HIER = ['Any', 'SerializableType', 'CompositeType', 'StructureType', 'UnionType', 'ServiceType', 'DelimitedType']


def oracle_select(cls_name: str, stems) -> typing.Optional[str]:
    """the property's own definition of template selection: nearest class of the MRO of the pydsdl class (taken from the
    pydsdl importable by this process, not from the harness) whose name is a stem of the listing"""
    import pydsdl
    c = getattr(pydsdl, cls_name, None)
    stems = dict(stems)
    while c is not None and c is not object:
        if c.__name__ in stems:
            return stems[c.__name__]
        c = c.__bases__[0] if c.__bases__ else None
    return None


def alone_oracle(text: str, pps) -> str:
    if not pps:
        return text
    return linepp.oracle([text], pps)


def derive_uniq_tables() -> typing.Optional[str]:
    """UNIQ_ARGS / UNIQ_EXPR from the source of /repo (tools/translators/gen_c10.uniq_filters): which filter hands out unique
    names in each language, with which key/prefix/suffix, and whether Jinja may fold it at compile time (plain filter: the
    argument is then made non-literal, see F-CPP-UNIQ-FOLD).  Returns an error text when the source cannot be read that way."""
    try:
        from tools.translators import gen_c10
        fs = gen_c10.uniq_filters()
    except Exception as ex:  # noqa
        return 'unique-name filters could not be derived from the source: %r' % (ex,)
    seen = set()
    for f in fs:
        if f['lang'] in seen:
            return 'language %s has more than one unique-name filter' % f['lang']
        seen.add(f['lang'])
        UNIQ_ARGS[f['lang']] = (f['key'], f['prefix'], f['suffix'])
        UNIQ_EXPR[f['lang']] = ('"%s" | ' if f['registration'] != 'plain' else '("%s" ~ T.short_name[:0]) | ') + f['filter']
    missing = [l for l in LANGS if l not in seen]
    return ('no unique-name filter found for %s' % missing) if missing else None


def skel(text: str) -> str:
    """line skeleton of a generated file: what the line processors can see of it (empty / blank / solid, trailing blanks,
    terminators).  The built-in templates' files are replayed through the model in this form (the extracted model works on
    lists of code points; whole headers would take minutes)."""
    out = []
    parts = re.split('(\r\n|\n)', text)            # same line structure as linepp.split_lines, without the per-character loop
    pairs = [(parts[i], parts[i + 1] if i + 1 < len(parts) else '') for i in range(0, len(parts), 2)]
    if pairs and pairs[-1] == ('', ''):
        pairs.pop()
    for content, term in pairs:
        if content == '':
            c = ''
        elif content.strip() == '' and re.fullmatch(r'\s+', content):
            c = ' '
        else:
            c = 'x' + (' ' if re.search(r'\s$', content) else '')
        out.append(c + term)
    return ''.join(out)


def clean_boundary_possible(prev_texts: typing.List[str], pps) -> bool:
    """trigger of F-LEL-LEAK, evaluated on observables only: some earlier file written by the same generator object ends in
    an empty line (after trimming, if a trimmer is configured) and the generator has a LimitEmptyLines processor"""
    if not any(p[0] == 'limit' for p in pps):
        return False
    for t in prev_texts:
        if t and t.replace('\r\n', '\n').rsplit('\n', 1)[-1].strip() == '' and '\n' in t:
            last = t.replace('\r\n', '\n').rstrip('\n') if t.endswith('\n') else t
            # the last LINE (content before the final terminator, or the unterminated rest) is empty
            tail = t.replace('\r\n', '\n')
            line = tail[:-1].rsplit('\n', 1)[-1] if tail.endswith('\n') else tail.rsplit('\n', 1)[-1]
            if line.strip() == '':
                return True
        elif t and '\n' not in t and t.strip() == '':
            return True
    return False


# ---------------------------------------------------------------------------------------------------------------
# DSDL inputs
# ---------------------------------------------------------------------------------------------------------------
class Space:
    def __init__(self, root: str):
        self.root = root
        self.files: typing.Dict[str, str] = {}
        self.deps: typing.Dict[str, typing.List[str]] = {}
        self.order: typing.List[str] = []

    def add(self, ns: str, short: str, body: str, deps: typing.List[str], ver=(1, 0)):
        full = (self.root + ('.' + ns if ns else '')) + '.' + short
        tid = '%s.%d.%d' % (full, ver[0], ver[1])
        rel = '/'.join([self.root] + (ns.split('.') if ns else []) + ['%s.%d.%d.dsdl' % (short, ver[0], ver[1])])
        self.files[rel] = body
        self.deps[tid] = list(deps)
        self.order.append(tid)
        return tid

    def materialise(self) -> str:
        """write the sources once; every interpreter that generates from this space reads the same files"""
        if getattr(self, '_dir', None) is None:
            self._dir = core.scratch('nnvverif-c10-dsdl-')
            for rel, text in self.files.items():
                p = os.path.join(self._dir, rel)
                os.makedirs(os.path.dirname(p), exist_ok=True)
                with open(p, 'w', encoding='utf-8') as f:
                    f.write(text)
        return self._dir

    def edited(self, edits: typing.Dict[str, typing.Tuple[str, typing.List[str]]]) -> 'Space':
        """a VARIANT of the namespace: same type names and versions, some bodies (and dependencies) edited"""
        v = Space(self.root)
        v.files, v.deps, v.order = dict(self.files), {k: list(d) for k, d in self.deps.items()}, list(self.order)
        for tid, (body, deps) in edits.items():
            full, major, minor = tid.rsplit('.', 2)
            rel = '/'.join(full.split('.')) + '.%s.%s.dsdl' % (major, minor)
            assert rel in v.files, rel
            v.files[rel] = body
            v.deps[tid] = list(deps)
        return v

    def closure(self, tids) -> typing.List[str]:
        seen: typing.List[str] = []
        stack = list(tids)
        while stack:
            t = stack.pop()
            if t in seen:
                continue
            seen.append(t)
            stack.extend(self.deps[t])
        return [t for t in self.order if t in seen]


def ref(tid: str) -> str:
    return tid


PRIMS = ['uint8', 'int16', 'float32', 'bool', 'uint64', 'float64', 'int7', 'uint3', 'float16']


def builtin_space(rng, extra: int) -> Space:
    sp = Space('nsx')
    prim = sp.add('', 'Prim', 'uint8 a\nint16 b\nfloat32 c\nbool d\n@sealed\n', [])
    arr = sp.add('', 'Arr', 'uint8[4] fa\nuint16[<=5] va\nfloat64[<=3] vf\nbool[<=9] vb\n@sealed\n', [])
    uni = sp.add('', 'Uni', '@union\nuint8 a\n%s p\nuint16[<=2] v\n@sealed\n' % prim, [prim])
    leaf = sp.add('inner', 'Leaf', '# a leaf\nuint32 v\nuint8 KONST = 7\n@extent 64\n', [])
    mid = sp.add('inner', 'Mid', '%s leaf\n%s[<=3] leaves\n%s[2] ps\n@sealed\n' % (leaf, leaf, prim), [leaf, prim])
    sp.add('', 'Top', '%s mid\n%s u\nuint8 x\n@extent 1024\n' % (mid, uni), [mid, uni])
    sp.add('', 'Svc', '%s req\n@sealed\n---\n%s rsp\n@sealed\n' % (prim, arr), [prim, arr])
    sp.add('', 'Solo', 'void3\nuint5 z\n@sealed\n', [])
    sp.add('', 'Prim', 'uint8 a\nint16 b\nfloat32 c\nuint8 e\n@sealed\n', [], ver=(1, 1))
    # every construct for which the C/C++/Python templates ask for unique names: padding, saturated odd-sized integers,
    # float16, fixed and variable arrays of primitives and of (delimited) composites, nested composites
    sp.add('', 'Mix', 'float16 h\nuint5 s\ntruncated uint5 t\nvoid3\nint7 i\n%s[<=2] dl\nfloat16[3] hs\n%s[2] fp\nint12[<=3] vi\n@extent 8192\n'
           % (leaf, prim), [leaf, prim])
    # documentation comments at every place the templates re-flow them (type, field, constant, union field: different
    # indents), with URLs and with long lines made of hyphenated words that must be wrapped (C++ block_comment / textwrap)
    hy = ' '.join(['the-quick-brown-fox-jumps-over-the-lazy-dog', 'state-of-the-art', 'well-known', 'end-to-end', 'peer-to-peer',
                   'multi-master-redundant-bus', 'x'] * 4)
    url = 'See https://opencyphal.org/specification/Cyphal_Specification.pdf and ftp://a.example/c-d-e for the normative-text.'
    sp.add('doc', 'AUrl', '# %s\n# plain second line\nuint8 a\n# %s\nuint8 K = 1\n# %s\nfloat32 f\n# short\n@sealed\n' % (url, url, url), [])
    sp.add('doc', 'BHyph', '# %s\nuint8 a\n# %s\nuint16 KK = 2\n# %s\nfloat32 f\n# short-doc\n@sealed\n' % (hy, hy, hy), [])
    sp.add('doc', 'CUrlU', '# %s\n@union\nuint8 a\n# %s\nuint16 b\n# %s\n@sealed\n' % (url, url, url), [])
    sp.add('doc', 'DHyphU', '# %s\n@union\nuint8 a\n# %s\nuint16 b\n# %s\n@sealed\n' % (hy, hy, hy), [])
    parta = sp.add('', 'PartA', 'uint8[2] a\n@sealed\n', [])
    partb = sp.add('', 'PartB', 'uint8[2] b\n@sealed\n', [])
    holder = sp.add('', 'Holder', '%s part\nuint8 tail\n@sealed\n' % parta, [parta])
    # the second variant of the same namespace: a dependency replaced by an equally sized one, field order changed,
    # a constant changed -- same names, versions and sizes
    sp.v2 = None
    sp._edits = {
        holder: ('%s part\nuint8 tail\n@sealed\n' % partb, [partb]),
        prim: ('int16 b\nuint8 a\nfloat32 c\nbool d\n@sealed\n', []),
        leaf: ('# a leaf\nuint32 v\nuint8 KONST = 9\n@extent 64\n', []),
    }
    for i in range(extra):
        lines, deps = [], []
        if rng.random() < 0.3:
            lines.append('@union')
        nf = rng.randrange(2, 5)
        for j in range(nf):
            if rng.random() < 0.5 and sp.order:
                d = rng.choice([t for t in sp.order if '.Svc.' not in t])
                deps.append(d)
                ty = d
            else:
                ty = rng.choice(PRIMS if lines[:1] != ['@union'] else PRIMS[:6])
            shape = rng.choice(['', '', '[3]', '[<=4]'])
            lines.append('%s%s f%d' % (ty, shape, j))
        lines.append('@sealed')
        sp.add('gen', 'R%d' % i, '\n'.join(lines) + '\n', sorted(set(deps)))
    sp.v2 = sp.edited(sp._edits)
    return sp


LANG_OPTS = {
    'c': [None, {'target_endianness': 'big'}, {'enable_override_variable_array_capacity': True}],
    'cpp': [None, {'std': 'c++17'}, {'target_endianness': 'big'}],
    'py': [None, None],
    'html': [None, None],
}


# ---------------------------------------------------------------------------------------------------------------
# running the implementation: one harness process per history
# ---------------------------------------------------------------------------------------------------------------
def run_history(job: dict) -> dict:
    work = core.scratch('nnvverif-c10-')
    doc = {'work': work, 'root': job['root'], 'dsdl_roots': job['dsdl_roots'], 'steps': job['steps']}
    p = core.run([core.PY, HARNESS], input=json.dumps(doc), env=core.repo_env({'PYTHONHASHSEED': str(job.get('hashseed', 0))}),
                 timeout=900)
    try:
        doc2 = json.loads(p.stdout[p.stdout.index('{"out"'):])
        out, forest = doc2['out'], doc2.get('forest', {})
    except Exception:
        out, forest = [{'err': 'harness failure: ' + p.stdout[-600:]}] * len(job['steps']), {}
    import shutil
    shutil.rmtree(work, ignore_errors=True)
    return {'job': job, 'out': out, 'forest': forest}


def run_histories(jobs: typing.List[dict]) -> typing.List[dict]:
    with concurrent.futures.ThreadPoolExecutor(max_workers=6) as ex:
        return list(ex.map(run_history, jobs))


# ---------------------------------------------------------------------------------------------------------------
# running the model
# ---------------------------------------------------------------------------------------------------------------
def model_request(deps: typing.Dict[str, typing.List[str]], tables: typing.Dict[typing.Tuple[int, str], list], lang_of_cfg,
                  ops: typing.List[tuple], resets: bool, lel_shared: bool, forest: typing.Dict[str, typing.List[str]],
                  cls_of: typing.Dict[str, str], markers: bool) -> str:
    lines = []
    ids = {n: i for i, n in enumerate(sorted(forest))}
    for n in sorted(forest):
        lines.append('K %d %s %s' % (ids[n], enc(n), ','.join(str(ids[b]) for b in forest[n]) or '-'))
    for k, ds in deps.items():
        lines.append('U %s %d e %s' % (enc(k), ids.get(cls_of.get(k, ''), 0), enc_list(ds)))
    for (cf, k), script in tables.items():
        key, pre, suf = UNIQ_ARGS[lang_of_cfg[cf // 16]]        # cf is the effective configuration: cfg * 16 + per-call args
        items = []
        for it in script:
            if it[0] == 't':
                items.append('t:' + enc(it[1]))
            elif it[0] == 'k':
                items.append('k')
            else:
                items.append('u:%s:%s:%s:%s' % (enc(key), enc(it[1]), enc(pre), enc(suf)))
        lines.append(' '.join(['T', str(cf), enc(k)] + items))
    for o in ops:
        if o[0] == 'new':
            lines.append('N %d %s %s %s' % (o[1], ','.join('%s=%s' % (enc(a), enc(b)) for a, b in o[4]) or '-', enc_pps(o[2]), enc_list(o[3])))
        elif o[0] == 'run':
            lines.append('R %d %d %d %s' % (o[1], o[3], o[4], enc_list(o[2])))
        else:
            lines.append('C')
    lines.append('X %d %d - %d' % (resets, lel_shared, markers))
    return '\n'.join(lines) + '\n'


def run_model(exe: str, requests: typing.List[str]) -> typing.List[typing.Optional[dict]]:
    p = core.run([exe], input=''.join(requests), timeout=240)
    res: typing.List[typing.Optional[dict]] = []
    cur: typing.List[dict] = []
    solid = None
    bad = False
    for l in p.stdout.splitlines():
        t = l.split(' ')
        if t[0] == 'E' and len(t) == 6:
            try:
                cur.append({'cfg': int(t[1]), 'key': dec(t[2]), 'clean': t[3] == '1', 'text': dec(t[4]),
                            'tmpl': None if t[5] == '-' else dec(t[5])})
            except ValueError:
                bad = True
        elif t[0] == 'S':
            solid = t[1] == '1'
        elif t[0] == 'END':
            res.append(None if bad else {'entries': cur})
            cur, solid, bad = [], None, False
        else:
            bad = True
    while len(res) < len(requests):
        res.append(None)
    return res


# ---------------------------------------------------------------------------------------------------------------
# histories
# ---------------------------------------------------------------------------------------------------------------
class Hist:
    """a history in three forms: harness steps, model ops, and bookkeeping to line up the entries"""

    def __init__(self, name: str, sp: Space, kind: str):
        self.name = name
        self.sp = sp
        self.kind = kind
        self.steps: typing.List[dict] = []
        self.gens: typing.List[dict] = []          # per generator: cfg id, lang, subset (list of tids), step index
        self.cfgs: typing.Dict[int, dict] = {}       # cfg id -> {'lang','lang_opts','templates','scripts'}
        self.hashseed = 0
        self.markers = False          # leading marker of the model's table_render (scripts carry their own 'k' items)

    def new(self, cfg: int, subset=None, pps=None, variant: str = 'v1', lctx_of: typing.Optional[int] = None) -> int:
        c = self.cfgs[cfg]
        if pps is None:
            pps = c.get('pps')
        self.steps.append({'op': 'new', 'gen': 'g%d' % len(self.gens), 'lang': c['lang'], 'lang_opts': c.get('lang_opts'),
                           'templates': c.get('templates'), 'pps': pps, 'pps_shared': c.get('pps_shared'), 'subset': subset, 'variant': variant,
                           'lang_cfg': c.get('lang_cfg'),
                           'trim_blocks': c.get('trim'), 'lstrip_blocks': c.get('lstrip'),
                           'lctx_of': None if lctx_of is None else 'g%d' % lctx_of})
        self.gens.append({'cfg': cfg, 'subset': subset if subset is not None else list(self.sp.order), 'step': len(self.steps) - 1,
                          'prefix': '' if variant == 'v1' else variant + ':'})
        return len(self.gens) - 1

    def all_deps(self) -> typing.Dict[str, typing.List[str]]:
        """the model's universe: a redefined type is a different type (model keys of the second variant carry a prefix)"""
        d = dict(self.sp.deps)
        v2 = getattr(self.sp, 'v2', None)
        if v2 is not None:
            d.update({'v2:' + k: ['v2:' + x for x in ds] for k, ds in v2.deps.items()})
        return d

    def mkeys(self) -> typing.List[str]:
        return list(self.sp.order) + (['v2:' + k for k in self.sp.order] if getattr(self.sp, 'v2', None) is not None else [])

    def run(self, gid: int, perm=None, chunks=False, args: int = 0, dry: bool = False):
        """args: bit 0 = omit_serialization_support, bit 1 = embed_auditing_info (per-call arguments of generate_all)"""
        self.steps.append({'op': 'run', 'gen': 'g%d' % gid, 'perm': perm, 'chunks': chunks, 'gid': gid, 'a': args, 'dry': dry,
                           'args': {'is_dryrun': dry, 'omit_serialization_support': bool(args & 1),
                                    'embed_auditing_info': bool(args & 2)}})

    def clear(self):
        self.steps.append({'op': 'clear_caches'})

    def foreign_env(self, **settings):
        self.steps.append({'op': 'foreign_env', 'settings': settings})

    def job(self) -> dict:
        roots = {'v1': self.sp.materialise()}
        if getattr(self.sp, 'v2', None) is not None:
            roots['v2'] = self.sp.v2.materialise()
        return {'root': self.sp.root, 'dsdl': self.sp.files, 'dsdl_roots': roots, 'steps': self.steps,
                'hashseed': self.hashseed, 'name': self.name}


def cfg_sig(c: dict) -> str:
    """what 'the same templates and options' means for the built-in comparisons: target language, language options, white-space
    control flags of the template environment, explicit post-processor list, user template set"""
    return json.dumps([c['lang'], c.get('lang_opts'), c.get('lang_cfg'), bool(c.get('trim')), bool(c.get('lstrip')), c.get('pps'),
                       sorted((c.get('templates') or {}).items())], sort_keys=True)


def gen_template_set(rng) -> typing.List[str]:
    """a random set of template names taken from several levels of the pydsdl class hierarchy such that every composite type
    finds a template (a generic one, or all four specific ones)"""
    names = [n for n in HIER if rng.random() < 0.45]
    if not (set(names) & {'Any', 'SerializableType', 'CompositeType'}):
        if rng.random() < 0.6:
            names.append(rng.choice(['Any', 'SerializableType', 'CompositeType']))
        else:
            names = sorted(set(names) | {'StructureType', 'UnionType', 'ServiceType', 'DelimitedType'})
    rng.shuffle(names)
    return names


def script_templates(sp: Space, scripts: typing.Dict[str, list], lang: str, const_args: bool = False,
                     names: typing.Sequence[str] = ('StructureType', 'UnionType', 'ServiceType', 'DelimitedType'),
                     marker: bool = True) -> typing.Dict[str, str]:
    """user templates named after the given pydsdl classes: an if/elif chain (script item k renders a marker naming the file)
    over the type's name and version"""
    def chain(fname: str) -> str:
      parts = []
      for i, tid in enumerate(sp.order):
        full, major, minor = tid.rsplit('.', 2)
        cond = 'T.full_name == "%s" and T.version.major == %s and T.version.minor == %s' % (full, major, minor)
        body = []
        for it in scripts[tid]:
            if it[0] == 't':
                body.append(it[1])
            elif it[0] == 'k':
                body.append('<%s>' % fname)
            elif it[0] == 'mac':
                body.append('{{ wrap("%s") }}' % it[1])
            elif it[0] == 'omit':
                body.append('{{ nunavut.support.omit }}')
            elif it[0] == 'audit':
                body.append('{{ nunavut.embed_auditing_info }}')
            elif it[0] == 'u':
                body.append('{{ %s }}' % ((UNIQ_EXPR['c'] if const_args else UNIQ_EXPR[lang]) % it[1]))
            elif it[0] == 'id':
                body.append('{{ T.full_name }}')
        parts.append('{%% %s %s %%}%s' % ('if' if i == 0 else 'elif', cond, ''.join(body)))
      # every template imports (without context) a macro file that keeps NO state: a constant and a pure macro
      return "{%- from 'macros.j2' import wrap, OPEN -%}" + ''.join(parts) + '{% endif %}'
    out = {n + '.j2': chain(n + '.j2') for n in names}
    out['macros.j2'] = "{% set OPEN = '[' %}{% macro wrap(x) %}{{ OPEN }}{{ x }}]{% endmacro %}"
    out['Namespace.j2'] = ''
    return out


TEXT_ALPHABET = ['a', 'b', 'x1', ' ', '  ', '\t', '\n', '\n', '\n', '\n\n', ';']
BASES = ['f', 'elem', 'x', 'f']


def gen_script(rng, tid: str) -> list:
    n = rng.choice([1, 2, 3, 4, 6])
    items: typing.List[list] = []
    style = rng.randrange(4)
    if style == 0:
        items.append(['t', rng.choice(['\n', '\n\n', ' \n', '\n\n\n'])])      # file starts with blank lines
    for _ in range(n):
        r = rng.random()
        if r < 0.45:
            items.append(['t', ''.join(rng.choice(TEXT_ALPHABET) for _ in range(rng.randrange(1, 5)))])
        elif r < 0.8:
            items.append(['u', rng.choice(BASES)])
        elif r < 0.9:
            items.append([rng.choice(['omit', 'audit'])])
        elif r < 0.95:
            items.append(['mac', rng.choice(['m', 'q7', 'zz'])])
        else:
            items.append(['id'])
    if style in (1, 2):
        items.append(['t', rng.choice(['\n', 'z\n\n', '\n\n', 'z \n \n', '\n\n\n'])])   # file ends with blank lines
    elif style == 3:
        items.append(['t', rng.choice(['z', 'z\n', 'end'])])
    # the marker naming the template file goes somewhere inside, so that files can still start and end with blank lines
    items.insert(rng.randrange(0 if rng.random() < 0.15 else 1, max(len(items), 2)), ['k'])
    return items


def concretise_args(script: list, args: int, trim: bool = False, lstrip: bool = False) -> list:
    """script items that print the per-call arguments of generate_all become text; the white-space control flags of the
    environment act on the text next to the block tags that enclose a type's script ({% if/elif .. %}<script>{% elif/endif %}):
    trim_blocks removes a newline directly after the opening tag, lstrip_blocks removes blanks between the last newline and
    the closing tag"""
    out = [['t', str(bool(args & 1))] if it[0] == 'omit' else ['t', str(bool(args & 2))] if it[0] == 'audit'
           else ['t', '[%s]' % it[1]] if it[0] == 'mac' else list(it) for it in script]
    if trim and out and out[0][0] == 't' and out[0][1].startswith('\n'):
        out[0] = ['t', out[0][1][1:]]
    if lstrip and out and out[-1][0] == 't':
        m = re.search(r'\n[ \t]*\Z', out[-1][1])
        if m:
            out[-1] = ['t', out[-1][1][:m.start() + 1]]
    return out


def concrete_script(script: list, tid: str) -> list:
    full = tid.rsplit('.', 2)[0]
    return [['t', full] if it[0] == 'id' else it for it in script]


PPS_CHOICES = [None, None, None, [], [['limit', 0]], [['limit', 2]], [['trim']], [['limit', 1], ['trim']], [['trim'], ['limit', 1]],
               [['limit', 3], ['limit', 0]]]


def script_space(rng) -> Space:
    sp = Space('nsy')
    n = rng.randrange(2, 6)
    for i in range(n):
        cands = [t for t in sp.order if 'service' not in getattr(sp, 'kinds', {}).get(t, '')]
        deps = sorted({rng.choice(cands) for _ in range(rng.randrange(0, 3))}) if cands else []
        fields = ''.join('%s d%d\n' % (d, j) for j, d in enumerate(deps)) + 'uint8 x\n'
        kind = rng.choice(['struct', 'struct', 'union', 'union', 'service', 'delimited', 'delimited_union'])
        if kind == 'struct':
            body = fields + '@sealed\n'
        elif kind == 'union':
            body = '@union\n' + fields + 'uint16 y\n@sealed\n'
        elif kind == 'service':
            body = fields + '@sealed\n---\nuint8 r\n@extent 64\n'
        elif kind == 'delimited':
            body = fields + '@extent %d\n' % (4096 * 4 ** i)
        else:
            body = '@union\n' + fields + 'uint16 y\n@extent %d\n' % (4096 * 4 ** i)
        sp.kinds = getattr(sp, 'kinds', {})
        sp.kinds[sp.add('', 'T%d' % i, body, deps)] = kind
    return sp


def gen_script_history(rng, idx: int) -> Hist:
    sp = script_space(rng)
    h = Hist('script-%d' % idx, sp, 'script')
    h.hashseed = rng.randrange(0, 1000)
    ncfg = rng.choice([1, 1, 2])
    for c in range(ncfg):
        lang = rng.choice(LANGS) if idx % 3 else rng.choice(['c', 'cpp'])
        scripts = {t: gen_script(rng, t) for t in sp.order}
        h.cfgs[c + 1] = {'lang': lang, 'trim': rng.random() < 0.3, 'lstrip': rng.random() < 0.3,
                         'templates': script_templates(sp, scripts, lang, names=gen_template_set(rng)),
                         'scripts': {t: concrete_script(s, t) for t, s in scripts.items()}}
    for _ in range(rng.randrange(1, 4)):
        cfg = rng.randrange(1, ncfg + 1)
        subset = None
        if rng.random() < 0.5:
            subset = sp.closure(rng.sample(sp.order, rng.randrange(1, len(sp.order) + 1)))
        pps = rng.choice(PPS_CHOICES)
        g = h.new(cfg, subset, pps)
        for _ in range(rng.choice([1, 1, 2, 3])):
            if rng.random() < 0.2:
                h.run(g, dry=True, perm=rng.choice([None, 'rev']))        # dry run first: looks templates up, writes nothing
            h.run(g, perm=rng.choice([None, 'rev', rng.randrange(1, 1000)]), args=rng.choice([0, 0, 1, 2, 3]))
        if rng.random() < 0.2:
            h.clear()
        if len(h.gens) > 1 and rng.random() < 0.3:
            h.run(rng.randrange(0, len(h.gens) - 1), perm=rng.randrange(1, 1000))
    return h


def witness_history() -> Hist:
    """the witness of F-LEL-LEAK: user templates for C (limit_empty_lines: 1 from the language configuration)"""
    sp = Space('nsw')
    a = sp.add('', 'A', 'uint8 x\n@sealed\n', [])
    b = sp.add('', 'B', 'uint8 y\n@sealed\n', [])
    scripts = {a: [['t', 'a\n\n']], b: [['t', '\nb']]}
    h = Hist('witness', sp, 'script')
    h.markers = False
    h.cfgs[1] = {'lang': 'c', 'templates': script_templates(sp, scripts, 'c', marker=False), 'scripts': scripts}
    g0 = h.new(1)            # whole namespace: A then B
    h.run(g0)
    g1 = h.new(1, [b])       # the subset {B}
    h.run(g1)
    return h


def fold_witness_history() -> Hist:
    """the witness of F-CPP-UNIQ-FOLD: C++, user template with a literal argument, two generator objects in one interpreter"""
    sp = Space('nsw')
    a = sp.add('', 'A', 'uint8 x\n@sealed\n', [])
    scripts = {a: [['t', 'X'], ['u', 'f'], ['t', ';'], ['u', 'f'], ['t', '\n']]}
    h = Hist('fold-witness', sp, 'probe')
    h.cfgs[1] = {'lang': 'cpp', 'templates': script_templates(sp, scripts, 'cpp', const_args=True), 'scripts': scripts}
    h.run(h.new(1))
    h.run(h.new(1))
    return h


def memo_witness_history() -> Hist:
    """the witness of F-PY-PICKLE-MEMO: Python target, built-in templates, closure of nsx.Top generated twice by one generator"""
    import random
    sp = builtin_space(random.Random(0), 0)
    h = Hist('memo-witness', sp, 'probe')
    h.cfgs[1] = {'lang': 'py', 'lang_opts': None}
    g = h.new(1, sp.closure(['nsx.Top.1.0']))
    h.run(g)
    h.run(g)
    return h


FID_DEP = 'F-DEPBUILDER-STALE'
FID_TPL = 'F-TPL-MODULE-STATE'


def tplstate_witness_history() -> Hist:
    """the witness of F-TPL-MODULE-STATE: C, user templates; Any.j2 imports (without context) a macro file that keeps a counter at its
    top level; whole namespace {A, B} and then, with a new generator, the subset {B}"""
    sp = Space('nsw')
    sp.add('', 'A', 'uint8 x\n@sealed\n', [])
    b = sp.add('', 'B', 'uint8 y\n@sealed\n', [])
    h = Hist('tplstate-witness', sp, 'probe')
    h.cfgs[1] = {'lang': 'c', 'scripts': {}, 'templates': {
        'Any.j2': "{% from 'm.j2' import bump %}{{ T.full_name }} n={{ bump() }}", 'Namespace.j2': '',
        'm.j2': "{% set st = namespace(n=0) %}{% macro bump() %}{% set st.n = st.n + 1 %}{{ st.n }}{% endmacro %}"}}
    h.run(h.new(1))
    h.run(h.new(1, [b]))
    return h



def depbuilder_witness_history() -> Hist:
    """the witness of F-DEPBUILDER-STALE: C, built-in templates; one LanguageContext object used for the namespace and then for
    its redefinition (Holder.part: PartA -> equally sized PartB); third generator: the redefinition with its own context"""
    import random
    sp = builtin_space(random.Random(0), 0)
    h = Hist('depbuilder-witness', sp, 'probe')
    h.cfgs[1] = {'lang': 'c', 'lang_opts': None}
    sub = sp.closure(['nsx.Holder.1.0']) + ['nsx.PartB.1.0']
    g0 = h.new(1, sub)
    h.run(g0)
    h.run(h.new(1, sub, variant='v2', lctx_of=g0))
    h.run(h.new(1, sub, variant='v2'))
    return h


def gen_builtin_histories(rng, lang: str, sp: Space, tier: str) -> typing.List[Hist]:
    opts = LANG_OPTS[lang]
    out = []
    h = Hist('builtin-%s-main' % lang, sp, 'builtin')
    h.hashseed = rng.randrange(0, 1000)
    for i, o in enumerate(opts[:2] if tier == 'quick' else opts):
        h.cfgs[i + 1] = {'lang': lang, 'lang_opts': o}
    g0 = h.new(1)
    h.run(g0, chunks=True)
    h.run(g0, perm=rng.randrange(1, 1000))                       # second run of the same generator object, other order
    # the SAME generator object called again with other per-call arguments (what update_nunavut_globals hands to the
    # templates), a dry run in between, and the first combination once more
    h.run(g0, args=1, chunks=True)
    h.run(g0, args=0, perm='rev')
    h.run(g0, dry=True)
    h.run(g0, args=2, chunks=True)
    if tier != 'quick':
        h.run(g0, args=3, chunks=True)
    h.run(g0, args=1, perm=rng.randrange(1, 1000))
    h.run(g0, args=0)
    sub = sp.closure(rng.sample(sp.order, 2))
    g1 = h.new(1, sub)
    h.run(g1, perm='rev')                                        # dependency-closed subset, same interpreter
    g2 = h.new(2)
    h.run(g2, perm=rng.randrange(1, 1000), chunks=True)          # another configuration in between
    g3 = h.new(1)
    h.run(g3, perm=rng.randrange(1, 1000))                       # new generator object after all that
    h.clear()
    h.run(g0, perm='rev')
    if len(h.cfgs) > 2:
        g4 = h.new(3)
        h.run(g4, chunks=True)
        h.run(g1)
    # the namespace WITHOUT two siblings nothing depends on (one from a nested namespace that keeps other types, one from the root):
    # no type file may change (namespace files -- py __init__, html namespace pages -- legitimately do; they are not compared)
    used = {d for ds in sp.deps.values() for d in ds}
    gone = [t for t in ('nsx.Solo.1.0', 'nsx.doc.AUrl.1.0', 'nsx.doc.DHyphU.1.0') if t not in used][:2]     # (a random extra type may refer to one)
    h.run(h.new(1, [t for t in sp.order if t not in gone]), perm=rng.randrange(1, 1000))
    # the REDEFINED namespace (same names/versions/sizes: changed dependency, field order, constant) generated by a new
    # generator of the same interpreter, then the original one again
    gv = h.new(1, variant='v2')
    h.run(gv, perm=rng.randrange(1, 1000), chunks=True)
    h.run(h.new(1), perm=rng.randrange(1, 1000))
    # every type rendered FIRST by a new generator object (new template environment) from its closure only: state that is
    # set up once per environment / by the first rendered file shows against the runs above where the type is not first
    firsts = list(sp.order) if (lang == 'c' or tier != 'quick') else rng.sample(sp.order, 4)
    for t in firsts:
        gt = h.new(1, sp.closure([t]))
        h.run(gt, perm={'first': t})
    out.append(h)
    # EARLIER RUNS WITH OTHER OPTION SETS in the same interpreter: other white-space control flags of the template environment,
    # another target language, another post-processor list, a user template directory, other language options -- each with its own
    # language context and generator -- and then the configurations under test; references: new interpreters
    other = {'c': 'py', 'cpp': 'c', 'py': 'cpp', 'html': 'c'}[lang]
    ao = Hist('builtin-%s-afteropts' % lang, sp, 'builtin')
    ao.hashseed = rng.randrange(0, 1000)
    ao.cfgs = dict(h.cfgs)
    ao.cfgs[5] = {'lang': lang, 'lang_opts': None, 'trim': True, 'lstrip': True}
    ao.cfgs[6] = {'lang': lang, 'lang_opts': None, 'trim': True, 'lstrip': False}
    ao.cfgs[7] = {'lang': other, 'lang_opts': None}
    ao.cfgs[8] = {'lang': lang, 'lang_opts': None, 'pps': [['limit', 3]] if lang in ('c', 'cpp') else [['trim'], ['limit', 2]]}
    ao.cfgs[9] = {'lang': lang, 'lang_opts': None,
                  'templates': {n + '.j2': '<' + n + '>{{ T.full_name }}\n' for n in ('Any', 'Namespace')}}
    # other CONFIGURATIONS of the target language (what a --configuration yaml sets): project-specific reserved identifiers that are
    # field / constant / type names of the namespace, other stropping prefix and suffix
    ao.cfgs[10] = {'lang': lang, 'lang_opts': None,
                   'lang_cfg': {'reserved_identifiers': ['a', 'b', 'x', 'v', 'f', 'part', 'tail', 'KONST', 'K', 'mid', 'leaf', 'Prim', 'Top']}}
    ao.cfgs[11] = {'lang': lang, 'lang_opts': None, 'lang_cfg': {'stropping_prefix': 'zq_', 'stropping_suffix': '_qz'}}
    for c, kw in ((10, {}), (5, {}), (7, {}), (8, {}), (11, {}), (9, {}), (2, {}), (1, {'perm': rng.randrange(1, 1000)}), (5, {'perm': 'rev'}),
                  (6, {}), (10, {'perm': 'rev'}), (1, {})):
        ao.run(ao.new(c), chunks=True, **kw)
    h.cfgs.update({k: v for k, v in ao.cfgs.items() if k not in h.cfgs})
    out.append(ao)
    # ONE post-processor list object handed to generators for DIFFERENT languages (and re-used for the first one again): each
    # generator must behave as if it had got its own copy (signature: the explicit list as written by the caller)
    sl = Hist('builtin-%s-sharedpps' % lang, sp, 'builtin')
    sl.hashseed = rng.randrange(0, 1000)
    sl.cfgs = dict(ao.cfgs)
    for cid, lg in ((12, lang), (13, other), (14, {'c': 'cpp', 'cpp': 'py', 'py': 'html', 'html': 'py'}[lang])):
        sl.cfgs[cid] = {'lang': lg, 'lang_opts': None, 'pps': [], 'pps_shared': 'L'}
    for cid in (12, 13, 14, 12):
        sl.run(sl.new(cid), chunks=True)
    out.append(sl)
    for cid in (12, 13):          # references: a new interpreter, a list of its own
        fr = Hist('builtin-%s-fresh-sharedpps%d' % (lang, cid), sp, 'builtin')
        fr.hashseed = rng.randrange(0, 1000)
        fr.cfgs = {cid: {k: v for k, v in sl.cfgs[cid].items() if k != 'pps_shared'}}
        fr.run(fr.new(cid), chunks=True)
        out.append(fr)
    # the bundled engine's process-wide Lexer cache: environments that differ from the generator's in exactly ONE lexer-relevant
    # setting are used first (by "somebody else" in the interpreter: plain bundled Environments), then the generator
    fe = Hist('builtin-%s-foreignenv' % lang, sp, 'builtin')
    fe.hashseed = rng.randrange(0, 1000)
    fe.cfgs = ao.cfgs
    fe.foreign_env(keep_trailing_newline=False)
    fe.foreign_env(newline_sequence='\r\n')
    fe.run(fe.new(1), chunks=True)
    fe.foreign_env(keep_trailing_newline=False, trim_blocks=True, lstrip_blocks=True)
    fe.run(fe.new(5), perm='rev', chunks=True)
    out.append(fe)
    f5 = Hist('builtin-%s-fresh-cfg5' % lang, sp, 'builtin')
    f5.hashseed = rng.randrange(0, 1000)
    f5.cfgs = ao.cfgs
    f5.run(f5.new(5), chunks=True)
    out.append(f5)
    # references for the per-call arguments: a new interpreter, a new generator, called once with those arguments
    for a in ([1, 2] if tier == 'quick' else [1, 2, 3]):
        fa = Hist('builtin-%s-fresh-args%d' % (lang, a), sp, 'builtin')
        fa.hashseed = rng.randrange(0, 1000)
        fa.cfgs = h.cfgs
        fa.run(fa.new(1), args=a, chunks=True)
        out.append(fa)
    # reference for the redefined namespace: a new interpreter that has never seen the first variant
    fv = Hist('builtin-%s-fresh-v2' % lang, sp, 'builtin')
    fv.hashseed = rng.randrange(0, 1000)
    fv.cfgs = h.cfgs
    fv.run(fv.new(1, variant='v2'), chunks=True)
    out.append(fv)
    # new interpreters: a subset with one type first; the other configuration first
    n_fresh = 2 if tier == 'quick' else 5
    for j in range(n_fresh):
        t = rng.choice(sp.order)
        f = Hist('builtin-%s-fresh%d' % (lang, j), sp, 'builtin')
        f.hashseed = rng.randrange(0, 1000)
        f.cfgs = h.cfgs
        cfg = 1 if j % 2 == 0 else 2
        g = f.new(cfg, sp.closure([t]))
        f.run(g, perm={'first': t}, chunks=True)
        out.append(f)
    # a new interpreter generating the whole namespace in the opposite order (order-dependent leaks show on every type)
    r = Hist('builtin-%s-reversed' % lang, sp, 'builtin')
    r.hashseed = rng.randrange(0, 1000)
    r.cfgs = h.cfgs
    r.run(r.new(1), perm='rev', chunks=True)
    out.append(r)
    return out


# ---------------------------------------------------------------------------------------------------------------
# evaluation of one history: implementation vs. model vs. oracle
# ---------------------------------------------------------------------------------------------------------------
def line_up(h: Hist, out: typing.List[dict]) -> typing.Tuple[typing.List[dict], typing.List[tuple], typing.List[str]]:
    """implementation entries in order, model ops, errors"""
    entries, ops, errs = [], [], []
    for st, r in zip(h.steps, out):
        if 'err' in r:
            errs.append('%s: %s' % (st['op'], r['err']))
            continue
        if st['op'] == 'new':
            gid = int(st['gen'][1:])
            g = h.gens[gid]
            g['pps'] = r['pps']
            if any(p[0] == 'other' for p in r['pps']):
                errs.append('unexpected post-processor %r' % (r['pps'],))
            g['tset'] = [tuple(x) for x in r.get('tset', [])]
            ops.append(('new', g['cfg'], r['pps'], [g['prefix'] + k for k in g['subset']], g['tset']))
        elif st['op'] == 'run':
            gid = st['gid']
            g = h.gens[gid]
            ops.append(('run', gid, [g['prefix'] + k for k in r['order']], st.get('a', 0), int(bool(st.get('dry')))))
            if st.get('dry'):
                if r.get('files') or r.get('dry_touched'):
                    errs.append('run: generate_all(is_dryrun=True) created or rewrote %s' % (r.get('dry_touched') or sorted(r.get('files')))[:3])
                continue
            for k in r['order']:
                entries.append({'gid': gid, 'cfg': g['cfg'], 'ecfg': g['cfg'] * 16 + st.get('a', 0), 'args': st.get('a', 0), 'key': k, 'mkey': g['prefix'] + k, 'text': mask_time(r['files'][k]), 'pps': g['pps'],
                                'chunks': (r.get('chunks') or {}).get(k), 'tmpl': (r.get('tmpl') or {}).get(k),
                                'cls': (r.get('cls') or {}).get(k), 'tset': g['tset']})
        elif st['op'] == 'foreign_env':
            pass                      # not an operation of the generator process model: must simply not matter
        else:
            ops.append(('clear',))
    return entries, ops, errs


def failed_lemma(res) -> str:
    """name of the lemma at the error position when the failing file is not Properties/C10.v"""
    try:
        m = re.search(r'File "\./?([^"]+)", line (\d+)', res.error_text or res.make_log)
        if not m:
            return ''
        lines = open(os.path.join(core.COQ, m.group(1)), encoding='utf-8').read().splitlines()[:int(m.group(2))]
        names = [x for l in lines for x in re.findall(r'^\s*(?:Theorem|Lemma|Example)\s+(\w+)', l)]
        return names[-1] if names else ''
    except Exception:  # noqa
        return ''


def main(chk: core.Check, replay: typing.Optional[str] = None) -> int:
    quick = chk.tier == 'quick'
    rng = chk.rng
    # entries of known_findings.d/C10.json that the merged known_findings.json does not carry yet
    frag = os.path.join(core.VERIF, 'known_findings.d', 'C10.json')
    if os.path.exists(frag):
        have = {e['id'] for e in chk.known}
        for e in json.load(open(frag))['findings']:
            if e['id'] not in have and PROP in e['properties']:
                chk.known.append(e)

    # 1. proof obligations against the regenerated translation
    res = core.coq_check('C10', ['uni', 'linepp', 'uniq', 'sites', 'lookup'])
    chk.proof_coverage(res, [
        'scanner tools/translators/gen_c10.py (generator sites): AST patterns for lru_cache/cache, cached_property, instance memos, '
        'lazy fields, class singletons, mutable class/module containers, global; bundled jinja2/markupsafe not scanned; '
        'Gen/GenStateSites.v expected_sites is a reviewed snapshot',
        'T2 translators: tools/translators/pyfun_tr.py (LimitEmptyLines, TrimTrailingWhitespace), tools/translators/gen_c10.py '
        '(UniqueNameGenerator.__init__/reset/get_instance/__call__; position of UniqueNameGenerator.reset() in _generate_code)',
        'hand model Gen/GenState.v of _generate_code / generate_all / process state, tied by the correspondence runs below',
        'signature of `render` (template sees process state only through unique names and memoised pure methods): assumption, '
        'tested by byte comparison across histories',
        'extraction: Require Extraction ExtrOcamlBasic only; OCaml 4.13.1; ocaml/c10_driver.ml',
    ])
    broken: typing.List[str] = []
    err = derive_uniq_tables()
    if err:
        broken.append(err)
    if not res.ok:
        broken.append('proof obligation: %s %s' % (res.failed_file or 'translator', res.failed_theorem or failed_lemma(res)))
    resets_fact = True
    for m in res.translator_msgs:
        if m.startswith('uniq:') and 'generate_code_resets_uniq=False' in m:
            resets_fact = False

    ok_model, exe, log = core.build_extracted('c10', 'ExtractC10.v', 'c10_driver.ml')
    if not ok_model:
        broken.append('model does not build/extract: ' + log[-300:])

    # 2. histories
    if replay:
        doc = json.load(open(replay))
        if 'seed' in doc:
            import random
            rng = random.Random(doc['seed'])
    n_script = 40 if quick else 400
    hists: typing.List[Hist] = [witness_history(), fold_witness_history(), memo_witness_history(), depbuilder_witness_history(),
                               tplstate_witness_history()]
    hists += [gen_script_history(rng, i) for i in range(n_script)]
    sp = builtin_space(rng, 3 if quick else 10)
    for lang in LANGS:
        hists += gen_builtin_histories(rng, lang, sp, chk.tier)
    import time as _t
    t_h0 = _t.time()
    results = run_histories([h.job() for h in hists])
    t_h1 = _t.time()

    # 3. probe the known finding on the implementation (witness history = hists[0])
    w_entries, w_ops, w_errs = line_up(hists[0], results[0]['out'])
    kf_live = False
    if not w_errs and len(w_entries) == 3:
        kf_live = w_entries[1]['text'] != w_entries[2]['text']
    elif not w_errs:
        broken.append('F-LEL-LEAK probe did not produce three files')
    # status known + reproduces: quirk model, KNOWN-FINDING line, its instances are not violations.  status fixed (or not
    # listed): nothing is printed and nothing is suppressed -- if the leak is back every instance is a violation.
    lel_suppress = kf_live and chk.is_known(FID)
    if lel_suppress:
        chk.report_known(FID, 'B generated after A: %r, B generated alone: %r' % (w_entries[1]['text'], w_entries[2]['text']))
    elif kf_live:
        broken.append('F-LEL-LEAK (recorded as fixed) reproduces again: LimitEmptyLines counter leaks from file to file')
    lel_shared = kf_live           # the model follows the probed behaviour so that only real deviations break the correspondence
    for m in res.translator_msgs:
        if m.startswith('uniq:') and ('generate_code_resets_line_pps=%s' % (not kf_live)) not in m:
            broken.append('translated fact generate_code_resets_line_pps contradicts the probe (leak %s)' % ('present' if kf_live else 'absent'))
    f_entries, _, f_errs = line_up(hists[1], results[1]['out'])
    fold_live = (not f_errs) and len(f_entries) == 2 and f_entries[0]['text'] != f_entries[1]['text']
    if fold_live and chk.is_known(FID_FOLD):
        chk.report_known(FID_FOLD, 'first generator: %r, second generator in the same interpreter: %r' % (f_entries[0]['text'], f_entries[1]['text']))
    elif fold_live:
        broken.append('unlisted deviation: C++ to_template_unique_name evaluated at template compile time')

    m_entries, _, m_errs = line_up(hists[2], results[2]['out'])
    memo_live = False
    if not m_errs and len(m_entries) % 2 == 0:
        half = len(m_entries) // 2
        diff = [a['key'] for a, b in zip(m_entries[:half], m_entries[half:]) if a['text'] != b['text']]
        same_masked = all(mask_blob(a['text']) == mask_blob(b['text']) for a, b in zip(m_entries[:half], m_entries[half:]))
        memo_live = bool(diff) and same_masked
        if memo_live and chk.is_known(FID_MEMO):
            chk.report_known(FID_MEMO, 'second generate_all of the same generator changed the _MODEL_ blob of %s' % ', '.join(diff))
        elif memo_live:
            broken.append('unlisted deviation: Python _MODEL_ pickle depends on what was generated before')

    d_entries, _, d_errs = line_up(hists[3], results[3]['out'])
    dep_live = False
    if not d_errs and len(d_entries) == 9:
        shared = {e['key']: e['text'] for e in d_entries[3:6]}
        own = {e['key']: e['text'] for e in d_entries[6:9]}
        dep_live = shared['nsx.Holder.1.0'] != own['nsx.Holder.1.0']
        if dep_live and chk.is_known(FID_DEP):
            chk.report_known(FID_DEP, 'Holder_1_0.h of the redefined namespace generated with the LanguageContext of the first one still '
                                      'includes %s' % ('PartA_1_0.h' if 'PartA_1_0.h' in shared['nsx.Holder.1.0'] else '?'))
        elif dep_live:
            broken.append('unlisted deviation: dependency builder memo returns the builder of an equal-looking type of an earlier namespace')
    else:
        broken.append('F-DEPBUILDER-STALE probe did not run: %s' % (d_errs[:1] or len(d_entries)))

    def canon(lang_: str, text: str) -> str:
        # while F-PY-PICKLE-MEMO reproduces the length (hence the number of lines) of the _MODEL_ blob varies with the history
        return mask_blob(text) if (lang_ == 'py' and memo_live) else text

    t_entries, _, t_errs = line_up(hists[4], results[4]['out'])
    tpl_live = False
    if not t_errs and len(t_entries) == 3:
        tpl_live = t_entries[1]['text'] != t_entries[2]['text']
        if tpl_live and chk.is_known(FID_TPL):
            chk.report_known(FID_TPL, 'B generated after A: %r, B generated alone: %r' % (t_entries[1]['text'], t_entries[2]['text']))
        elif tpl_live:
            broken.append('unlisted deviation: state at the top level of an imported template file survives from file to file')
    else:
        broken.append('F-TPL-MODULE-STATE probe did not run: %s' % (t_errs[:1] or len(t_entries)))

    # 4. compare
    stats = {'histories': len(hists), 'script_histories': 0, 'builtin_histories': 0, 'files': 0, 'files_by_lang': {},
             'model_vs_impl_compared': 0, 'oracle_vs_impl_compared': 0, 'known_finding_instances': 0,
             'unclean_boundaries_in_model': 0, 'second_or_later_file_of_a_process': 0, 'files_using_unique_names': 0,
             'harness_errors': 0, 'files_by_class': {}, 'template_of_an_ancestor_class': 0, 'subset_generators': 0, 'permuted_runs': 0}
    distinct = set()
    bad_oracle: typing.List[dict] = []
    bad_model: typing.List[dict] = []
    lined = []
    requests = []
    builtin_chunks: typing.Dict[typing.Tuple[str, int, str], list] = {}
    # recorded chunk streams of the built-in templates: prefer the ones recorded in a new interpreter
    for h, r in zip(hists, results):
        entries, ops, errs = line_up(h, r['out'])
        lined.append((entries, ops, errs))
        if h.kind == 'builtin':
            fresh = 'fresh' in h.name or 'reversed' in h.name
            for e in entries:
                if e['chunks'] is not None:
                    k = (cfg_sig(h.cfgs[e['cfg']]), e['args'], e['mkey'])
                    if fresh or k not in builtin_chunks:
                        builtin_chunks[k] = e['chunks']
    r_forest = {id(h): r.get('forest', {}) for h, r in zip(hists, results)}
    for f in r_forest.values():
        if any(len(b) > 1 for b in f.values()):
            broken.append('pydsdl class graph is not a forest any more: hypothesis of C10_file_indep_partial / C10_template_selection_indep')
            break
    for h, (entries, ops, errs) in zip(hists, lined):
        lang_of_cfg = {c: v['lang'] for c, v in h.cfgs.items()}
        tables = {}
        used_args = sorted({e['args'] for e in entries} | {0})
        for c, v in h.cfgs.items():
          for a in used_args:
            for t in h.mkeys():
                if h.kind == 'script':
                    tables[(c * 16 + a, t)] = concretise_args(v['scripts'][t], a, bool(v.get('trim')), bool(v.get('lstrip')))
                else:
                    ch = builtin_chunks.get((cfg_sig(v), a, t))
                    if ch is not None:
                        tables[(c * 16 + a, t)] = [['t', skel(canon(v['lang'], ''.join(ch)))]]
        cls_of = {e['mkey']: e['cls'] for e in entries if e.get('cls')}
        requests.append(model_request(h.all_deps(), tables, lang_of_cfg, ops, resets_fact, lel_shared, r_forest[id(h)], cls_of,
                                      h.markers))
    t_m0 = _t.time()
    models = run_model(exe, requests) if ok_model else [None] * len(hists)
    chk.notes.append('phases: coq+build %.0fs, implementation histories %.0fs, extracted model %.0fs' % (
        t_h0 - chk.t0, t_h1 - t_h0, _t.time() - t_m0))

    # reference bytes for built-in templates: the file of a type generated FIRST by a new interpreter from its closure only
    alone_builtin: typing.Dict[typing.Tuple[str, int, str], typing.Tuple[str, str]] = {}
    for h, (entries, ops, errs) in zip(hists, lined):
        if h.kind == 'builtin' and 'fresh' in h.name and entries and not errs:
            e = entries[0]
            alone_builtin.setdefault((cfg_sig(h.cfgs[e['cfg']]), e['args'], e['mkey']), (e['text'], h.name + ' (first file of a new interpreter)'))
    for h, (entries, ops, errs) in zip(hists, lined):       # then: any file of a new interpreter that generated one namespace once
        if h.kind == 'builtin' and ('fresh' in h.name or 'reversed' in h.name) and not errs:
            for e in entries:
                alone_builtin.setdefault((cfg_sig(h.cfgs[e['cfg']]), e['args'], e['mkey']), (e['text'], h.name + ' (new interpreter)'))
    for h, (entries, ops, errs), m in zip(hists, lined, models):
        if h.kind == 'probe':
            continue
        stats['script_histories' if h.kind == 'script' else 'builtin_histories'] += 1
        stats['subset_generators'] += sum(1 for o in ops if o[0] == 'new' and len(o[3]) < len(h.sp.order))
        stats['permuted_runs'] += sum(1 for s in h.steps if s['op'] == 'run' and s.get('perm') is not None)
        if errs:
            stats['harness_errors'] += 1
            # a generator that cannot be constructed (front end rejects the random namespace) says nothing about C10;
            # a generate_all() that raises produces no file at all: a failing input of the property's oracle
            if any(x.startswith('new:') and 'pydsdl' in x for x in errs) or any(x.startswith('new:') and 'Error: \'' in x and '.dsdl' in x for x in errs):
                stats['rejected_inputs'] = stats.get('rejected_inputs', 0) + 1
                continue
            (bad_oracle if any(x.startswith('run:') for x in errs) else bad_model).append(
                {'history': h.name, 'what': 'generate_all raised, or a dry run wrote files', 'errors': errs[:3], 'job': h.job()})
            continue
        if m is not None and len(m['entries']) != len(entries):
            bad_model.append({'history': h.name, 'what': 'model and implementation wrote a different number of files',
                              'model': len(m['entries']), 'implementation': len(entries), 'job': h.job()})
            m = None
        prev_by_gen: typing.Dict[int, typing.List[str]] = {}
        for i, e in enumerate(entries):
            lang = h.cfgs[e['cfg']]['lang']
            stats['files'] += 1
            stats['files_by_lang'][lang] = stats['files_by_lang'].get(lang, 0) + 1
            stats['second_or_later_file_of_a_process'] += i > 0
            me = m['entries'][i] if m is not None else None
            if me is not None and not me['clean']:
                stats['unclean_boundaries_in_model'] += 1
            trigger = bool(prev_by_gen.get(e['gid']))
            if not trigger and clean_boundary_possible([e['text']], e['pps']):
                prev_by_gen[e['gid']] = [True]          # from now on a later file of this generator may meet a non-zero counter
            # --- the property oracle
            if h.kind == 'script':
                cc = h.cfgs[e['cfg']]
                script = concretise_args(cc['scripts'][e['key']], e['args'], bool(cc.get('trim')), bool(cc.get('lstrip')))
                sel = oracle_select(e['cls'], e['tset'])
                expect = alone_oracle(script_text(script, lang, '<%s>' % (sel or '')), e['pps'])
                uses_uniq = any(it[0] == 'u' for it in script)
            else:
                k = (cfg_sig(h.cfgs[e['cfg']]), e['args'], e['mkey'])
                if k not in alone_builtin:
                    alone_builtin[k] = (e['text'], h.name)
                expect = alone_builtin[k][0]
                uses_uniq = False
            stats['files_using_unique_names'] += uses_uniq
            # --- template selection: function of (class, listing) only
            sel = oracle_select(e['cls'], e['tset'])
            stats['files_by_class'][e['cls']] = stats['files_by_class'].get(e['cls'], 0) + 1
            if sel is not None and e['cls'] + '.j2' != os.path.basename(sel):
                stats['template_of_an_ancestor_class'] += 1
            if e['tmpl'] != (os.path.basename(sel) if sel else None):
                bad_oracle.append({'history': h.name, 'file_index': i, 'type': e['key'], 'lang': lang, 'class': e['cls'],
                                   'listing': sorted(x[0] for x in e['tset']), 'expected_template': sel, 'got_template': e['tmpl'],
                                   'what': 'template selected for the type is not the nearest one of its class chain', 'job': h.job()})
            if me is not None and (os.path.basename(me['tmpl']) if me['tmpl'] else None) != e['tmpl']:
                bad_model.append({'history': h.name, 'file_index': i, 'type': e['key'], 'model_template': me['tmpl'],
                                  'implementation_template': e['tmpl'], 'job': h.job()})
            stats['oracle_vs_impl_compared'] += 1
            if i > 0 and (h.kind == 'builtin' or uses_uniq or trigger or len(h.cfgs) > 1):
                distinct.add((h.name, i))
            if e['text'] != expect and memo_live and lang == 'py' and h.kind == 'builtin' and mask_blob(e['text']) == mask_blob(expect):
                stats['known_finding_instances'] += 1
                stats['pickle_memo_instances'] = stats.get('pickle_memo_instances', 0) + 1
            elif e['text'] != expect:
                if lel_suppress and trigger and me is not None and me['text'] == (e['text'] if h.kind == 'script' else skel(canon(lang, e['text']))) and not me['clean']:
                    stats['known_finding_instances'] += 1
                else:
                    bad_oracle.append({'history': h.name, 'file_index': i, 'type': e['key'], 'lang': lang, 'expected': expect,
                                       'got': e['text'], 'reference': alone_builtin.get((cfg_sig(h.cfgs[e['cfg']]), e['args'], e['mkey']), ('', 'alone oracle'))[1]
                                       if h.kind == 'builtin' else 'own script only', 'job': h.job()})
            # --- model vs. implementation
            if me is not None:
                stats['model_vs_impl_compared'] += 1
                if me['key'] != e['mkey'] or me['text'] != (e['text'] if h.kind == 'script' else skel(canon(lang, e['text']))):
                    bad_model.append({'history': h.name, 'file_index': i, 'type': e['key'], 'model': me['text'], 'implementation': e['text'],
                                      'job': h.job()})

    chk.coverage.update({
        'evaluations': stats['files'], 'distinct_nontrivial': len(distinct),
        'rule': 'one evaluation = one generated type file compared (bytes) with the property oracle and with the extracted model; '
                'non-trivial = distinct (history, file) that is not the first file of its interpreter and either comes from '
                'the built-in templates, or calls to_template_unique_name, or follows a file ending in an empty line under a LimitEmptyLines processor, or shares the '
                'interpreter with a generator of another configuration. Script histories: 2..5 random structure/union types with '
                'random dependencies (structs, unions, services, delimited structs/unions), user template SETS named after random pydsdl '
                'classes (Any/SerializableType/CompositeType/StructureType/UnionType/ServiceType/DelimitedType, each with a marker), '
                'templates written from random scripts (text with blank lines at start/end, uneven '
                'unique-name calls, T.full_name), 1..3 generators (random language c/cpp/py/html, explicit or default '
                'post-processors, whole namespace or random dependency-closed subset), 1..2 generate_all per generator in '
                'default/reversed/shuffled order, cache clearing. Built-in histories: per language one interpreter with whole '
                'namespace, second run, subset, other language options, new generator, cleared caches, plus new interpreters '
                'generating a closure with the type first.',
        'samples': [{'history': h.name, 'steps': [{k: v for k, v in s.items() if k != 'templates'} for s in h.steps][:6]}
                    for h in hists[:4] + hists[-3:]],
        'traces_validated_against_impl': stats['model_vs_impl_compared'],
        'distribution': stats,
    })
    chk.notes.append('F-LEL-LEAK probe: %s; model instantiated with lel_shared=%s, resets=%s' % (
        'reproduces' if kf_live else 'does not reproduce', lel_shared, resets_fact))

    if bad_oracle:
        b = bad_oracle[0]
        chk.violation({'what': 'the file of a type differs from the file the same type gets on its own (same options, templates, '
                               'post-processors)', 'failing': {k: v for k, v in b.items()}, 'n_failing': len(bad_oracle),
                       'broken': broken, 'seed': chk.seed}, found_input=True)
    elif bad_model:
        b = bad_model[0]
        chk.violation({'what': 'model and implementation disagree but no input violating the property was found',
                       'correspondence': 'Gen/GenState.v exec_table vs DSDLCodeGenerator.generate_all', 'first': b,
                       'n_disagreements': len(bad_model), 'broken': broken, 'seed': chk.seed}, found_input=False)
    elif broken:
        chk.violation({'broken': broken, 'coq_error': res.error_text[-2000:], 'translators': res.translator_msgs,
                       'what': 'proof obligation or model build no longer checks; searched %d files of %d histories on the '
                               'implementation' % (stats['files'], len(hists)), 'seed': chk.seed}, found_input=False)
    return chk.finish()
