"""C04: generated C/C++ codecs are memory-safe, total and free of prior-state influence."""
from __future__ import annotations

import concurrent.futures
import json
import os
import shutil
import time
import typing

from tools.lib import core
from tools.harness.codec import campaign, dsdlgen, model as modelmod, valgen
from tools.harness import c04_probe

PROP = 'C04'

MANIFEST = dict(
    technique='Coq proof (nested induction on DSDL types) about a code-shaped walker instrumented with every buffer / object-array access '
              'and with the destination object\'s prior contents, plus state-machine models of the C++ vector and the C++14 union '
              'emulation; template structure tied by a fail-closed scanner; sanitizer campaign on the real generated code',
    text='Theorems in coq/theories/Properties/C04.v (see design_notes/C04.md): des_in_bounds / ser_in_bounds (every access inside the '
         'buffer and the object arrays for all types, buffers, sizes and object contents), too_small_no_write, only documented errors, '
         'des_prior_indep (the observable equals Codec/Walker.v\'s prior-free value semantics), vla_replaced_not_appended, '
         'variant_exactly_one_live.  Tie: gen_c04.py reads the check-before-access order, clear() before reserve/push_back and the '
         'destroy_current loop from the templates; the C01/C02 drivers built with clang -fsanitize=address,undefined (+LSan per request '
         'for C++: c++14 built-in variant, c++17 std::variant, c++17-pmr) on exactly-sized heap buffers, every truncation 0..len+2, '
         'invalid counts/tags, destination objects fresh / 0xA5-poisoned / result of a previous decode; capacity-override and '
         'pointer-formation probes on hand-written drivers.',
    note='partial: language-level undefined behaviour other than index errors (signed overflow, aliasing, alignment of aligned_storage, '
         'object lifetime), allocator behaviour and leaks are not expressible in the model; they are observed only through the '
         'sanitizer builds on the sampled inputs.  cetl++14-17 cannot be built offline.',
    design='§5 C04', category='proof')

TRUSTED = [
    'extraction: Require Extraction ExtrOcamlBasic only; OCaml 4.13.1; ocaml/codec_driver.ml (the C01/C02 specification oracle)',
    'pydsdl 1.25 front end: the type JSON (tools/harness/codec/astdump.py) is what nunavut itself is handed',
    'tools/translators/gen_c04.py: regular-expression scanner of the Jinja templates (fail closed on any unrecognised shape)',
    'Codec/WalkerSafe.v / WalkerSafeCpp.v are hand models of the templates: tied by the scanned facts and statement sequences, by '
    'WalkerSafeThm.des_obs_eq_walker to Codec/Walker.v (itself compared with the generated code on every C01/C02 run) and by the sanitizer campaign',
    'C++14 union constructor: the one destructor call on never-constructed storage sees the all-zero bytes of value-initialisation; that this is '
    'a no-op for std::vector / generated composites is a property of the standard library in use (libstdc++), observed by the ctor probe under ASan/UBSan',
    'Prims/CPrimsThm.v (C14): nunavutCopyBits / GetBits / SetUxx perform no out-of-range access inside the footprint the log entries state',
    'clang 14 AddressSanitizer / UndefinedBehaviorSanitizer / LeakSanitizer runtimes; harness drivers tools/harness/codec/target_c.py, target_cpp.py, tools/harness/c04_probe.py',
]

OVR = 'F-C-OVR-CAP'
PTR = 'F-C-PTR-PAST-END'
CPTR = 'F-CPP-PTR-PAST-END'
OVA = 'F-C-OVR-ASSERT'
HDR = 'F-CPP-HDR-WRAP32'

# fixed types that make the C++ containers / the union emulation do real work (heap-owning alternatives, nested vectors)
C04_FILES = {
    'nsa/c04/Inner.1.0.dsdl': 'uint8[<=3] v\n@sealed\n',
    'nsa/c04/U.1.0.dsdl': '@union\nuint8 a\nnsa.c04.Inner.1.0 v\nuint16[<=4] w\n@sealed\n',
    'nsa/c04/UV.1.0.dsdl': '@union\nnsa.c04.Inner.1.0[<=2] vs\nuint8 a\nnsa.c04.U.1.0 u\n@sealed\n',
    'nsa/c04/Arr.1.0.dsdl': 'nsa.c04.U.1.0[<=3] us\nbool[<=11] bs\nuint8[<=6] bytes\nuint13[<=3] odd\n@sealed\n',
    'nsa/c04/Shift.1.0.dsdl': 'bool x\nuint8[<=4] a\nuint16[<=3] h\nnsa.c04.Inner.1.0 tail\n@sealed\n',
    'nsa/c04/Dl.1.0.dsdl': 'uint8[<=5] xs\nnsa.c04.U.1.0 u\n@extent 256\n',
    # stores that END EXACTLY AT THE END OF THE BUFFER when serialized at full size into `size` bytes: trailing void fields of 1..64 bits after
    # aligned / unaligned prefixes, ending on / off a byte boundary, delimited, nested composites ending in voids, arrays of such
    'nsa/c04/Vt1.1.0.dsdl': 'uint8 a\nvoid16\n@sealed\n',
    'nsa/c04/Vt2.1.0.dsdl': 'uint4 a\nvoid12\n@sealed\n',
    'nsa/c04/Vt3.1.0.dsdl': 'bool a\nvoid7\n@sealed\n',
    'nsa/c04/Vt4.1.0.dsdl': 'uint3 a\nvoid64\n@sealed\n',
    'nsa/c04/Vt5.1.0.dsdl': 'uint8 a\nvoid64\n@sealed\n',
    'nsa/c04/Vt6.1.0.dsdl': 'uint5 a\nvoid3\nvoid8\n@sealed\n',
    'nsa/c04/Vt7.1.0.dsdl': 'uint7 a\nvoid1\nvoid32\n@sealed\n',
    'nsa/c04/Vt8.1.0.dsdl': 'uint16 a\nvoid33\n@sealed\n',
    'nsa/c04/Vt9.1.0.dsdl': 'uint6 a\nvoid17\nvoid1\n@sealed\n',
    'nsa/c04/VtD.1.0.dsdl': 'uint8 a\nvoid24\n@extent 64\n',
    'nsa/c04/VtN.1.0.dsdl': 'uint8 h\nnsa.c04.Vt2.1.0 m\nbool b\nnsa.c04.Vt1.1.0 t\n@sealed\n',
    'nsa/c04/VtA.1.0.dsdl': 'nsa.c04.Vt2.1.0[3] xs\nnsa.c04.Vt1.1.0[<=2] ys\n@sealed\n',
    'nsa/c04/VtE.1.0.dsdl': 'uint8 h\nnsa.c04.VtD.1.0 d\n@sealed\n',
    'nsa/c04/VtU.1.0.dsdl': '@union\nnsa.c04.Vt1.1.0 a\nnsa.c04.Vt4.1.0 b\nuint8 c\n@sealed\n',
    'nsa/c04/VtV.1.0.dsdl': 'uint8[<=2] v\nvoid16\n@sealed\n',
    # large enough to wrap a 16-bit cursor / capacity (8 KiB = 65536 bits): lengths around 8190..8194 are exercised on every run
    'nsa/c04/Wide.1.0.dsdl': 'uint8[<=9000] data\nuint16 tail\n@sealed\n',
    'nsa/c04/Big.1.0.dsdl': 'uint64 big\nnsa.c04.Dl.1.0 d\nnsa.c04.Inner.1.0 i\nnsa.c04.Dl.1.0[<=2] ds\n@sealed\n',
}

SIZES = {'quick': dict(n_types=8, per_type=10, n_values=6, ser_per_type=8, max_types=38),
         'thorough': dict(n_types=20, per_type=60, n_values=16, ser_per_type=30, max_types=60)}


def matrix(tier: str) -> typing.List[typing.Tuple[str, dict]]:
    m = [('target_c', {'target_endianness': 'little', 'sanitize': True}),
         ('target_c', {'target_endianness': 'any', 'sanitize': True}),
         ('target_cpp', {'std': 'c++14', 'sanitize': True, 'leak_check_each': True, 'cxx': 'clang++', 'opt': '-O0', 'target_endianness': 'little'}),   # -O0: UBSan alignment checks on typed loads survive
         ('target_cpp', {'std': 'c++17', 'sanitize': True, 'leak_check_each': True, 'cxx': 'clang++'}),
         ('target_cpp', {'std': 'c++17-pmr', 'sanitize': True, 'leak_check_each': True, 'cxx': 'clang++', 'target_endianness': 'big'})]
    if tier != 'quick':
        m += [('target_c', {'target_endianness': 'big', 'sanitize': True, 'enable_serialization_asserts': True}),
              ('target_c', {'target_endianness': 'little', 'sanitize': True, 'cc': 'gcc'}),
              ('target_cpp', {'std': 'c++14', 'sanitize': True, 'leak_check_each': True, 'cxx': 'g++', 'enable_serialization_asserts': True})]
    return m


def adopt_own_findings(chk: core.Check) -> None:
    p = os.path.join(core.VERIF, 'known_findings.d', 'C04.json')
    if os.path.exists(p):
        have = {e['id'] for e in chk.known}
        for e in json.load(open(p, encoding='utf-8'))['findings']:
            if e['id'] not in have and chk.prop in e['properties']:
                chk.known.append(e)


# ------------------------------------------------------------------------------------------------
# cases
# ------------------------------------------------------------------------------------------------

def des_cases(rng, prep, tids, sz) -> typing.List[campaign.Case]:
    m = prep.model
    vals = {tid: [v for v, _ in valgen.gen_values(rng, prep.db, tid, sz['n_values'])] for tid in tids}
    reqs, idx = [], []
    for tid in tids:
        for v in vals[tid]:
            reqs.append(m.ser_req(tid, v))
            idx.append((tid, v))
    encs: typing.Dict[str, typing.List[bytes]] = {tid: [] for tid in tids}
    pairs_of: typing.Dict[str, list] = {tid: [] for tid in tids}
    for tid in tids:       # variable-length byte arrays with a capacity above 8 KiB: lengths around the 16-bit wrap point
        c = prep.db.comp(tid)
        for fi, f in enumerate(c['fields']):
            t = f['type']
            if c['kind'] == 'struct' and t['k'] == 'varr' and t['cap'] >= 8200 and t['elem']['k'] == 'uint' and t['elem'].get('w') == 8:
                for n in (8189, 8190, 8191, 8192, 8193, t['cap']):
                    v = valgen.default_comp(prep.db, c)
                    v[fi] = [(i * 7 + n) & 0xFF for i in range(n)]
                    reqs.append(m.ser_req(tid, v))
                    idx.append((tid, v))
    for (tid, v), r in zip(idx, m.run(reqs)):
        t = r.split()
        if t[:1] == ['ok']:
            b = bytes.fromhex(t[2] if t[2] != '-' else '')
            pairs_of[tid].append((v, b))
            if b not in encs[tid]:
                encs[tid].append(b)
    out: typing.List[campaign.Case] = []
    for tid in tids:
        ext = (prep.db.comp(tid)['extent_bits'] + 7) // 8
        data: typing.List[typing.Tuple[bytes, typing.List[str]]] = []
        for b, tags in valgen.gen_bytes(rng, prep.db, tid, sz['per_type'], pairs_of[tid]):
            data.append((b, tags))
        # every truncation (and two garbage bytes beyond) of the longest encodings, capped by extent + 2
        longest = sorted(encs[tid], key=len, reverse=True)[:2]
        for e in longest:
            full = e + b'\xff\xa5'
            top = min(len(full), ext + 2)
            if top <= 96:
                sizes = list(range(0, top + 1))
            else:       # long encodings: the ends, and the neighbourhood of every power-of-two bit count (cursor-width wrap points)
                sizes = sorted(set(list(range(0, 17)) + list(range(top - 8, top + 1)) +
                                   [k for p in (256, 1024, 4096, 8192) for k in range(p - 2, p + 3) if 0 <= k <= top]))
            for n in sizes:
                data.append((full[:n], ['every_truncation']))
        # delimiter headers that announce 1..4 bytes more than follow (and exactly what follows) -- at every header of two encodings
        for v, e in pairs_of[tid][:3]:
            try:
                lay = valgen.layout(prep.db, tid, v)
            except Exception:  # noqa: BLE001
                lay = []
            for (o, w, k) in lay:
                if k != 'header' or o % 8 or o // 8 + 4 > len(e):
                    continue
                follow = len(e) - (o // 8 + 4)
                for extra in (0, 1, 2, 3, 4, 5):
                    m = bytearray(e)
                    m[o // 8:o // 8 + 4] = (follow + extra).to_bytes(4, 'little')
                    data.append((bytes(m), ['header_plus_%d_of_remaining' % extra]))
        seen = set()
        for b, tags in data:
            if b in seen:
                continue
            seen.add(b)
            others = [e for e in encs[tid] if e != b] or [b'']
            prev = rng.choice(others)
            for prior in ('fresh', 'poison', 'prev:' + (prev.hex() or '-')):
                out.append(campaign.Case('des', tid, data=b, prior=prior, tags=list(tags) + ['prior_' + prior.split(':')[0]]))
    return out


def ser_cases(rng, prep, tids, sz) -> typing.List[campaign.Case]:
    out = campaign.gen_ser_cases(rng, prep, tids, sz['ser_per_type'])
    extra = []
    for c in out:
        if 'cap_max' in c.tags and ('array_len_over_cap' in c.tags or 'invalid_union_tag' in c.tags):
            maxb = c.cap
            for cap, tg in ((maxb - 1, 'cap_max_minus_1'), (0, 'cap_0')):
                if cap >= 0 and cap != maxb:
                    extra.append(campaign.Case('ser', c.tid, value=c.value, cap=cap, fill='f', tags=[t for t in c.tags if t != 'cap_max'] + [tg]))
    # every top-level variable-length array once with count = capacity + 1 (the length check must fire before any element is touched)
    for tid in tids:
        c = prep.db.comp(tid)
        if c['kind'] != 'struct':
            continue
        for fi, f in enumerate(c['fields']):
            t = f['type']
            if t['k'] == 'varr' and t['cap'] < 300:
                v = valgen.default_comp(prep.db, c)
                v[fi] = [valgen.default_value(prep.db, t['elem']) for _ in range(t['cap'] + 1)]
                maxb = (c['meta']['max_bits'] + 7) // 8
                extra.append(campaign.Case('ser', tid, value=v, cap=maxb, fill='z', tags=['array_len_over_cap', 'cap_max', 'over_cap_each_field']))
    return out + extra


# ------------------------------------------------------------------------------------------------
# probes (hand-written drivers)
# ------------------------------------------------------------------------------------------------

def run_probes(chk: core.Check, work: str, failures: typing.List[dict], stats: dict) -> None:
    exes, log = c04_probe.build(core.REPO, os.path.join(work, 'probe'))
    if not exes:
        failures.append({'kind': 'probe-build-failure', 'log': log[-3000:]})
        return
    obs = {}

    def call(k, args):
        r = c04_probe.call(exes[k], args)
        obs['%s %s' % (k, ' '.join(args))] = {'out': r['out'], 'report': r['report'], 'rc': r['rc']}
        return r

    # --- well-behaved uses of the override and controls: must be clean and correct in every state of the tree
    clean = [('ovr', ['des_b', '02010203040500'], {'rc': '0', 'count': '2'}),
             ('std', ['des_b', '05010203040500'], {'rc': '0', 'count': '5', 'size': '6'}),
             ('plain', ['des_b', '05010203040500'], {'rc': '0', 'count': '5', 'size': '6'}),
             ('plain', ['des_b', '09010203040500'], {'rc': '-10'}),
             ('std', ['des_b', '09010203040500'], {'rc': '-10'}),
             ('ovr', ['ser_b', '2', '3'], {'rc': '0', 'size': '3'}),
             ('ovr', ['ser_s', '2', '4'], {'rc': '0', 'size': '4'}),
             ('std', ['ser_s', '2', '0'], {'rc': '-3'}),
             ('plain', ['ser_s', '2', '0'], {'rc': '-3'}),
             ('plain', ['ser_s', '5', '6'], {'rc': '-10'}),
             ('plain', ['ser_b', '9', '8'], {'rc': '-10'})]
    for k, args, want in clean:
        r = call(k, args)
        stats['probe_runs'] = stats.get('probe_runs', 0) + 1
        if r['report'] or r['rc'] != 0 or any(r['kv'].get(a) != b for a, b in want.items()):
            failures.append({'kind': 'probe', 'what': 'control run of the capacity-override probe is not clean/correct', 'build': k, 'args': args,
                             'expected': want, 'got': r, 'files': c04_probe.FILES})
    # --- F-C-OVR-CAP: counts between the reduced and the DSDL capacity; too-small buffer with the check compiled out.
    # conformant behaviour = a documented error (bad length / too small), no sanitizer report
    witnesses = [('ovr', ['des_b', '05010203040500'], ('-10',)), ('ovr', ['ser_b', '5', '8'], ('-10',)),
                 ('ovr', ['ser_s', '2', '0'], ('-3',)), ('ovr', ['ser_s', '2', '3'], ('-3',))]
    repro = []
    for k, args, ok_rcs in witnesses:
        r = call(k, args)
        stats['probe_runs'] = stats.get('probe_runs', 0) + 1
        if r['report'] and ('out of bounds' in r['report'] or 'buffer-overflow' in r['report']):
            repro.append('%s -> %s' % (' '.join(args), r['report'][:90]))
        elif r['report'] or r['rc'] != 0 or r['kv'].get('rc') not in ok_rcs:
            failures.append({'kind': 'probe', 'what': 'capacity-override probe: neither the known overflow nor a documented error', 'build': k,
                             'args': args, 'got': r, 'files': c04_probe.FILES})
    if repro:
        if chk.is_known(OVR):
            chk.report_known(OVR, repro[0])
            stats['known_finding_instances'] = stats.get('known_finding_instances', 0) + len(repro)
        else:
            failures.append({'kind': 'probe', 'what': 'memory-unsafe access under the documented capacity override (model: '
                             'c04_des_in_bounds_override_refuted / c04_ser_in_bounds_override_refuted / c04_too_small_writes_without_check_refuted)',
                             'reproduced': repro, 'files': c04_probe.FILES, 'found_input': True})
    # --- F-C-OVR-ASSERT: both options + reduced capacities: valid calls must succeed, too small buffers must be refused, nothing may abort
    aborted = []
    for args, want in ((['ser_b', '2', '3'], '0'), (['ser_s', '2', '4'], '0'), (['ser_b', '2', '8'], '0'), (['ser_b', '2', '2'], '-3'),
                       (['ser_b', '5', '8'], '-10'), (['des_b', '02010203040500'], '0')):
        r = call('ovr_as', args)
        stats['probe_runs'] = stats.get('probe_runs', 0) + 1
        if 'Assertion' in r['report']:
            aborted.append('%s -> %s' % (' '.join(args), r['report'][-110:]))
        elif r['report'] or r['rc'] != 0 or r['kv'].get('rc') != want:
            failures.append({'kind': 'probe', 'what': 'override + asserts + reduced capacity: wrong outcome', 'args': args, 'expected_rc': want, 'got': r,
                             'files': c04_probe.FILES})
    if aborted:
        if chk.is_known(OVA):
            chk.report_known(OVA, aborted[0])
            stats['known_finding_instances'] = stats.get('known_finding_instances', 0) + len(aborted)
        else:
            failures.append({'kind': 'probe', 'what': 'a valid serialization aborts in NUNAVUT_ASSERT with the capacity override and assertions enabled '
                             '(model: c04_asserts_option / c04_override_assert_refuted)', 'reproduced': aborted, 'files': c04_probe.FILES, 'found_input': True})
    # --- F-C-PTR-PAST-END: &buffer[offset_bits / 8U] beyond one-past-the-end
    past = []
    for cmd, hx in (('ptr', '0102'), ('ptr', '-'), ('ptrd', '0102'), ('ptr', '010203040506070809'), ('ptrd', '0102030405060708020000000a0b')):
        r = call('plain', [cmd, hx])
        stats['probe_runs'] = stats.get('probe_runs', 0) + 1
        if r['report'] or r['rc'] != 0 or r['kv'].get('rc') != '0':
            failures.append({'kind': 'probe', 'what': 'pointer probe crashed / sanitizer report', 'args': [cmd, hx], 'got': r, 'files': c04_probe.FILES})
            continue
        cap, off = int(r['kv']['cap']), int(r['kv']['ptr_off'])
        long_enough = len(hx) > 4
        if off > cap:
            past.append('%s %s: &buffer[%d] formed for a %d-byte buffer' % (cmd, hx, off, cap))
        if long_enough and off > cap:
            failures.append({'kind': 'probe', 'what': 'pointer past the end although the buffer covers the offset', 'args': [cmd, hx], 'got': r})
    if past:
        if chk.is_known(PTR):
            chk.report_known(PTR, past[0])
            stats['known_finding_instances'] = stats.get('known_finding_instances', 0) + len(past)
        else:
            failures.append({'kind': 'probe', 'what': 'generated C deserializer forms a pointer beyond one past the end of the buffer '
                             '(ISO C 6.5.6p8 undefined behaviour; model: c04_des_ptr_in_bounds_refuted)', 'reproduced': past,
                             'files': c04_probe.FILES, 'found_input': True})
    # --- C++: any_bitspan::subspan() pointer; VariantType() on storage that held garbage (alternative 0 with a destructor)
    exe, logc = c04_probe.build_cpp(core.REPO, os.path.join(work, 'probe_cpp'))
    if not exe:
        failures.append({'kind': 'probe-build-failure', 'log': logc[-3000:]})
    else:
        r = c04_probe.call(exe, ['ctor'])
        obs['cpp ctor'] = {'out': r['out'], 'report': r['report'], 'rc': r['rc']}
        stats['probe_runs'] = stats.get('probe_runs', 0) + 1
        if r['report'] or r['rc'] != 0 or r['kv'].get('U0_index') != '0' or r['kv'].get('U2_index') != '0':
            failures.append({'kind': 'probe', 'what': 'C++14 VariantType(): constructing / copying / assigning a union whose alternative 0 has a '
                             'destructor, on storage that held garbage, is not clean (model: c04_variant_ctor says the only destructor call on '
                             'dead storage sees all-zero bytes)', 'got': r, 'files': c04_probe.CPP_FILES, 'found_input': True})
        pastc = []
        for n, skip in ((2, 64), (0, 64), (9, 64), (12, 64)):
            r = c04_probe.call(exe, ['ptr', str(n), str(skip)])
            obs['cpp ptr %d %d' % (n, skip)] = {'out': r['out'], 'report': r['report'], 'rc': r['rc']}
            stats['probe_runs'] = stats.get('probe_runs', 0) + 1
            if r['report'] or r['rc'] != 0 or r['kv'].get('des_ok') != '1':
                failures.append({'kind': 'probe', 'what': 'C++ pointer probe crashed / sanitizer report', 'args': [n, skip], 'got': r, 'files': c04_probe.CPP_FILES})
                continue
            off = int(r['kv']['ptr_off'])
            if off > n:
                pastc.append('const_bitspan of %d bytes, offset %d bits: subspan() points at data + %d' % (n, skip, off))
                if n * 8 >= skip:
                    failures.append({'kind': 'probe', 'what': 'C++ subspan pointer past the end although the buffer covers the offset', 'got': r})
        if pastc:
            if chk.is_known(CPTR):
                chk.report_known(CPTR, pastc[0])
                stats['known_finding_instances'] = stats.get('known_finding_instances', 0) + len(pastc)
            else:
                failures.append({'kind': 'probe', 'what': 'any_bitspan::subspan() forms a pointer beyond one past the end of the buffer '
                                 '(model: c04_cpp_des_ptr_in_bounds no longer holds; History/C04_history.cpp_des_ptr_in_bounds_refuted)', 'reproduced': pastc, 'files': c04_probe.CPP_FILES, 'found_input': True})
    stats['probe_observations'] = obs


# ------------------------------------------------------------------------------------------------
# main
# ------------------------------------------------------------------------------------------------

def run_replay(chk: core.Check, path: str) -> int:
    doc = json.load(open(path, encoding='utf-8'))
    if 'case' in doc and 'files' in doc and doc.get('target'):
        return campaign.run_replay(chk, doc['case'].get('op', 'des'), path)
    res = core.coq_check(PROP, ['c04', 'c01', 'codec_tpl'])
    print('proof obligations: %s %s' % ('ok' if res.ok else 'BROKEN', res.error_text[-500:]))
    failures: typing.List[dict] = []
    stats: dict = {}
    work = core.scratch('c04replay-')
    run_probes(chk, work, failures, stats)
    for k, v in stats.get('probe_observations', {}).items():
        print('probe %-50s %s %s' % (k, v['out'], v['report']))
    chk.coverage.update({'evaluations': stats.get('probe_runs', 0), 'distinct_nontrivial': stats.get('probe_runs', 0), 'samples': [],
                         'traces_validated_against_impl': stats.get('probe_runs', 0), 'distribution': {'replay': path}, 'obligations': 1,
                         'discharged': 1 if res.ok else 0})
    if not res.ok:
        chk.violation({'broken': ['proof obligation'], 'coq_error': res.error_text[-2000:]}, found_input=False)
    for f in failures:
        chk.violation(f, found_input=bool(f.get('found_input')))
        break
    return chk.finish()


def main(chk: core.Check, replay: typing.Optional[str] = None) -> int:
    t_start = time.time()
    adopt_own_findings(chk)
    if replay:
        return run_replay(chk, replay)
    sz = SIZES[chk.tier]

    # 1. proof obligations (translator gen_c04 + make + Print Assumptions)
    res = core.coq_check(PROP, ['c04', 'c01', 'codec_tpl'])
    chk.proof_coverage(res, TRUSTED)
    broken: typing.List[str] = []
    if not res.ok:
        broken.append('proof obligation: %s %s' % (res.failed_file or 'translator', res.failed_theorem or ''))

    failures: typing.List[dict] = []
    hdr_mul = any("'cpp_hdr_check_nomul': False" in m for m in res.translator_msgs)
    if hdr_mul:
        h, size_bits, W = 0x20000001, 16, 32
        accepted = not (((8 * h) % (1 << W)) > size_bits)          # the scanned multiplication form in W-bit arithmetic
        if accepted and chk.is_known(HDR):      # finding is `fixed`: is_known is False, so a reproduction is a VIOLATION below
            chk.report_known(HDR, 'scanned test `(h * 8U) > size()`: header 0x20000001 before 2 bytes is accepted in 32-bit arithmetic')
        elif accepted:
            failures.append({'kind': 'probe', 'what': 'C++ delimiter header test wraps on a 32-bit size_t (model: c04_cpp_hdr_mul_w32_refuted)',
                             'reproduced': ['header 0x20000001, 2 bytes follow, W = 32: accepted'], 'found_input': True})
    stats: typing.Dict[str, typing.Any] = {'builds': [], 'responses': {}, 'strata': {}, 'crashes': 0, 'prior_groups_compared': 0,
                                           'rejected_by_target': 0, 'wall': {}}
    distinct = set()
    samples: typing.List[dict] = []
    evaluations = validated = 0

    ok_model, exe, log = modelmod.build()
    if not ok_model:
        broken.append('specification oracle does not build/extract: ' + log[-400:])

    rounds = 1 if chk.tier == 'quick' else 3
    work = core.scratch('c04-')
    with concurrent.futures.ThreadPoolExecutor(max_workers=1) as bg:
        probe_job = bg.submit(run_probes, chk, work, failures, stats)
        for rnd in range(rounds):
            if not ok_model:
                break
            t0 = time.time()
            rwork = os.path.join(work, 'r%d' % rnd)
            spec = dsdlgen.generate(chk.rng, n_types=sz['n_types'])
            spec['files'].update(campaign.load_corpus()['files'])
            spec['files'].update(C04_FILES)
            prep = campaign.prepare(spec, rwork, exe)
            db = prep.db
            fixed = [t for t in db.ids() if t.startswith('nsa.c04.') or t.startswith('nsa.reg.')]
            rest = [t for t in db.ids() if t not in fixed]
            chk.rng.shuffle(rest)
            tids = (fixed + rest)[:sz['max_types']]
            stats['types'] = stats.get('types', 0) + len(tids)
            cases = campaign.corpus_cases(prep, 'des') + des_cases(chk.rng, prep, tids, sz) + campaign.corpus_cases(prep, 'ser') + ser_cases(chk.rng, prep, tids, sz)
            for c in cases:
                c.req = campaign.make_request(prep.model, c)
            for c, r in zip(cases, prep.model.run([c.req for c in cases])):
                c.expected = r
                k = ' '.join(r.split()[:2]) if r.startswith('err') else r.split()[0]
                stats['responses'][k] = stats['responses'].get(k, 0) + 1
                for tg in c.tags:
                    stats['strata'][tg] = stats['strata'].get(tg, 0) + 1
            stats['cases'] = stats.get('cases', 0) + len(cases)
            stats['wall']['prepare_r%d' % rnd] = round(time.time() - t0, 1)
            t0 = time.time()
            ovr_tgt = c04_probe.OvrCTarget({'target_endianness': 'little', 'sanitize': True, 'enable_serialization_asserts': True})
            with concurrent.futures.ThreadPoolExecutor(max_workers=1) as ovx:
                ovr_job = ovx.submit(ovr_tgt.build, prep.ns_dirs, prep.db, os.path.join(rwork, 'build-c-override-on'), core.REPO)
                campaign.build_targets(prep, matrix(chk.tier), core.REPO, max_workers=5)
                try:
                    ok_o, log_o = ovr_job.result()
                except Exception as ex:  # noqa: BLE001
                    ok_o, log_o = False, 'runner raised %r' % (ex,)
            if ok_o:
                prep.targets.append(('c[override_option_on,little,sanitize]', ovr_tgt))
            else:
                prep.build_failures.append(('c[override_option_on,little,sanitize]', log_o[-3000:]))
            stats['wall']['build_r%d' % rnd] = round(time.time() - t0, 1)
            for lab, logtxt in prep.build_failures:
                failures.append({'kind': 'build-failure', 'target': lab, 'log': logtxt, 'files': spec['files']})
            reqs = [c.req for c in cases]
            t0 = time.time()

            def run_target(item):
                lab, tgt = item
                try:
                    return lab, tgt, tgt.run(reqs, timeout=300.0 if chk.tier == 'quick' else 1200.0)
                except Exception as ex:  # noqa: BLE001
                    return lab, tgt, ['crash runner raised %r' % (ex,)] * len(reqs)

            with concurrent.futures.ThreadPoolExecutor(max_workers=6) as ex:
                results = list(ex.map(run_target, prep.targets))
            stats['wall']['run_r%d' % rnd] = round(time.time() - t0, 1)
            masks: typing.Dict[int, str] = {}

            def mask_for(i: int) -> typing.Optional[str]:
                if i not in masks:
                    r = prep.model.run([prep.model.tok_req('msk', cases[i].tid, cases[i].value)])[0].split()
                    masks[i] = r[1] if r[:1] == ['ok'] and len(r) > 1 else ''
                return masks[i]

            for lab, tgt, out in results:
                stats['builds'].append(lab)
                nbad = 0
                groups: typing.Dict[typing.Tuple[str, bytes], typing.List[typing.Tuple[str, str]]] = {}
                for i, (c, got) in enumerate(zip(cases, out)):
                    evaluations += 1
                    if got.startswith('err rejected'):
                        stats['rejected_by_target'] += 1
                        continue
                    validated += 1
                    crashed = got.startswith('crash')
                    if crashed:
                        stats['crashes'] += 1
                    if c.op == 'des':
                        groups.setdefault((c.tid, c.data), []).append((c.prior, got))
                    same = (not crashed) and (got == c.expected or campaign.compare(prep, c, c.expected, got, mask_for(i) if c.op == 'ser' else None))
                    if same:
                        if not c.expected.startswith('ok') or len(c.tags) > 1:
                            distinct.add((c.tid, c.req))
                        continue
                    nbad += 1
                    if nbad == 1:
                        failures.append({'kind': 'correspondence', 'target': tgt.name, 'label': lab, 'options': tgt.options, 'case': c.to_json(),
                                         'expected': c.expected, 'got': got, 'files': spec['files'],
                                         'what': ('sanitizer report / crash / hang in generated %s code' % tgt.name) if crashed else
                                                 ('generated %s code returns a different outcome than the specification (prior state: %s)' % (tgt.name, c.prior)),
                                         'crash_log': (getattr(tgt, 'crash_logs', None) or [''])[-1][-1500:] if crashed else '',
                                         '_prep': prep, '_case': c, '_tgt': tgt})
                if nbad:
                    failures[-1]['n_failing_on_this_target'] = nbad
                # the outcome of a deserialization must not depend on the prior state of the destination
                for (tid, data), lst in groups.items():
                    stats['prior_groups_compared'] += 1
                    base = lst[0][1]
                    for prior, got in lst[1:]:
                        if got != base and not modelmod.same_des(db, tid, base, got):
                            failures.append({'kind': 'prior-dependence', 'target': tgt.name, 'label': lab, 'options': tgt.options,
                                             'case': {'op': 'des', 'tid': tid, 'hex': data.hex() or '-', 'prior': prior},
                                             'expected': base, 'got': got, 'files': spec['files'],
                                             'what': 'deserialization outcome depends on the prior contents of the destination (%s vs %s)' % (lst[0][0], prior)})
                            break
                    else:
                        continue
                    break
            for c in cases[:600:37]:
                if len(samples) < 40:
                    samples.append({'request': c.req[:300], 'expected': c.expected[:200], 'tags': c.tags})
            if failures:
                break
            shutil.rmtree(rwork, ignore_errors=True)
        probe_job.result()

    chk.coverage.update({
        'evaluations': evaluations + stats.get('probe_runs', 0),
        'distinct_nontrivial': len(distinct),
        'rule': 'one evaluation = one ser/des request executed by a sanitizer build of the real generated code (exactly-sized heap buffers) '
                'whose response was compared with the specification oracle, or one probe run; non-trivial = distinct (type, request) pairs '
                'whose expected answer is an error or which carry a stratum tag (truncation / invalid count / invalid tag / prior state ...)',
        'samples': samples,
        'traces_validated_against_impl': validated,
        'distribution': stats,
    })
    stats['wall_campaign_s'] = round(time.time() - t_start, 1)
    chk.notes.append('targets exercised: %s' % sorted(set(stats['builds'])))

    reported = False
    for f in failures:
        if f['kind'] == 'correspondence':
            try:
                small = campaign.shrink_failure(f, budget=6)
            except Exception:  # noqa: BLE001
                small = {}
            rep = {k: v for k, v in f.items() if not k.startswith('_')}
            rep.update(small)
            rep['broken'] = broken
            rep.pop('options', None) if f.get('label', '').startswith('c[override_option_on') else None
            chk.violation(rep, found_input=True)
            reported = True
            break
    if not reported:
        for f in failures:
            rep = {k: v for k, v in f.items() if not k.startswith('_')}
            rep['broken'] = broken
            san = isinstance(f.get('got'), dict) and bool(f['got'].get('report'))
            chk.violation(rep, found_input=bool(f.get('found_input')) or f['kind'] == 'prior-dependence' or (f['kind'] == 'probe' and san))
            reported = True
            break
    if not reported and broken:
        chk.violation({'broken': broken, 'coq_error': res.error_text[-2000:], 'translators': res.translator_msgs,
                       'what': 'proof obligation / template scanner no longer checks; the sanitizer campaign executed %d requests on the '
                               'generated code and found no failing input' % validated}, found_input=False)
    return chk.finish()
