"""C17: headers generated with different language options cannot be compiled together."""
from __future__ import annotations

import json
import os
import re
import shutil
import typing
import zlib

from tools.lib import core
from tools.translators import gen as _gen  # noqa: F401  (must be imported first: it discovers gen_c17 and registers its generator)
from tools.translators import gen_c17

PROP = 'C17'
FINDING = 'F-OPTGUARD-KEYSET'
FINDING_PATH = 'F-OPTGUARD-MSG-PATH'      # fixed (b33cf26): a reproducing witness is a VIOLATION
FINDING_TRI = 'F-OPTGUARD-TRIGRAPH'        # fixed (f2f61d1): a reproducing witness is a VIOLATION
# directory names that are hostile to a C string literal; all must build (b33cf26, f2f61d1); [1:] contain trigraphs
HOSTILE_DIRS = ['we"ird\\dir', 'a??/u', 'x??/"y', "q??'r??)s"]
# additional type shapes (the core four are always compiled; `always` ones too; the rest rotates by seed in the quick tier)
EXTRA_ALWAYS = {
    'demo/Empty.1.0.dsdl': '@sealed\n',
    'demo/430.Svc.1.0.dsdl': '@sealed\n---\nuint8 r\n@sealed\n',                      # fixed-port service, empty request
}
EXTRA_ROTATING = [
    {'demo/Consts.1.0.dsdl': 'uint8 X = 1\nint16 Y = -2\n@sealed\n'},                  # constants only
    {'demo/Old.1.0.dsdl': '@deprecated\nuint8 a\n@sealed\n'},                          # deprecated
    {'demo/7001.Msg.1.0.dsdl': 'uint16 v\n@extent 16\n'},                               # fixed-port message
    {'demo/Arr.1.0.dsdl': 'C.1.0[2] xs\nB.1.0[<=2] ys\n@sealed\n'},                    # arrays of composites
    {'demo/sub/deep/N.1.0.dsdl': 'demo.B.1.0 b\nuint8[<=2] t\n@extent 600\n'},         # nested namespace
    {'other/X.1.0.dsdl': 'uint8 q\n@sealed\n', 'demo/Cross.1.0.dsdl': 'other.X.1.0 x\n@sealed\n'},   # dependency on a second root
]

MANIFEST = dict(
    technique='Coq proof (list induction over option sets on top of a finite injectivity fact computed by vm_compute over the regenerated '
              'documented value domain) about a model of the per-option static_assert guard; the value filter is T2-translated, the '
              'loop structure of the four templates is extracted by a fail-closed scanner; model vs. real nnvg + gcc/g++ correspondence '
              'on translation units mixing the support header of one option set with the type headers of another',
    text='Theorems in coq/theories/Properties/C17.v. MAIN C17_main_c/_cpp: for ALL option sets o_s (support header) and o_t (type headers) '
         'over the documented values and documented key sets, no assumption relating the two key lists: the diagnostics ds of every type '
         'header exist in the model, and either ds <> [] (build rejected by the key-set / per-option "different language options" '
         'assertions) or o_s ~ o_t on every relevant option (lookup equal for every option not classified OIrrelevant), and ds = [] <-> same '
         'option set; C17_equiv_is_same_set; C17_options_classified_and_fingerprinted (every option regenerated from properties.yaml is '
         'classified in OptGuard.v option_classes -- a new option fails closed until classified -- and rendered by both loops); '
         'C17_guard_live_in_every_type_header (the guard statements are not inside a comment or a preprocessor conditional other than the '
         'include guard, come after the #include loop, and the template of every concrete pydsdl composite class -- struct, union, '
         'delimited, service -- reaches the guard of base.j2); C17_keyset_facts; C17_guard_rejects_iff_differ_c/_cpp and '
         'C17_diagnostics_exact_c/_cpp (per-option assertions, which fire exactly for the options whose values differ); '
         'C17_sav_injective_on_documented_domain; C17_keys_equal; C17_symbols_distinct; C17_accept_implies_subset_partial; '
         'C17_sav_not_injective_outside_domain (CRC-32 collisions on free text: the bound of the claim); C17_messages_literal_safe; '
         'C17_crc32_facts; C17_filter_facts; C17_omit_support. Theorems about the pre-fix templates are in History/C17_history.v (not '
         'counted). Tie: Gen_OptGuard.v is regenerated from /repo on every run (filter source by T2; the four guard templates by a Jinja- '
         'and C-aware fail-closed scanner; extends/include closure of the entry templates; properties.yaml, docs/*.rst option values, CLI '
         'choices, ConstructorConvention, names through the real filters) and the proofs re-checked; correspondence with real nnvg + '
         'gcc/g++: numbers in the generated #define/constexpr/static_assert lines of every header (struct, delimited, union, service) vs '
         'the model; one translation unit per ordered pair (all single-option differences from two bases in both orders, transpositions, '
         'random multi-option differences, key-set differences, an identical pair for every documented value form) compared on exit '
         'status, failing assertions per type header, mismatch message; CRC-32 model vs zlib, translated filter vs the real one.',
    note='Trusted: Coq kernel; T2 mini-translator and template scanner in tools/translators/gen_c17.py (the scanner accepts exactly one '
         'guard loop per template and fails closed otherwise); the modelling assumption that a rendered symbol is determined by (name '
         'expression, key) -- backed by C17_symbols_distinct over the really rendered names and by the compile runs; "documented values" = '
         'values occurring for the key in properties.yaml (options and std shorthand groups of c and cpp), CLI choices, '
         'ConstructorConvention, both booleans; the effective option set of a run is read from the `Language Options` comment of the '
         'generated headers. Not covered: the cetl flavour is generated and its numbers compared, but not compiled (CETL submodule '
         'empty); integer-valued options (none documented; C++ would narrow them to uint32_t); clang.',
    design='§5 C17')

DSDL = {
    'demo/A.1.0.dsdl': 'uint8 a\nfloat32 f\nuint8[<=4] v\n@sealed\n',
    'demo/B.1.0.dsdl': 'A.1.0 x\nbool y\nint13[2] z\n@extent 256\n',
    'demo/C.1.0.dsdl': '@union\nuint16 p\nA.1.0 q\nfloat64[<=2] r\n@sealed\n',
    'demo/D.1.0.dsdl': 'uint8 cmd\nC.1.0 arg\n@sealed\n---\nB.1.0 result\nuint8[<=3] tail\n@extent 512\n',   # service
}

STD_RANK = {'c++14': 14, 'c++17': 17, 'c++20': 20}


# ---------------------------------------------------------------------------------------------
# option sets
# ---------------------------------------------------------------------------------------------
def valid(lang: str, o: dict) -> bool:
    if lang == 'cpp':
        if o.get('ctor_convention') != 'default' and not o.get('allocator_type'):
            return False
        if not o.get('variable_array_type_template'):
            return False
    return True


def needs_cetl(o: typing.Iterable) -> bool:
    return any(isinstance(v, str) and 'cetl' in v for v in o)


class Sets:
    def __init__(self, facts: dict, rng):
        self.facts = facts
        self.rng = rng
        self.sets: typing.List[dict] = []
        self.by_key: typing.Dict[str, str] = {}

    def add(self, lang: str, intended: dict, cli: typing.Optional[list] = None, overrides: typing.Optional[dict] = None,
            omit: bool = False, kind: str = '') -> str:
        key = json.dumps([lang, cli or [], overrides or {}, omit], sort_keys=True)
        if key in self.by_key:
            return self.by_key[key]
        sid = '%s%03d' % (lang, len(self.sets))
        self.sets.append({'id': sid, 'lang': lang, 'cli': cli or [], 'overrides': overrides or None, 'omit': omit, 'intended': intended, 'kind': kind})
        self.by_key[key] = sid
        return sid

    def via(self, lang: str, changes: dict) -> typing.Tuple[list, dict]:
        """express option changes through CLI flags where one exists (randomly), otherwise through a YAML file"""
        cli, ov = [], {}
        for k, v in changes.items():
            use_cli = self.rng.random() < 0.5
            if k == 'target_endianness' and use_cli:
                cli += ['--target-endianness', v]
            elif k in ('omit_float_serialization_support', 'enable_serialization_asserts', 'enable_override_variable_array_capacity') and v is True and use_cli:
                cli += ['--' + k.replace('_', '-')]
            elif k == 'std' and use_cli and v in self.facts['std_choices'][lang] and v not in self.facts['groups'][lang]:
                cli += ['--language-standard', v]
            else:
                ov[k] = v
        return cli, ov


def build_plan(facts: dict, rng, tier: str):
    S = Sets(facts, rng)
    pairs: typing.List[dict] = []
    n_random = 6 if tier == 'quick' else 120
    covered: typing.Set[tuple] = set()
    for lang in ('c', 'cpp'):
        defaults = dict(facts['options'][lang])
        dom = facts['domain'][lang]
        bases = [('B', dict(defaults), [], {})]
        if lang == 'cpp':
            for gname, g in facts['groups'][lang].items():
                eff = dict(defaults)
                eff.update(g)
                if needs_cetl(eff.values()):
                    continue
                # the same option set spelled out explicitly (a shorthand group would override single changes)
                bases.append(('P:' + gname, eff, [], {k: v for k, v in eff.items() if defaults.get(k) != v}))
        base_ids = []
        for bname, beff, bcli, bov in bases:
            bid = S.add(lang, beff, bcli, bov, kind='base ' + bname)
            base_ids.append(bid)
            pairs.append({'sup': bid, 'typ': bid, 'kind': 'identical-base', 'must_build': True})
            for k, vals in dom:
                if tier == 'quick' and bname != 'B' and k in beff and defaults.get(k) == beff[k] and k != 'ctor_convention':
                    continue   # quick: from a secondary base only the options that base changes (the others are covered from B)
                for v in vals:
                    if k in beff and beff[k] == v and type(beff[k]) is type(v):
                        continue
                    cand = dict(beff)
                    cand[k] = v
                    if not valid(lang, cand):
                        continue
                    if k not in beff:   # an option that exists only when asked for (C: std through --language-standard)
                        sid = S.add(lang, cand, bcli + ['--language-standard', v], bov, kind='extra-key %s' % k)
                        kind = 'key-set'
                    else:
                        cli, ov = S.via(lang, {k: v})
                        ov2 = dict(bov)
                        ov2.update(ov)
                        sid = S.add(lang, cand, bcli + cli, ov2, kind='single %s' % k)
                        kind = 'single'
                    pairs.append({'sup': bid, 'typ': sid, 'kind': kind})
                    pairs.append({'sup': sid, 'typ': bid, 'kind': kind})
                    # every documented value form must build against itself (quick: once per value, thorough: from every base)
                    if tier != 'quick' or (lang, k, repr(v)) not in covered:
                        covered.add((lang, k, repr(v)))
                        pairs.append({'sup': sid, 'typ': sid, 'kind': 'identical'})
        # shorthand spelled through the CLI must equal the explicit spelling
        if lang == 'cpp':
            for gname, g in facts['groups'][lang].items():
                eff = dict(defaults)
                eff.update(g)
                sid = S.add(lang, eff, ['--language-standard', gname], {}, kind='shorthand ' + gname)
                if not needs_cetl(eff.values()):
                    for (bname, beff, _c, _o), bid in zip(bases, base_ids):
                        pairs.append({'sup': sid, 'typ': bid, 'kind': 'shorthand-vs-' + bname})
                        pairs.append({'sup': bid, 'typ': sid, 'kind': 'shorthand-vs-' + bname})
                else:
                    pairs.append({'sup': sid, 'typ': base_ids[0], 'kind': 'cetl-generate-only'})
        # an option that exists in one configuration only (user-defined; documented as allowed in docs/templates.rst)
        bid0, beff0 = base_ids[0], bases[0][1]
        ucand = dict(beff0)
        ucand['verif_user_option'] = 'x'
        uid = S.add(lang, ucand, [], {'verif_user_option': 'x'}, kind='extra-key verif_user_option')
        for a, b in ((bid0, uid), (uid, bid0), (uid, uid)):
            pairs.append({'sup': a, 'typ': b, 'kind': 'key-set' if a != b else 'identical'})
        # transpositions: two options exchange their values (any commutative aggregation of the fingerprints would cancel)
        trans = []
        domd = dict(dom)
        keys_b = [k for k in beff0 if k in domd]
        for i, k1 in enumerate(keys_b):
            for k2 in keys_b[i + 1:]:
                common = [v for v in domd[k1] if any(type(v) is type(w) and v == w for w in domd[k2])]
                for ai, a in enumerate(common):
                    for b in common[ai + 1:]:
                        x, y = dict(beff0), dict(beff0)
                        x[k1], x[k2], y[k1], y[k2] = a, b, b, a
                        if valid(lang, x) and valid(lang, y) and not needs_cetl(list(x.values()) + list(y.values())):
                            trans.append((k1, k2, a, b, x, y))
        if tier == 'quick' and len(trans) > 4:
            trans = rng.sample(trans, 4)
        for k1, k2, a, b, x, y in trans:
            xid = S.add(lang, x, [], {k: v for k, v in x.items() if beff0.get(k) != v}, kind='transposition %s/%s' % (k1, k2))
            yid = S.add(lang, y, [], {k: v for k, v in y.items() if beff0.get(k) != v}, kind='transposition %s/%s' % (k1, k2))
            pairs.append({'sup': xid, 'typ': yid, 'kind': 'transposition'})
            pairs.append({'sup': yid, 'typ': xid, 'kind': 'transposition'})
            pairs.append({'sup': xid, 'typ': xid, 'kind': 'identical'})
        # random multi-option differences
        rnd = []
        tries = 0
        while len(rnd) < n_random and tries < n_random * 20:
            tries += 1
            (bname, beff, bcli, bov), bid = rng.choice(list(zip(bases, base_ids)))
            keys = [k for k, _ in dom if k in beff]
            ch = {}
            for k in rng.sample(keys, rng.randrange(2, min(5, len(keys)) + 1)):
                ch[k] = rng.choice(dict(dom)[k])
            cand = dict(beff)
            cand.update(ch)
            if not valid(lang, cand) or needs_cetl(cand.values()):
                continue
            cli, ov = S.via(lang, ch)
            ov2 = dict(bov)
            ov2.update(ov)
            sid = S.add(lang, cand, bcli + cli, ov2, kind='random')
            rnd.append(sid)
            other = rng.choice(base_ids + rnd)
            pairs.append({'sup': sid, 'typ': other, 'kind': 'random'})
            pairs.append({'sup': other, 'typ': sid, 'kind': 'random'})
            if tier != 'quick' or rng.random() < 0.3:
                pairs.append({'sup': sid, 'typ': sid, 'kind': 'identical'})
        # omit-serialization-support: no support header at all
        oid = S.add(lang, dict(defaults), [], {}, omit=True, kind='omit')
        pairs.append({'sup': None, 'typ': oid, 'kind': 'omit'})
        # the message branch taken with --embed-auditing-info, with a DSDL path that is hostile to a string literal
        for hi in range(1, len(HOSTILE_DIRS) + 1):
            variants = [([], dict(defaults))]
            if hi == 1:
                variants.append((['--target-endianness', 'little'], dict(defaults, target_endianness='little')))
            ids = []
            for extra_cli, intended in variants:
                hid = '%s%03d' % (lang, len(S.sets))     # not through Sets.add: the same CLI is used for every hostile directory
                S.sets.append({'id': hid, 'lang': lang, 'cli': ['--embed-auditing-info'] + extra_cli, 'overrides': None, 'omit': False,
                               'intended': intended, 'kind': 'hostile-path %d' % hi, 'hostile': hi})
                ids.append(hid)
            pairs.append({'sup': ids[0], 'typ': ids[0], 'kind': 'identical-hostile-path'})
            if len(ids) > 1:
                pairs.append({'sup': ids[0], 'typ': ids[1], 'kind': 'single'})
    seen = set()
    out = []
    for p in pairs:
        k = (p['sup'], p['typ'])
        if k in seen:
            continue
        seen.add(k)
        p['id'] = 'p%04d' % len(out)
        p['lang'] = 'cpp' if p['typ'].startswith('cpp') else 'c'
        out.append(p)
    return S.sets, out


# ---------------------------------------------------------------------------------------------
# decoding what the implementation did
# ---------------------------------------------------------------------------------------------
def decode_options(lang: str, facts: dict, raw: typing.List[typing.List[str]]) -> typing.List[typing.Tuple[str, typing.Any]]:
    types = {k: type(v) for k, v in facts['options'][lang]}
    out = []
    for k, text in raw:
        if types.get(k) is bool and text in ('True', 'False'):
            out.append((k, text == 'True'))
        elif types.get(k) is int and re.fullmatch(r'-?\d+', text):
            out.append((k, int(text)))
        else:
            out.append((k, text))
    return out


def sym_of(lang: str, facts: dict, key: str) -> str:
    for k, n in facts['names'][lang]:
        if k == key:
            return n if lang == 'c' else 'nunavut::support::options::' + n
    return ('NUNAVUT_SUPPORT_LANGUAGE_OPTION_' + key.upper()) if lang == 'c' else 'nunavut::support::options::' + key


# ---------------------------------------------------------------------------------------------
# running the Coq model (generated cases file + vm_compute)
# ---------------------------------------------------------------------------------------------
def coq_str(s: str) -> str:
    return '[%s]' % '; '.join(str(ord(c)) for c in s)


def coq_val(v) -> str:
    if isinstance(v, bool):
        return 'VBool %s' % ('true' if v else 'false')
    if isinstance(v, int):
        return 'VInt (%d)%%Z' % v
    if isinstance(v, str):
        return 'VStr %s' % coq_str(v)
    return 'VOther'


def coq_opts(o) -> str:
    return '[%s]' % '; '.join('(%s, %s)' % (coq_str(k), coq_val(v)) for k, v in o)


CASES_HEAD = '''From Verif Require Import Str Crc32 OptGuard Gen_OptGuard.
From Coq Require Import ZArith.
Open Scope N_scope.
Fixpoint idx (k : list N) (l : list (list N)) (n : N) : N :=
  match l with [] => n | x :: l' => if str_eqb k x then n else idx k l' (n + 1) end.
Definition enc_diags (o_t : list (list N * oval)) (r : option (list diag)) : list N :=
  match r with
  | None => [0]
  | Some ds => 1 :: map (fun d => match d with Mismatch k => 2 * idx k (map fst o_t) 0 + 2 | Undeclared k => 2 * idx k (map fst o_t) 0 + 3
                                              | KeySetMismatch => 0 | KeySetUndeclared => 1 end) ds
  end.
Definition enc_tbl (r : option (list ((list N * list N) * Z))) : list N :=
  match r with None => [0] | Some t => 1 :: map (fun a => Z.to_N (snd a)) t end.
Definition enc_sav (r : option Z) : list N :=
  match r with None => [0] | Some z => [1; (if (z <? 0)%Z then 1 else 0); Z.abs_N z] end.
Definition enc_crc (r : option N) : list N := match r with None => [0] | Some n => [1; n] end.
'''


def run_model(queries: typing.List[str], defs: typing.Sequence[str] = ()) -> typing.Tuple[typing.Optional[typing.List[typing.List[int]]], str]:
    d = os.path.join(core.BUILD, 'c17')
    os.makedirs(d, exist_ok=True)
    path = os.path.join(d, 'cases_%d.v' % os.getpid())
    with open(path, 'w') as f:
        f.write(CASES_HEAD)
        for dline in defs:
            f.write(dline + '\n')
        for i, q in enumerate(queries):
            f.write('Eval vm_compute in (%d, %s).\n' % (i, q))
    p = core.run(['coqc', '-Q', os.path.join(core.COQ, 'theories'), 'Verif', '-w', '-notation-overridden', path], cwd=d, timeout=600)
    for ext in ('.v', '.vo', '.vok', '.vos', '.glob'):
        try:
            os.unlink(path[:-2] + ext)
        except OSError:
            pass
    try:
        os.unlink(os.path.join(d, '.cases_%d.aux' % os.getpid()))
    except OSError:
        pass
    if p.returncode != 0:
        return None, p.stdout[-1500:]
    flat = re.sub(r'\s+', ' ', p.stdout)
    res: typing.List[typing.Optional[typing.List[int]]] = [None] * len(queries)
    for m in re.finditer(r'= \((\d+), \[([\d; ]*)\]\)', flat):
        res[int(m.group(1))] = [int(x) for x in m.group(2).split(';') if x.strip()]
    if any(r is None for r in res):
        return None, 'could not parse the model output: ' + flat[-600:]
    return res, ''


# ---------------------------------------------------------------------------------------------
# Option sets that are known not to build on their own, whatever the guard does (C06 territory: inconsistent or documented-as-
# incompatible option combinations).  (name, predicate over (language, option dict, DSDL has a float field), signature that must
# occur in the compiler's error messages).  An identical pair that does not build and is in none of these classes is a VIOLATION.
NONBUILDING_CLASSES = [
    ('omit_float_serialization_support with a floating-point field (documented: "will result in errors if floating point types are used")',
     lambda L, o, fl: o.get('omit_float_serialization_support') is True and fl,
     r'IEEE754|nunavut(Set|Get)F(16|32|64)|[Ff]loat|expression in static assertion is not an integer'),
    ('container template uses {REBIND_ALLOCATOR} but ctor_convention is "default" (no allocator_type alias is generated)',
     lambda L, o, fl: L == 'cpp' and 'REBIND_ALLOCATOR' in str(o.get('variable_array_type_template')) and o.get('ctor_convention') == 'default',
     r'allocator_type'),
    ('allocator-aware ctor_convention but the container template takes no allocator',
     lambda L, o, fl: L == 'cpp' and o.get('ctor_convention') != 'default' and 'REBIND_ALLOCATOR' not in str(o.get('variable_array_type_template')),
     r'allocator|no matching function|template argument|type/value mismatch'),
    ('allocator_type given but allocator_include does not declare it',
     lambda L, o, fl: L == 'cpp' and bool(o.get('allocator_type')) and 'pmr' in str(o.get('allocator_type'))
        and o.get('allocator_include') not in ('<memory_resource>', '"verif_allocator_include.hpp"'),
     r'incomplete type|polymorphic_allocator|memory_resource|std::pmr'),
    ('allocator_is_default_constructible=false: nested composites / union alternatives are default-constructed without an allocator '
     '(C06 candidate, reported to the lead; cetl preset value, not compilable with CETL here)',
     lambda L, o, fl: L == 'cpp' and o.get('allocator_is_default_constructible') is False and o.get('ctor_convention') != 'default',
     r'could not convert|no matching function|emplace|default constructor|deleted function'),
    ('uses-leading-allocator with std::vector (std::vector has no allocator_arg constructor)',
     lambda L, o, fl: L == 'cpp' and o.get('ctor_convention') == 'uses-leading-allocator' and str(o.get('variable_array_type_template')).startswith('std::vector'),
     r'no matching function|allocator_arg'),
    ('{MAX_SIZE} constructor argument with std::vector',
     lambda L, o, fl: L == 'cpp' and 'MAX_SIZE' in str(o.get('variable_array_type_constructor_args')) and str(o.get('variable_array_type_template')).startswith('std::vector'),
     r'no matching function|narrowing|initializer|constructor|allocator'),
]


def nonbuilding_class(L: str, o: dict, has_float: bool, errors: typing.List[str]) -> typing.Optional[str]:
    text = '\n'.join(errors)
    for name, pred, sig in NONBUILDING_CLASSES:
        if pred(L, o, has_float) and re.search(sig, text):
            return name
    return None


def property_oracle(o_s: typing.Optional[list], o_t: list) -> str:
    """the property itself: identical option sets build, different ones are rejected by the assertion"""
    if o_s is None:
        return 'accept'          # no support header involved
    return 'accept' if dict(o_s) == dict(o_t) and len(o_s) == len(o_t) else 'reject-by-assertion'


def gen_values(rng, n: int) -> list:
    alphabet = 'abcXYZ019 _-+{}()<>:",./\\éü中\U0001F600'
    vals: list = [True, False, 0, 1, -1, 123, 2 ** 32 + 5, -2 ** 31, '', 'Any', 'any', 'big', 'little', 'plumless', 'buckeroo', 3.14, None]
    while len(vals) < n:
        t = rng.randrange(10)
        if t < 7:
            vals.append(''.join(rng.choice(alphabet) for _ in range(rng.randrange(0, 40))))
        elif t < 9:
            vals.append(rng.randrange(-2 ** 40, 2 ** 40))
        else:
            vals.append(rng.random())
    return vals


def main(chk: core.Check, replay: typing.Optional[str] = None) -> int:
    if any(chk.known_entry(x) is None for x in (FINDING, FINDING_PATH, FINDING_TRI)):   # fragment not merged into known_findings.json yet
        try:
            with open(os.path.join(core.VERIF, 'known_findings.d', 'C17.json'), encoding='utf-8') as f:
                chk.known += [e for e in json.load(f)['findings'] if PROP in e['properties'] and chk.known_entry(e['id']) is None]
        except (OSError, ValueError, KeyError):
            pass
    # 1. proof obligations against the regenerated model
    import time as _t
    t0 = _t.time()
    stage: typing.Dict[str, float] = {}
    res = core.coq_check('C17', ['optguard'])
    stage['coq'] = round(_t.time() - t0, 1)
    chk.proof_coverage(res, [
        'T2 mini-translator for filter_to_static_assertion_value and the fail-closed Jinja loop scanner (tools/translators/gen_c17.py)',
        'T1 data: properties.yaml options/std groups, argparse choices, ConstructorConvention, names rendered by the real macrofy/id filters in a subprocess',
        'modelling assumption: a rendered symbol is a function of (name expression, key), injective in the key (C17_symbols_distinct + compile runs)',
        'hand model Gen/OptGuard.v of "support header defines, type header asserts", tied by the correspondence run below',
        'model evaluated with coqc/vm_compute on a generated cases file (no extraction); gcc/g++ 12 as the compilers',
    ])
    broken: typing.List[str] = []
    if not res.ok:
        broken.append('proof obligation: %s %s' % (res.failed_file or 'translator', res.failed_theorem or ''))
    model_usable = os.path.exists(os.path.join(core.COQ, 'theories', 'Generated', 'Gen_OptGuard.vo')) and res.translators_ok

    # 2. plan + implementation runs
    try:
        facts = gen_c17.load_facts()
    except Exception as ex:  # the translator's data source itself is gone
        chk.violation({'broken': broken + ['cannot read option facts: %r' % ex], 'what': 'properties.yaml / cli / cpp enum unreadable'}, found_input=False)
        chk.coverage.update({'evaluations': 0, 'distinct_nontrivial': 0, 'rule': 'n/a', 'samples': [], 'traces_validated_against_impl': 0})
        return chk.finish()
    # what the template scanner sees in this tree: the key-set fingerprint symbol per language (None = not present)
    ks_sym: typing.Dict[str, typing.Optional[str]] = {'c': None, 'cpp': None}
    unless_omit: typing.Dict[str, bool] = {'c': False, 'cpp': False}   # guard_requires_support_header, per language
    path_raw: typing.Dict[str, bool] = {'c': False, 'cpp': False}      # the path escape chain leaves `?` alone (trigraph ??/)
    try:
        for L_ in ('c', 'cpp'):
            sides = [gen_c17.scan_loop(L_, kd, _gen.read_repo(gen_c17.TEMPLATES[(L_, kd)])) for kd in ('support', 'type')]
            if sides[0]['keyset'] and sides[0]['keyset'] == sides[1]['keyset']:
                ks_sym[L_] = sides[0]['keyset']
            unless_omit[L_] = bool(sides[1]['unless_omit'])
            path_raw[L_] = '?' not in [a_ for a_, _b in sides[1]['path_escape']]   # the escape chain does not neutralise trigraphs
    except Exception:
        pass   # the translator already failed closed on this; reported through `broken`
    chk.coverage['keyset_fingerprint_in_templates'] = {k: bool(v) for k, v in ks_sym.items()}
    chk.coverage['guard_requires_support_header'] = dict(unless_omit)
    chk.coverage['message_path_trigraph_safe'] = {k: not v for k, v in path_raw.items()}
    chk.coverage['main_theorems'] = ['C17_main_c', 'C17_main_cpp']   # unconditional; they stop compiling if a template loses the fingerprint
    try:
        chk.coverage['entry_templates'] = {L_: [list(e) for e in gen_c17.entry_templates(L_)] for L_ in ('c', 'cpp')}
    except Exception as ex:
        chk.coverage['entry_templates'] = 'unavailable: %r' % ex
    import random as _random
    random_rot = _random.Random(chk.seed * 7919 + 17)      # type-shape rotation: its own stream, so that the option plan is unchanged
    doc = None
    sets, pairs = build_plan(facts, chk.rng, chk.tier)
    if replay:
        doc = json.load(open(replay))
        if 'pair' in doc and 'sets' in doc:
            sets, pairs = doc['sets'], [doc['pair']]
    scratch = core.scratch('c17-')
    nvals = 80 if chk.tier == 'quick' else 1500
    values = gen_values(chk.rng, nvals)
    local_headers = {}
    for L_ in ('c', 'cpp'):
        for _k, vs in facts['domain'][L_]:
            for v in vs:
                mloc = re.fullmatch(r'"(verif_\w+\.hpp)"', v) if isinstance(v, str) else None
                if mloc:
                    local_headers[mloc.group(1)] = '#pragma once\n#include <vector>\n#include <memory>\n#if __cplusplus >= 201703L\n#include <memory_resource>\n#endif\n'
    dsdl = dict(DSDL)
    dsdl.update(EXTRA_ALWAYS)
    rot = list(range(len(EXTRA_ROTATING)))
    if chk.tier == 'quick' and not replay:
        rot = sorted(random_rot.sample(rot, 2))
    for i_ in rot:
        dsdl.update(EXTRA_ROTATING[i_])
    if replay and 'dsdl' in doc:
        dsdl = doc['dsdl']
    roots = ['demo'] + sorted({k.split('/')[0] for k in dsdl} - {'demo'})
    chk.coverage['type_shapes'] = sorted(dsdl)
    job = {'scratch': scratch, 'dsdl': dsdl, 'root': 'demo', 'roots': roots, 'hostile_dirs': HOSTILE_DIRS, 'jobs': 6, 'keyset': ks_sym, 'local_headers': local_headers,
           'sets': [dict({k: s[k] for k in ('id', 'lang', 'cli', 'overrides', 'omit')}, hostile=int(s.get('hostile') or 0),
                         standalone=s['kind'].startswith('base') or s['kind'] == 'omit',
                         std=('c11' if s['lang'] == 'c' else 'c++%d' % max([14] + [STD_RANK.get(s['intended'].get('std'), 14)]
                              + [17 for v in s['intended'].values() if isinstance(v, str) and ('pmr' in v or 'memory_resource' in v)])))
                    for s in sets], 'pairs': []}
    set_by_id = {s['id']: s for s in sets}
    for p in pairs:
        lang = p['lang']
        std = 'c11'
        if lang == 'cpp':
            rank = 14
            for sid in (p['sup'], p['typ']):
                if sid:
                    o = set_by_id[sid]['intended']
                    rank = max(rank, STD_RANK.get(o.get('std'), 14))
                    if any(isinstance(v, str) and ('pmr' in v or 'memory_resource' in v) for v in o.values()):
                        rank = max(rank, 17)
            std = 'c++%d' % rank
        p['std'] = std
        cetl = any(sid and needs_cetl(set_by_id[sid]['intended'].values()) for sid in (p['sup'], p['typ']))
        p['compile'] = not cetl
        if p['compile']:
            job['pairs'].append({k: p[k] for k in ('id', 'lang', 'sup', 'typ', 'std')})
    hp = core.run([core.PY, os.path.join(core.VERIF, 'tools', 'harness', 'c17_impl.py')], input=json.dumps(job), env=core.repo_env(), timeout=1500)
    stage['nnvg+compile'] = round(_t.time() - t0 - stage['coq'], 1)
    try:
        impl = json.loads(hp.stdout[hp.stdout.index('@@') + 2:])
    except Exception:
        chk.violation({'broken': broken, 'what': 'implementation harness failed', 'log': hp.stdout[-1500:]}, found_input=False)
        chk.coverage.update({'evaluations': 0, 'distinct_nontrivial': 0, 'rule': 'n/a', 'samples': [], 'traces_validated_against_impl': 0})
        return chk.finish()
    # the real filter on random values (same interpreter, repo sources)
    fp = core.run([core.PY, '-c',
                   'import json,sys\nfrom nunavut.lang.c import filter_to_static_assertion_value as f\nout=[]\n'
                   'for v in json.load(sys.stdin):\n    try:\n        r=f(v); out.append(["ok", r if not isinstance(r,bool) else "bool:%s"%r])\n'
                   '    except ValueError:\n        out.append(["ValueError"])\n    except Exception as ex:\n        out.append(["exc", type(ex).__name__])\n'
                   'print("@@"+json.dumps(out))'],
                  input=json.dumps(values), env=core.repo_env(), timeout=120)
    try:
        filt = json.loads(fp.stdout[fp.stdout.index('@@') + 2:])
    except Exception:
        filt = None
        broken.append('real filter could not be run: ' + fp.stdout[-300:])

    stats = {'sets_requested': len(sets), 'sets_generated': 0, 'sets_failed_generation': 0, 'pairs_planned': len(pairs), 'pairs_compiled': 0,
             'pairs_not_compiled_cetl': 0, 'accepted': 0, 'rejected_by_assertion': 0, 'rejected_undeclared_only': 0,
             'single_option_pairs': 0, 'random_pairs': 0, 'identical_pairs': 0, 'key_set_pairs': 0, 'omit_pairs': 0,
             'identical_pairs_not_building_for_other_reasons': 0, 'header_number_tables_compared': 0, 'type_headers_checked': 0,
             'known_finding_instances': 0, 'filter_values_compared': 0, 'crc_strings_compared': 0, 'by_language': {'c': 0, 'cpp': 0},
             'failing_assertions_total': 0, 'options_exercised': {}}
    eff: typing.Dict[str, typing.Optional[list]] = {}
    gen_problems = []
    plumbing: typing.List[dict] = []
    alone_bad: typing.List[dict] = []
    for s in sets:
        r = impl['sets'].get(s['id'])
        if not r or not r['ok']:
            stats['sets_failed_generation'] += 1
            eff[s['id']] = None
            # every planned set is built from documented values that pass the generator's own validation rule
            gen_problems.append({'set': s, 'log': (r or {}).get('log', 'no result')})
            continue
        stats['sets_generated'] += 1
        heads = sorted(r['typ_options'])
        o = decode_options(s['lang'], facts, r['sup_options'] if not s['omit'] else r['typ_options'][heads[0]])
        eff[s['id']] = o
        for h in heads:
            if decode_options(s['lang'], facts, r['typ_options'][h]) != o:
                gen_problems.append({'set': s, 'log': 'option comment of %s differs from the support header of the same run' % h})
        # the options the generator reports must be the options that were asked for (CLI flags / --configuration file)
        if dict(o) != s['intended'] or len(o) != len(s['intended']):
            plumbing.append({'set': {k: s[k] for k in ('id', 'lang', 'cli', 'overrides', 'kind')},
                             'asked_for': s['intended'], 'generator_reports': o,
                             'differs_on': sorted(k for k in set(dict(o)) | set(s['intended']) if dict(o).get(k, '<absent>') != s['intended'].get(k, '<absent>'))})
        for h, (rc_, log_) in (r.get('standalone') or {}).items():
            stats['standalone_compiles'] = stats.get('standalone_compiles', 0) + 1
            if rc_ != 0:
                alone_bad.append({'set': {k: s[k] for k in ('id', 'lang', 'cli', 'kind')}, 'header': h, 'compiler': log_})

    # 3. model queries
    queries: typing.List[str] = []
    qidx: typing.Dict[typing.Tuple, int] = {}

    def ask(key, q):
        qidx[key] = len(queries)
        queries.append(q)

    defs: typing.List[str] = []
    for s in sets:
        o = eff[s['id']]
        if o is None:
            continue
        L = s['lang']
        defs.append('Definition o_%s : list (list N * oval) := %s.' % (s['id'], coq_opts(o)))   # each option set is parsed once
        if not s['omit']:
            ask(('sup', s['id']), 'enc_tbl (rendered sav %s_support_side o_%s)' % (L, s['id']))
        ask(('typ', s['id']), 'enc_tbl (rendered sav %s_type_side o_%s)' % (L, s['id']))
        ask(('kfp', s['id']), 'enc_sav (keyfp sav o_%s)' % s['id'])
    for p in pairs:
        if eff.get(p['typ']) is None or (p['sup'] and eff.get(p['sup']) is None):
            continue
        L = p['lang']
        ot = 'o_' + p['typ']
        if p['sup'] is None:
            ask(('pair', p['id']), 'enc_diags %s (compile_omit sav %s_type_side %s)' % (ot, L, ot))
        else:
            ask(('pair', p['id']), 'enc_diags %s (compile_full sav %s_support_side %s_type_side %s %s)' % (ot, L, L, 'o_' + p['sup'], ot))
    for i, v in enumerate(values):
        ask(('val', i), 'enc_sav (sav (%s))' % coq_val(v))
        if isinstance(v, str):
            ask(('crc', i), 'enc_crc (crc32_str %s)' % coq_str(v))
    model = None
    if model_usable:
        model, mlog = run_model(queries, defs)
        if model is None:
            broken.append('model could not be evaluated: ' + mlog[-400:])

    stage['model'] = round(_t.time() - t0 - stage['coq'] - stage['nnvg+compile'], 1)
    chk.coverage['stage_seconds'] = stage

    def M(key):
        return model[qidx[key]] if model is not None and key in qidx else None

    bad_model: typing.List[dict] = []
    bad_oracle: typing.List[dict] = []

    # 3a. numbers in the generated headers
    for s in sets:
        o = eff[s['id']]
        if o is None:
            continue
        r = impl['sets'][s['id']]
        L = s['lang']
        if not s['omit']:
            m = M(('sup', s['id']))
            if m is not None:
                want = {sym_of(L, facts, k): z for (k, _), z in zip(o, m[1:])} if m[0] == 1 else None
                kf = M(('kfp', s['id']))
                if want is not None and ks_sym[L]:
                    want[ks_sym[L]] = kf[2] if kf and kf[0] == 1 else None
                stats['header_number_tables_compared'] += 1
                if want != r['defs']:
                    bad_model.append({'what': 'numbers defined by the support header', 'set': s, 'options': o, 'model': want, 'implementation': r['defs']})
        m = M(('typ', s['id']))
        if m is not None:
            want_l = [[sym_of(L, facts, k), z] for (k, _), z in zip(o, m[1:])] if m[0] == 1 else None
            kf = M(('kfp', s['id']))
            if want_l is not None and ks_sym[L]:
                want_l = [[ks_sym[L], kf[2] if kf and kf[0] == 1 else None]] + want_l
            for h, a in r['asserts'].items():
                stats['header_number_tables_compared'] += 1
                exp_l = [] if (s['omit'] and unless_omit[L]) else want_l   # pod headers assert nothing when the guard requires a support header
                if exp_l != [[x[0], x[1]] for x in a]:
                    bad_model.append({'what': 'numbers asserted by type header %s' % h, 'set': s, 'options': o, 'model': want_l, 'implementation': a})

    # 3b. known finding probe: an option key on one side only
    kf_live = False
    kf_pairs = [p for p in pairs if p['kind'] == 'key-set' and p['id'] in impl['pairs']]
    if chk.is_known(FINDING):
        for p in kf_pairs:
            os_, ot_ = eff.get(p['sup']), eff.get(p['typ'])
            r = impl['pairs'][p['id']]
            if os_ and ot_ and set(dict(ot_)) < set(dict(os_)) and r['rc'] == 0 and not r['failed'] and not r['undeclared']:
                kf_live = True
        if kf_live:
            chk.report_known(FINDING)

    # 3b'. finding probes on the hostile-path sets (--embed-auditing-info, identical option sets).  Directory 1 (double quote,
    # backslash) is the witness of the FIXED finding F-OPTGUARD-MSG-PATH: it is judged by the oracle like any other pair.
    # Directories 2.. contain trigraphs (F-OPTGUARD-TRIGRAPH).
    kfp_live = {'c': False, 'cpp': False}
    set_by = {s_['id']: s_ for s_ in sets}
    for p in pairs:
        if p['kind'] == 'identical-hostile-path' and p['id'] in impl['pairs'] and (set_by[p['typ']].get('hostile') or 0) >= 2:
            r = impl['pairs'][p['id']]
            if r['rc'] != 0 and (r.get('guard_region_errors') or r.get('control_rc') == 0):
                kfp_live[p['lang']] = True
    if chk.is_known(FINDING_TRI) and any(kfp_live.values()):
        chk.report_known(FINDING_TRI)
    hostile_ids = {s_['id'] for s_ in sets if (s_.get('hostile') or 0) >= 2}

    # 3c. compile verdicts
    distinct = set()
    samples = []
    for p in pairs:
        if not p['compile']:
            stats['pairs_not_compiled_cetl'] += 1
            continue
        r = impl['pairs'].get(p['id'])
        if r is None:
            continue
        os_ = eff.get(p['sup']) if p['sup'] else None
        ot_ = eff[p['typ']]
        L = p['lang']
        stats['pairs_compiled'] += 1
        stats['by_language'][L] += 1
        heads = sorted(impl['sets'][p['typ']]['asserts'])
        stats['type_headers_checked'] += len(heads)
        got_failed = {h: sorted({x[2] for x in r['failed'] if x[0] == h}) for h in heads}
        got_undecl = {h: sorted({x[2] for x in r['undeclared'] if x[0] == h}) for h in heads}
        n_failed = sum(len(v) for v in got_failed.values())
        stats['failing_assertions_total'] += n_failed
        guard_silent = not r['failed'] and not r['undeclared']
        same_keys = os_ is not None and [k for k, _ in os_] == [k for k, _ in ot_]
        key_diff = os_ is not None and set(dict(os_)) != set(dict(ot_))
        if os_ is None:
            stats['omit_pairs'] += 1
        elif key_diff:
            stats['key_set_pairs'] += 1
        elif dict(os_) == dict(ot_):
            stats['identical_pairs'] += 1
        elif p['kind'] == 'transposition':
            stats['transposition_pairs'] = stats.get('transposition_pairs', 0) + 1
        elif p['kind'] == 'random':
            stats['random_pairs'] += 1
        else:
            stats['single_option_pairs'] += 1
        if guard_silent:
            stats['accepted'] += 1
        elif r['failed']:
            stats['rejected_by_assertion'] += 1
        else:
            stats['rejected_undeclared_only'] += 1
        if os_ is not None:
            for k in set(dict(os_)) | set(dict(ot_)):
                if dict(os_).get(k, '<absent>') != dict(ot_).get(k, '<absent>'):
                    stats['options_exercised'][L + '.' + k] = stats['options_exercised'].get(L + '.' + k, 0) + 1
        if not guard_silent or (os_ is not None and dict(os_) != dict(ot_)):
            distinct.add(json.dumps([L, os_, ot_], sort_keys=True, default=str))
        if len(samples) < 8 and (len(samples) % 2 == 0) == guard_silent:
            samples.append({'lang': L, 'support_options': os_, 'type_options': ot_, 'compiler': ('gcc' if L == 'c' else 'g++') + ' -std=' + p['std'],
                            'exit_status': r['rc'], 'failing_assertions': got_failed, 'undeclared': got_undecl})
        if (p['sup'] in hostile_ids or p['typ'] in hostile_ids) and kfp_live[L] and chk.is_known(FINDING_TRI) and path_raw[L]:
            # instance of F-OPTGUARD-TRIGRAPH: trigger holds (trigraph in the path, auditing info, `?` not escaped) and the witness reproduces
            stats['known_finding_instances'] += 1
            continue
        # -- property oracle (falsifier)
        want = property_oracle(os_, ot_)
        case = {'pair': p, 'sets': [s for s in sets if s['id'] in (p['sup'], p['typ'])], 'support_options': os_, 'type_options': ot_,
                'exit_status': r['rc'], 'failing_assertions': got_failed, 'undeclared': got_undecl, 'compiler_output_tail': r['tail']}
        viol = None
        if want == 'accept':
            if not guard_silent and not (os_ is None and not unless_omit[L]):
                viol = 'identical option sets but the guard fired'
            elif p.get('must_build') and r['rc'] != 0:
                viol = 'identical default option sets do not build'
            elif os_ is not None and r.get('guard_region_errors'):
                viol = 'identical option sets, but the option-guard statements themselves do not compile: %s' % r['guard_region_errors'][0][2]
            elif os_ is not None and r['rc'] != 0 and r.get('control_rc') == 0:
                viol = 'identical option sets do not build, although the same headers build once the option-guard statements are removed'
            elif guard_silent and r['rc'] != 0 and os_ is not None:
                cls = nonbuilding_class(L, dict(ot_), any('float' in t for t in dsdl.values()), r.get('errors') or [])
                if cls is None:
                    viol = ('identical option sets do not build and the failure is in no known class of self-inconsistent option sets: '
                            + '; '.join((r.get('errors') or ['?'])[:2]))
                else:
                    stats.setdefault('identical_not_building_by_class', {})
                    stats['identical_not_building_by_class'][cls] = stats['identical_not_building_by_class'].get(cls, 0) + 1
                stats['identical_pairs_not_building_for_other_reasons'] += 1
                dflt = dict(facts['options'][L])
                first_err = next((l for l in r['tail'].splitlines() if ' error: ' in l), '')
                stats.setdefault('identical_not_building', []).append(
                    '%s: %s || %s' % (L, {k: v for k, v in ot_ if dflt.get(k, '<absent>') != v}, first_err.split(' error: ')[-1][:140]))
        else:
            if guard_silent:
                viol = 'option sets differ but nothing rejected the build'
            elif r['rc'] == 0:
                viol = 'diagnostics without failure exit status'
            elif not r['failed'] or not all(got_failed[h] for h in heads):
                viol = 'rejected, but not by the static assertion in every type header'
            elif not r['message_ok']:
                viol = 'assertion message does not name the option mismatch'
        if viol:
            # an instance of the known finding: key sets differ AND the implementation does exactly what the guard does on
            # the keys it looks at (mismatch for shared keys with different values, undeclared for keys the support side lacks)
            quirk_ok = False
            if key_diff:
                ds, dt = dict(os_), dict(ot_)
                qm = sorted(sym_of(L, facts, k) for k in dt if k in ds and ds[k] != dt[k])
                qu = sorted(sym_of(L, facts, k) for k in dt if k not in ds)
                quirk_ok = all(got_failed[h] == qm and got_undecl[h] == qu for h in heads)
            if key_diff and kf_live and quirk_ok:
                stats['known_finding_instances'] += 1
            else:
                case['violation'] = viol
                bad_oracle.append(case)
        # -- model
        m = M(('pair', p['id']))
        if m is not None:
            if key_diff and not kf_live and chk.is_known(FINDING) and not ks_sym[L]:
                continue   # finding repaired in a way the model does not know: the oracle above judges these pairs
            if m[0] != 1:
                bad_model.append(dict(case, what='model predicts a generation failure'))
                continue
            keys_t = [k for k, _ in ot_]
            mm = sorted({sym_of(L, facts, keys_t[(x - 2) // 2]) for x in m[1:] if x >= 2 and x % 2 == 0} | ({ks_sym[L] or '<key-set>'} if 0 in m[1:] else set()))
            mu = sorted({sym_of(L, facts, keys_t[(x - 2) // 2]) for x in m[1:] if x >= 2 and x % 2 == 1} | ({ks_sym[L] or '<key-set>'} if 1 in m[1:] else set()))
            for h in heads:
                if got_failed[h] != mm or got_undecl[h] != mu:
                    bad_model.append(dict(case, what='diagnostics of %s differ from the model' % h, model={'mismatch': mm, 'undeclared': mu}))
                    break
            else:
                if (r['rc'] == 0) != (not mm and not mu) and not (guard_silent and r['rc'] != 0):
                    bad_model.append(dict(case, what='exit status differs from the model', model={'mismatch': mm, 'undeclared': mu}))
                if r['failed'] and not r['message_ok']:
                    bad_model.append(dict(case, what='failed assertion without the mismatch message'))

    # 3d. filter and CRC model against the real thing
    if filt is not None and model is not None:
        for i, v in enumerate(values):
            m = M(('val', i))
            f = filt[i]
            if f[0] == 'ok' and isinstance(f[1], int):
                want_m = [1, 1 if f[1] < 0 else 0, abs(f[1])]
            else:
                want_m = [0]
            stats['filter_values_compared'] += 1
            if isinstance(v, str) and f[0] == 'exc':
                continue  # un-encodable string (lone surrogate): both fail
            if m != want_m:
                bad_model.append({'what': 'translated filter vs filter_to_static_assertion_value', 'value': repr(v), 'model': m, 'implementation': f})
            if isinstance(v, str):
                c = M(('crc', i))
                stats['crc_strings_compared'] += 1
                if c != [1, zlib.crc32(v.encode('utf-8'))]:
                    bad_model.append({'what': 'Crc32.v vs zlib.crc32', 'value': repr(v), 'model': c, 'zlib': zlib.crc32(v.encode('utf-8'))})

    n_eval = stats['pairs_compiled'] + stats['header_number_tables_compared'] + stats['filter_values_compared']
    chk.coverage.update({
        'evaluations': n_eval, 'distinct_nontrivial': len(distinct),
        'rule': 'ordered pairs (support option set, type-header option set) per language: every single-option difference from the default set '
                'and (C++) from the explicit c++17-pmr set over the documented values, both orders; seeded random 2..5-option differences; '
                'identical pairs; key-set differences (C: std added by --language-standard); --omit-serialization-support; 4 DSDL types (struct, delimited composite, union, service) per '
                'translation unit, each type header judged separately. Non-trivial = distinct pair whose two effective option sets differ or '
                'on which the compiler reported a guard diagnostic. evaluations = compiled pairs + header number tables compared + filter '
                'values compared. Pairs involving cetl strings are generated and their numbers compared but not compiled.',
        'samples': samples,
        'traces_validated_against_impl': stats['pairs_compiled'] if model is not None else 0,
        'distribution': stats,
    })
    chk.notes.append('cetl flavour (cetl++14-17 and every set containing a cetl include/type string): generation and number comparison only; '
                     'the CETL submodule is empty in this sandbox, so these %d pairs were not compiled' % stats['pairs_not_compiled_cetl'])
    if stats['identical_pairs_not_building_for_other_reasons']:
        chk.notes.append('%d identical pairs did not build for reasons unrelated to the guard (e.g. uses-leading-allocator with std::vector); '
                         'the guard was silent on them as predicted' % stats['identical_pairs_not_building_for_other_reasons'])

    # coverage floor: every documented option with an alternative value that can be compiled must have been exercised by a
    # differing pair, and there must be a minimum of non-trivial pairs per language
    floor_bad = []
    for L_ in ('c', 'cpp'):
        for k, vs in facts['domain'][L_]:
            alts = [v for v in vs if not needs_cetl([v])]
            if len(alts) >= 2 and not stats['options_exercised'].get(L_ + '.' + k):
                floor_bad.append('%s.%s never differed in a compiled pair' % (L_, k))
        if stats['by_language'][L_] < 20 and not replay:
            floor_bad.append('%s: only %d compiled pairs' % (L_, stats['by_language'][L_]))
    if gen_problems:
        chk.violation({'what': 'nnvg failed on a planned configuration or rendered inconsistent option comments', 'problems': gen_problems[:3], 'broken': broken},
                      found_input=bool(gen_problems and 'set' in gen_problems[0]))
    elif plumbing:
        chk.violation({'what': 'the generator does not report the option set it was asked for (an option given on the command line / in the '
                               'configuration file does not reach the generated code, or an unrequested one does)', 'case': plumbing[0],
                       'n_failing': len(plumbing), 'dsdl': dsdl, 'broken': broken}, found_input=True)
    elif alone_bad:
        chk.violation({'what': 'a header generated with the default options does not compile on its own (nothing pre-included)', 'case': alone_bad[0],
                       'n_failing': len(alone_bad), 'dsdl': dsdl, 'broken': broken}, found_input=True)
    elif floor_bad and not replay:
        chk.violation({'what': 'coverage floor not reached: ' + '; '.join(floor_bad[:5]), 'broken': broken}, found_input=False)
    elif bad_oracle:
        c = min(bad_oracle, key=lambda c: sum(1 for k in set(dict(c['support_options'] or [])) | set(dict(c['type_options']))
                                                if dict(c['support_options'] or []).get(k) != dict(c['type_options']).get(k)))
        chk.violation(dict(c, what='mixing these two outputs violates the property: ' + c['violation'], dsdl=dsdl, broken=broken,
                           n_failing=len(bad_oracle), coq_error=res.error_text[-800:] if not res.ok else ''), found_input=True)
    elif bad_model:
        chk.violation(dict(bad_model[0], correspondence='Gen/OptGuard.v (compile/rendered/sav/crc32) vs nnvg + compiler', n_disagreements=len(bad_model),
                           broken=broken, dsdl=dsdl), found_input=False)
    elif broken:
        chk.violation({'broken': broken, 'coq_error': res.error_text[-2000:], 'translators': res.translator_msgs,
                       'what': 'proof obligation or model no longer checks; %d compiled pairs on the implementation satisfied the property' % stats['pairs_compiled']},
                      found_input=False)
    shutil.rmtree(scratch, ignore_errors=True)
    return chk.finish()
