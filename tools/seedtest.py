#!/venv/bin/python
"""Lead tool: run checks against the seeded breaking changes kept under /verif/seeded/<id>/.

  tools/seedtest.py [--tier quick] [--only C15a,C09b] [--checks C15,C10]   (default: the check of the property the seed breaks)

For each seed: scratch worktree of /repo (outside /repo and /verif), `git apply patch.diff`, run demo.py on the clean tree
(must pass) and on the patched tree (must fail), run the check(s) with VERIF_REPO=<worktree>, record whether a VIOLATION
line was printed, remove the worktree.  Results: seeded/results.json (and a table on stdout).
Never touches /repo's working tree.
"""
import argparse
import json
import os
import subprocess
import sys
import time

VERIF = os.path.dirname(os.path.dirname(os.path.abspath(__file__)))
PY = '/venv/bin/python'


def sh(cmd, **kw):
    return subprocess.run(cmd, stdout=subprocess.PIPE, stderr=subprocess.STDOUT, text=True, errors='replace', **kw)


def main():
    ap = argparse.ArgumentParser()
    ap.add_argument('--tier', default='quick')
    ap.add_argument('--only', default='')
    ap.add_argument('--checks', default='')
    ap.add_argument('--skip-demo', action='store_true')
    ap.add_argument('--tag', default='', help='parallel instances: private /verif copy and results.<tag>.json')
    a = ap.parse_args()
    only = set(filter(None, a.only.split(',')))
    root = os.path.join(VERIF, 'seeded')
    # run the checks from a private copy of /verif so that regenerated Coq files / builds of the mutated tree never
    # disturb work going on in /verif itself
    run_verif = '/tmp/verif-seedrun' + a.tag
    sh(['rsync', '-a', '--delete', '--exclude', '.git', '--exclude', 'build/replays', VERIF + '/', run_verif + '/'])
    res_path = os.path.join(root, 'results%s.json' % (('.' + a.tag) if a.tag else ''))
    results = json.load(open(res_path)) if os.path.exists(res_path) else {}
    for sid in sorted(os.listdir(root)):
        d = os.path.join(root, sid)
        if not os.path.isfile(os.path.join(d, 'patch.diff')):
            continue
        if only and sid not in only:
            continue
        meta = json.load(open(os.path.join(d, 'meta.json')))
        prop = meta['property']
        checks = a.checks.split(',') if a.checks else [prop]
        wt = '/tmp/wt-seed-%s%s' % (sid, a.tag)
        sh(['git', '-C', '/repo', 'worktree', 'remove', '--force', wt])
        p = sh(['git', '-C', '/repo', 'worktree', 'add', '--detach', wt, 'HEAD'])
        entry = {'property': prop, 'summary': meta.get('summary', ''), 'checks': {}}
        try:
            if not a.skip_demo:
                q = sh([PY, os.path.join(d, 'demo.py'), wt], timeout=900)
                entry['demo_clean_rc'] = q.returncode
            p = sh(['git', '-C', wt, 'apply', os.path.join(d, 'patch.diff')])
            if p.returncode != 0:
                entry['error'] = 'patch does not apply: ' + p.stdout[-300:]
                results[sid] = entry
                continue
            if not a.skip_demo:
                q = sh([PY, os.path.join(d, 'demo.py'), wt], timeout=900)
                entry['demo_patched_rc'] = q.returncode
            for c in checks:
                env = dict(os.environ, VERIF_REPO=wt)
                t0 = time.time()
                q = sh([PY, os.path.join(run_verif, 'tools', 'check.py'), c, '--tier', a.tier], cwd=run_verif, env=env, timeout=3600)
                vio = [l for l in q.stdout.splitlines() if l.startswith('VIOLATION')]
                entry.setdefault('tail', {})[c] = q.stdout[-600:]
                entry['checks'][c] = {'rc': q.returncode, 'violations': vio[:3], 'tier': a.tier, 'wall_s': round(time.time() - t0, 1),
                                      'caught': bool(vio) and q.returncode != 0}
        finally:
            sh(['git', '-C', '/repo', 'worktree', 'remove', '--force', wt])
        results[sid] = entry
        print(sid, prop, {c: v['caught'] for c, v in entry['checks'].items()}, 'demo', entry.get('demo_clean_rc'), entry.get('demo_patched_rc'),
              entry.get('error', ''))
        sys.stdout.flush()
        with open(res_path, 'w') as f:
            json.dump(results, f, indent=1, sort_keys=True)
            f.write('\n')
    return 0


if __name__ == '__main__':
    sys.exit(main())
