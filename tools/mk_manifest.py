#!/venv/bin/python
"""Writes /verif/MANIFEST.json from the table below (kept in one place so it stays valid)."""
import json
import os
import re

VERIF = os.path.dirname(os.path.dirname(os.path.abspath(__file__)))
ALL = ['C%02d' % i for i in range(1, 21)]

import importlib
import sys

sys.path.insert(0, VERIF)


def collect():
    checks = {}
    d = os.path.join(VERIF, 'tools', 'checks')
    for n in sorted(os.listdir(d)):
        if re.fullmatch(r'c\d\d\.py', n):
            m = importlib.import_module('tools.checks.' + n[:-3])
            if hasattr(m, 'MANIFEST'):
                checks[n[:-3].upper()] = m.MANIFEST
    return checks


def merge_known():
    """known_findings.json = concatenation of known_findings.d/*.json (development-time merge; never at check time)"""
    out = []
    d = os.path.join(VERIF, 'known_findings.d')
    for n in sorted(os.listdir(d)):
        if n.endswith('.json'):
            out.extend(json.load(open(os.path.join(d, n)))['findings'])
    ids = [e['id'] for e in out]
    assert len(ids) == len(set(ids)), 'duplicate finding ids'
    doc = {'comment': KNOWN_COMMENT, 'findings': out}
    with open(os.path.join(VERIF, 'known_findings.json'), 'w') as f:
        json.dump(doc, f, indent=1)
        f.write('\n')


KNOWN_COMMENT = ("Genuine defects of the pinned OpenCyphal/nunavut tree found by the checks and recorded rather than repaired "
                 "(status known), plus records of repaired ones (status fixed, with the fix: commit). Merged from known_findings.d/ "
                 "by tools/mk_manifest.py at development time; never written at check time. A check prints KNOWN-FINDING only when "
                 "the entry's witness still reproduces on /repo and only suppresses violations that satisfy the entry's trigger.")

NOT_YET = 'check not built yet in this round (design in DESIGN.md §5); no claim is made'


def main():
    CHECKS = collect()
    # only checks the lead has accepted (tools/ready.txt, one id per line) are claimed in MANIFEST
    ready = set(open(os.path.join(VERIF, 'tools', 'ready.txt')).read().split())
    CHECKS = {k: v for k, v in CHECKS.items() if k in ready}
    merge_known()
    checks = []
    for pid in ALL:
        if pid not in CHECKS:
            continue
        c = CHECKS[pid]
        checks.append({
            'property_id': pid,
            'quick_cmd': '/venv/bin/python tools/check.py %s --tier quick' % pid,
            'thorough_cmd': '/venv/bin/python tools/check.py %s --tier thorough' % pid,
            'evidence_file': '/verif/evidence/%s.json' % pid,
            'replay_cmd_template': '/venv/bin/python tools/check.py %s --replay {path}' % pid,
            'engine': 'coq-proof+correspondence',
            'level_claimed': {'category': c.get('category', 'proof'), 'text': c['text'], 'design_ref': c['design']},
            'level_note': c['note'],
            'technique': c['technique'],
        })
    man = {
        'version': 1,
        'setup_cmd': 'bash tools/setup.sh',
        'hooks': {
            'guard': 'NUNAVUT_VERIF',
            'enable': 'no source hooks are needed: checks observe /repo through its public API, CLI, generated artefacts and '
                      'translators reading the source; NUNAVUT_VERIF=1 is exported by the checks but nothing in /repo reads it',
            'baseline_off_cmd': 'cd /repo && /venv/bin/python -m pytest -ra -q -p no:cacheprovider --timeout=900 --continue-on-collection-errors',
            'source_commits': [],
            'add_only': True,
        },
        'engines': [{
            'name': 'coq-proof+correspondence',
            'path': '/verif/coq',
            'serves_properties': sorted(CHECKS),
            'kind_free_text': 'Coq 8.16.1 development (models, theorems, extraction) + Python translators regenerating parts of the model '
                              'from /repo + correspondence harness running extracted models against the implementation',
        }],
        'checks': checks,
        'notes': 'See DESIGN.md. Known findings: known_findings.json. Seeded breaking changes: seeded/.',
        'not_applicable': [{'property_id': p, 'reason': NA.get(p, NOT_YET)} for p in ALL if p not in CHECKS],
    }
    with open(os.path.join(VERIF, 'MANIFEST.json'), 'w') as f:
        json.dump(man, f, indent=1)
        f.write('\n')


NA = {}

if __name__ == '__main__':
    main()
