#!/venv/bin/python
"""Writes /verif/MANIFEST.json from the table below (kept in one place so it stays valid)."""
import json
import os

VERIF = os.path.dirname(os.path.dirname(os.path.abspath(__file__)))
ALL = ['C%02d' % i for i in range(1, 21)]

CHECKS = {
    'C15': dict(
        technique='Coq proof (induction over chunk lists / line streams) about a hand model of the line buffer and T2-translated '
                  'processors; extracted-model vs. implementation correspondence',
        text='Theorems in coq/theories/Properties/C15.v: chunk independence for every pipeline state machine and every chunking that '
             'does not separate CR from LF (full statement refuted by witness: known finding F-CRLF-SPLIT), identity for no-op '
             'pipelines under every chunking, exact trimming of the translated TrimTrailingWhitespace (regex semantics in Coq), '
             'bound/keeps-non-empty/subsequence for the translated LimitEmptyLines for every N>=0. Tie: processors and both regular '
             'expressions are re-translated from /repo on every run (proofs re-checked), the buffering loop is tied by running the '
             'extracted model and CodeGenerator._generate_with_line_buffer on the same chunk sequences.',
        note='Trusted: Coq kernel; T2 translator (Python ast -> Gallina) and regex parser; table of Python whitespace code points; '
             'extraction (ExtrOcamlBasic only) + OCaml driver; the hand model of the buffering loop is validated, not verified. '
             'Not covered: _copy_header_using_line_pps (support files copied verbatim) is modelled but not part of the theorems.',
        design='§5 C15'),
}

NOT_YET = 'check not built yet in this round (design in DESIGN.md §5); no claim is made'


def main():
    checks = []
    for pid in ALL:
        if pid not in CHECKS:
            continue
        c = CHECKS[pid]
        checks.append({
            'property_id': pid,
            'quick_cmd': '/venv/bin/python tools/check.py %s --tier quick' % pid,
            'thorough_cmd': '/venv/bin/python tools/check.py %s --tier thorough' % pid,
            'evidence_file': '/verif/evidence/%s.json' % pid,
            'replay_cmd_template': '/venv/bin/python tools/check.py %s --replay {path}' % pid,
            'engine': 'coq-proof+correspondence',
            'level_claimed': {'category': c.get('category', 'proof'), 'text': c['text'], 'design_ref': c['design']},
            'level_note': c['note'],
            'technique': c['technique'],
        })
    man = {
        'version': 1,
        'setup_cmd': 'bash tools/setup.sh',
        'hooks': {
            'guard': 'NUNAVUT_VERIF',
            'enable': 'no source hooks are needed: checks observe /repo through its public API, CLI, generated artefacts and '
                      'translators reading the source; NUNAVUT_VERIF=1 is exported by the checks but nothing in /repo reads it',
            'baseline_off_cmd': 'cd /repo && /venv/bin/python -m pytest -ra -q -p no:cacheprovider --timeout=900 --continue-on-collection-errors',
            'source_commits': [],
            'add_only': True,
        },
        'engines': [{
            'name': 'coq-proof+correspondence',
            'path': '/verif/coq',
            'serves_properties': sorted(CHECKS),
            'kind_free_text': 'Coq 8.16.1 development (models, theorems, extraction) + Python translators regenerating parts of the model '
                              'from /repo + correspondence harness running extracted models against the implementation',
        }],
        'checks': checks,
        'notes': 'See DESIGN.md. Known findings: known_findings.json. Seeded breaking changes: seeded/.',
        'not_applicable': [{'property_id': p, 'reason': NA.get(p, NOT_YET)} for p in ALL if p not in CHECKS],
    }
    with open(os.path.join(VERIF, 'MANIFEST.json'), 'w') as f:
        json.dump(man, f, indent=1)
        f.write('\n')


NA = {}

if __name__ == '__main__':
    main()
