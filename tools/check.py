#!/venv/bin/python
"""Single entry point of the checks:  tools/check.py <Cxx> [--tier quick|thorough] [--seed N] [--replay FILE]
exit 0 = the property held on everything explored; exit 1 + `VIOLATION property=<id> replay=<path>` otherwise."""
import argparse
import importlib
import os
import sys

sys.path.insert(0, os.path.dirname(os.path.dirname(os.path.abspath(__file__))))

from tools.lib import core  # noqa: E402


def main() -> int:
    ap = argparse.ArgumentParser()
    ap.add_argument('prop')
    ap.add_argument('--tier', default=os.environ.get('VERIF_TIER', 'quick'), choices=['quick', 'thorough'])
    ap.add_argument('--seed', type=int, default=int(os.environ.get('VERIF_SEED', '20260926')))
    ap.add_argument('--replay', default=None)
    a = ap.parse_args()
    mod = importlib.import_module('tools.checks.' + a.prop.lower())
    chk = core.Check(a.prop.upper(), a.tier, a.seed, level=getattr(mod, 'LEVEL', 'proof'))
    return mod.main(chk, a.replay)


if __name__ == '__main__':
    sys.exit(main())
