#!/venv/bin/python
"""Rewrites the per-property status table between the STATUS-TABLE markers of DESIGN.md from MANIFEST.json, evidence/*.json
and known_findings.json (development-time helper)."""
import json
import os
import re

VERIF = os.path.dirname(os.path.dirname(os.path.abspath(__file__)))
man = json.load(open(os.path.join(VERIF, 'MANIFEST.json')))
kf = json.load(open(os.path.join(VERIF, 'known_findings.json')))['findings']
rows = ['| id | obligations (theorems+examples in Properties/Cxx.v, all closed under the global context) | translators / pins regenerated each run | model-vs-implementation evaluations (quick) | known findings still open | notes |',
        '|---|---|---|---|---|---|']
for c in man['checks']:
    pid = c['property_id']
    ev = {}
    p = os.path.join(VERIF, 'evidence', pid + '.json')
    if os.path.exists(p):
        ev = json.load(open(p))
    cov = ev.get('coverage', {})
    tr = [t.split(':')[0] for t in cov.get('translators', [])]
    open_kf = [e['id'] for e in kf if pid in e['properties'] and e['status'] == 'known']
    rows.append('| %s | %s | %s | %s | %s | design_notes/%s.md |' % (
        pid, cov.get('obligations', '?'), ', '.join(tr) or '–', cov.get('evaluations', '?'), ', '.join(open_kf) or '–', pid))
p = os.path.join(VERIF, 'DESIGN.md')
s = open(p).read()
s = re.sub(r'(<!-- STATUS-TABLE-BEGIN -->\n).*?(<!-- STATUS-TABLE-END -->)', lambda m: m.group(1) + '\n'.join(rows) + '\n' + m.group(2), s, flags=re.S)
open(p, 'w').write(s)
