#!/bin/bash
# Lead tool: acceptance run of one check on the unchanged tree: 3 seeds of the quick tier, evidence validation, timing.
# usage: tools/accept.sh C09 [seeds...]
cd "$(dirname "$0")/.."
P=$1; shift
SEEDS=${@:-"20260926 7 123456"}
rc=0
for s in $SEEDS; do
  t0=$(date +%s)
  out=$(/venv/bin/python tools/check.py $P --tier quick --seed $s 2>&1); r=$?
  t1=$(date +%s)
  echo "== $P seed=$s rc=$r wall=$((t1-t0))s"
  echo "$out" | grep -E "VIOLATION|KNOWN-FINDING|Traceback|Error" | head -5
  [ $r -ne 0 ] && rc=1
  python3-vt -c "import json,jsonschema;jsonschema.validate(json.load(open('evidence/$P.json')),json.load(open('/root/.vp/EVIDENCE.schema.json')));e=json.load(open('evidence/$P.json'));c=e['coverage'];print('evidence ok level=%s obligations=%s discharged=%s evaluations=%s distinct=%s viol=%s'%(e['level'],c.get('obligations'),c.get('discharged'),c.get('evaluations'),c.get('distinct_nontrivial'),e.get('violations')))" || rc=1
done
grep -nE '\b(Admitted|admit|Axiom|Parameter|Conjecture)\b' -r coq/theories --include='*.v' | grep -v '(\*' | head -3
exit $rc
