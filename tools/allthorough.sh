#!/bin/bash
# Lead tool: run every claimed check's quick tier once (4 at a time) and summarise.  usage: tools/allquick.sh [seed]
cd "$(dirname "$0")/.."
SEED=${1:-1}
mkdir -p build/allthorough
run() { p=$1; t0=$(date +%s); /venv/bin/python tools/check.py $p --tier thorough --seed $SEED > build/allthorough/$p.log 2>&1; r=$?; echo "$p rc=$r wall=$(( $(date +%s)-t0 ))s viol=$(grep -c '^VIOLATION' build/allthorough/$p.log) known=$(grep -c '^KNOWN-FINDING' build/allthorough/$p.log)"; }
export -f run; export SEED
sort -u tools/ready.txt | xargs -P 3 -I{} bash -c 'run {}' | sort
