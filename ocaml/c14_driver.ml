(* C14 driver: runs the extracted models of the support-library primitives on line commands.
   usage: driver.exe c-any | c-little | cpp      (which rendering of the C header is modelled, or the C++ bitspan model)
   Buffers: lowercase hex, '-' for the empty buffer.  Numbers: decimal (u64 unsigned, i64 signed).
   Commands (one per line) and answers (one line each); UB = the model reached an out-of-range access:
     sat <size> <off> <len>                     -> <n>
     cp <dst> <doff> <len> <src> <soff>         -> <dst'>
     gb <out> <buf> <size> <off> <len>          -> <out'>
     sb <buf> <size> <off> <0|1>                -> <rc> <buf'>         rc 0 or -3
     su <buf> <size> <off> <value> <len>        -> <rc> <buf'>
     si <buf> <size> <off> <value> <len>        -> <rc> <buf'>
     gu <w> <buf> <size> <off> <len>            -> <value>
     gi <w> <buf> <size> <off> <len>            -> <value>
     gbit <buf> <size> <off>                    -> 0|1
     sf32 <buf> <size> <off> <bits> / sf64      -> <rc> <buf'>
     gf32 <buf> <size> <off> / gf64 / gf16      -> <bits>           (gf16: binary32 bits of the unpacked half)
     sf16 <buf> <size> <off> <binary32 bits>    -> <rc> <buf'>
     f16p <binary32 bits> -> <half bits>        f16u <half bits> -> <binary32 bits>
   With `cpp` the same commands go to the bitspan members (span = buffer, size, offset), plus:
     xcp <dst> <dsize> <doff> <len> <src> <ssize> <soff>  -> <dst'>       const_bitspan(src).copyTo(bitspan(dst), len)
     xz <buf> <size> <off> <len>                          -> <rc> <buf'>  setZeros(len)
     xpad <buf> <size> <off> <n>                          -> <rc> <new offset> <buf'>   padAndMoveToAlignment(n)
     xsub <alloc bytes> <size> <off> <bits>               -> <pointer advance> <size()> <offset()>  of subspan(bits)
     xsubb <alloc bytes> <size> <off> <nbytes>            -> the same of subspan_bytes(nbytes)
     xsub2 <alloc bytes> <size> <off> <bits_at> <size_bits> -> -3 | the same of subspan(bits_at, size_bits)
     xbits <size> <off> -> size()    xceil <size> <off> -> offset_bytes_ceil()    xalign <off> <n> -> offset after align_offset_to<n>
     xza <buf> <size> <off> -> <rc> <buf'>  setZeros()      xcpa <dst> <dsize> <doff> <src> <ssize> <soff> -> <dst'>  copyTo(dst)
     xat <size> <off> <bits> -> <size()> <offset()> of at_offset(bits)      xob <size> <off> -> offset_bytes()
     xmis <off> <n> -> <offset_misalignment(n)> <offset_alings_to(n)> <offset_alings_to_byte()>   xso <size> <off> <bits> -> <size()> <offset()> after set_offset(bits) *)
open Model

let rec pos_of_int64 (x : int64) : positive =
  let lo = Int64.logand x 1L and hi = Int64.shift_right_logical x 1 in
  if hi = 0L then XH else if lo = 0L then XO (pos_of_int64 hi) else XI (pos_of_int64 hi)
let n_of_u64 (x : int64) : n = if x = 0L then N0 else Npos (pos_of_int64 x)
let rec int64_of_pos = function
  | XH -> 1L
  | XO p -> Int64.shift_left (int64_of_pos p) 1
  | XI p -> Int64.logor (Int64.shift_left (int64_of_pos p) 1) 1L
let u64_of_n = function N0 -> 0L | Npos p -> int64_of_pos p
let n_of_int (i : int) : n = n_of_u64 (Int64.of_int i)
let int_of_n (x : n) : int = Int64.to_int (u64_of_n x)
let z_of_i64 (x : int64) : z =
  if x = 0L then Z0 else if Int64.compare x 0L > 0 then Zpos (pos_of_int64 x) else Zneg (pos_of_int64 (Int64.neg x))
let i64_of_z = function Z0 -> 0L | Zpos p -> int64_of_pos p | Zneg p -> Int64.neg (int64_of_pos p)

(* naturals: decimal (up to 2^64-1) or 0x... hexadecimal of any width *)
let n_of_hex (h : string) : n =
  let bits = List.concat_map (fun c -> let v = (match c with '0'..'9' -> Char.code c - 48 | 'a'..'f' -> Char.code c - 87 | 'A'..'F' -> Char.code c - 55 | _ -> failwith "hex") in
                                      [v land 8 <> 0; v land 4 <> 0; v land 2 <> 0; v land 1 <> 0]) (List.init (String.length h) (String.get h)) in
  (* bits: most significant first *)
  List.fold_left (fun acc b -> match acc, b with
      | N0, false -> N0 | N0, true -> Npos XH
      | Npos p, false -> Npos (XO p) | Npos p, true -> Npos (XI p)) N0 bits
let parse_u64 (s : string) : n =
  if String.length s > 2 && s.[0] = '0' && (s.[1] = 'x' || s.[1] = 'X') then n_of_hex (String.sub s 2 (String.length s - 2))
  else n_of_u64 (Int64.of_string ("0u" ^ s))
let parse_i64 (s : string) : z = z_of_i64 (Int64.of_string s)
let show_u64 (x : n) : string = Printf.sprintf "%Lu" (u64_of_n x)
let show_i64 (x : z) : string = Printf.sprintf "%Ld" (i64_of_z x)

let hexval c = match c with
  | '0'..'9' -> Char.code c - 48
  | 'a'..'f' -> Char.code c - 87
  | 'A'..'F' -> Char.code c - 55
  | _ -> failwith "hex"
let parse_buf (s : string) : n list =
  if s = "-" then [] else
  List.init (String.length s / 2) (fun i -> n_of_int (16 * hexval s.[2 * i] + hexval s.[2 * i + 1]))
let show_buf (b : n list) : string =
  if b = [] then "-" else String.concat "" (List.map (fun x -> Printf.sprintf "%02x" (int_of_n x)) b)

let show_set orig = function
  | None -> "UB"
  | Some (Inl b) -> "0 " ^ show_buf b
  | Some (Inr _) -> "-3 " ^ show_buf orig
let show_ob = function None -> "UB" | Some b -> show_buf b
let show_on = function None -> "UB" | Some v -> show_u64 v
let show_oz = function None -> "UB" | Some v -> show_i64 v

let sp b size off = { sp_data = b; sp_size = parse_u64 size; sp_off = parse_u64 off }
let zeros n = List.init n (fun _ -> N0)
let show_span nalloc s' =
  Printf.sprintf "%d %s %s" (nalloc - List.length s'.sp_data) (show_u64 (sp_bits s')) (show_u64 s'.sp_off)

let cpp_command (toks : string list) : string =
  match toks with
  | ["sat"; size; off; len] -> show_u64 (sp_saturate (sp [] size off) (parse_u64 len))
  | ["cp"; dst; doff; len; src; soff] ->
    let d = parse_buf dst and s = parse_buf src in
    show_ob (copyTo { sp_data = s; sp_size = blen s; sp_off = parse_u64 soff } { sp_data = d; sp_size = blen d; sp_off = parse_u64 doff } (parse_u64 len))
  | ["xcp"; dst; dsize; doff; len; src; ssize; soff] ->
    show_ob (copyTo (sp (parse_buf src) ssize soff) (sp (parse_buf dst) dsize doff) (parse_u64 len))
  | ["gb"; o; buf; size; off; len] -> show_ob (getBits (sp (parse_buf buf) size off) (parse_buf o) (parse_u64 len))
  | ["sb"; buf; size; off; v] -> let b = parse_buf buf in show_set b (cpp_set_bit (sp b size off) (v <> "0"))
  | ["su"; buf; size; off; v; len] -> let b = parse_buf buf in show_set b (cpp_set_uxx (sp b size off) (parse_u64 v) (parse_u64 len))
  | ["si"; buf; size; off; v; len] -> let b = parse_buf buf in show_set b (cpp_set_ixx (sp b size off) (parse_i64 v) (parse_u64 len))
  | ["gu"; w; buf; size; off; len] -> show_on (cpp_get_uxx (parse_u64 w) (sp (parse_buf buf) size off) (parse_u64 len))
  | ["gi"; w; buf; size; off; len] -> show_oz (cpp_get_ixx (parse_u64 w) (sp (parse_buf buf) size off) (parse_u64 len))
  | ["gbit"; buf; size; off] ->
    (match cpp_get_bit (sp (parse_buf buf) size off) with None -> "UB" | Some true -> "1" | Some false -> "0")
  | ["sf16"; buf; size; off; v] -> let b = parse_buf buf in show_set b (cpp_set_f16 (sp b size off) (parse_u64 v))
  | ["sf32"; buf; size; off; v] -> let b = parse_buf buf in show_set b (cpp_set_f32 (sp b size off) (parse_u64 v))
  | ["sf64"; buf; size; off; v] -> let b = parse_buf buf in show_set b (cpp_set_f64 (sp b size off) (parse_u64 v))
  | ["gf16"; buf; size; off] -> show_on (cpp_get_f16 (sp (parse_buf buf) size off))
  | ["gf32"; buf; size; off] -> show_on (cpp_get_f32 (sp (parse_buf buf) size off))
  | ["gf64"; buf; size; off] -> show_on (cpp_get_f64 (sp (parse_buf buf) size off))
  | ["f16p"; x] -> show_u64 (f16_pack (parse_u64 x))
  | ["f16u"; h] -> show_u64 (f16_unpack (parse_u64 h))
  | ["xz"; buf; size; off; len] -> let b = parse_buf buf in show_set b (setZeros (sp b size off) (parse_u64 len))
  | ["xpad"; buf; size; off; n] ->
    let b = parse_buf buf in
    (match padAndMoveToAlignment (sp b size off) (parse_u64 n) with
     | None -> "UB"
     | Some (Inr _) -> "-3 " ^ off ^ " " ^ show_buf b
     | Some (Inl (d, o)) -> "0 " ^ show_u64 o ^ " " ^ show_buf d)
  | ["xsub"; nalloc; size; off; bits] ->
    let na = int_of_string nalloc in show_span na (subspan_clamped (sp (zeros na) size off) (parse_u64 bits))
  | ["xsubb"; nalloc; size; off; nb] ->
    let na = int_of_string nalloc in show_span na (subspan_bytes_clamped (sp (zeros na) size off) (parse_u64 nb))
  | ["xsub2"; nalloc; size; off; at; sb] ->
    let na = int_of_string nalloc in
    (match subspan2 (sp (zeros na) size off) (parse_u64 at) (parse_u64 sb) with Inr _ -> "-3" | Inl s' -> show_span na s')
  | ["xza"; buf; size; off] -> let b = parse_buf buf in show_set b (setZeros_all (sp b size off))
  | ["xcpa"; dst; dsize; doff; src; ssize; soff] -> show_ob (copyTo_all (sp (parse_buf src) ssize soff) (sp (parse_buf dst) dsize doff))
  | ["xat"; size; off; bits] -> let s' = at_offset (sp [] size off) (parse_u64 bits) in show_u64 (sp_bits s') ^ " " ^ show_u64 s'.sp_off
  | ["xob"; size; off] -> show_u64 (offset_bytes (sp [] size off))
  | ["xmis"; off; n] ->
    let s0 = sp [] "0" off in
    (match offset_misalignment s0 (parse_u64 n), offset_aligns_to s0 (parse_u64 n), offset_aligns_to s0 (n_of_int 8) with
     | Some m, Some a, Some b -> Printf.sprintf "%s %d %d" (show_u64 m) (if a then 1 else 0) (if b then 1 else 0)
     | _ -> "UB")
  | ["xso"; size; off; bits] -> let s' = set_offset (sp [] size off) (parse_u64 bits) in show_u64 (sp_bits s') ^ " " ^ show_u64 s'.sp_off
  | ["xbits"; size; off] -> show_u64 (sp_bits (sp [] size off))
  | ["xceil"; size; off] -> show_u64 (offset_bytes_ceil (sp [] size off))
  | ["xalign"; off; n] -> show_u64 (align_offset_to (sp [] "0" off) (parse_u64 n)).sp_off
  | _ -> "ERR unknown command"

(* ---- Python Serializer / Deserializer: one line = one op sequence -------------------------------------------
   pyser <n> <op>;<op>;...   -> <offset> <whole buffer> <Serializer.buffer>   | EXC@<index of the raising op>
   pydes <buf> <op>;<op>;... -> <r1>,<r2>,...,<final offset>     | EXC@<index>
   ops (fields separated by ':'):
     sk:k  pad:n  bit:0|1  ub:<hex>  ab:<hex>  au:v:bits  uu:v:bits  as:v:bits  us:v:bits  u8:x u16:x u32:x u64:x  i8:x .. i64:x
     abits:<0/1 string>  ubits:<0/1 string>  af:<size>:<double hex>:<packed hex>  uf:... (floats: the model appends <packed>)
     aa:<dtype>:<hex>  ua:<dtype>:<hex>   (arrays of standard primitives given by their little-endian bytes)
     fork:n ... join
   des ops: sk:k pad:n ab:count ub:count au:bits uu:bits as:bits us:bits u8 u16 u32 u64 i8 i16 i32 i64 bit abits:count ubits:count
            af:size uf:size (bytes of the float) rem fork:n ... join *)
exception Raised
let z_of_string (s : string) : z =
  (* arbitrary precision not needed: the harness stays within int64 for signed arguments *)
  z_of_i64 (Int64.of_string s)
let rec n_of_dec (s : string) : n = parse_u64 s
let show_z (x : z) : string = show_i64 x
let bits_of_string s = List.init (String.length s) (fun i -> s.[i] = '1')
let string_of_bits l = if l = [] then "-" else String.concat "" (List.map (fun b -> if b then "1" else "0") l)
let get = function Some x -> x | None -> raise Raised

(* dtype strings like <u2, <i4, <f8: item size = the digits *)
let item_size (dt : string) : int = int_of_string (String.sub dt 2 (String.length dt - 2))
let rec nat_of_int n = if n <= 0 then O else S (nat_of_int (n - 1))
let rec chunks w (l : n list) : n list list =
  if l = [] then [] else
  let rec take k l = if k = 0 then ([], l) else match l with [] -> ([], []) | x :: t -> let (a, b) = take (k - 1) t in (x :: a, b) in
  let (a, b) = take w l in a :: chunks w b
let big_endian = ref false

let ser_op (s : ser) (op : string) : ser =
  match String.split_on_char ':' op with
  | ["aa"; dt; h] ->
    let w = item_size dt in let xs = List.map of_le_bytes (chunks w (parse_buf h)) in
    get (if !big_endian then be_add_aligned_array_std s (nat_of_int w) xs else add_aligned_array_std s (nat_of_int w) xs)
  | ["ua"; dt; h] ->
    let w = item_size dt in let xs = List.map of_le_bytes (chunks w (parse_buf h)) in
    get (if !big_endian then be_add_unaligned_array_std s (nat_of_int w) xs else add_unaligned_array_std s (nat_of_int w) xs)
  | ["sk"; k] -> skip_bits s (parse_u64 k)
  | ["pad"; k] -> get (pad_to_alignment s (parse_u64 k))
  | ["bit"; v] -> get (add_unaligned_bit s (v <> "0"))
  | ["ub"; h] -> get (add_unaligned_bytes s (parse_buf h))
  | ["ab"; h] -> get (add_aligned_bytes s (parse_buf h))
  | ["au"; v; b] -> get (add_aligned_unsigned s (parse_u64 v) (parse_u64 b))
  | ["uu"; v; b] -> get (add_unaligned_unsigned s (parse_u64 v) (parse_u64 b))
  | ["as"; v; b] -> get (add_aligned_signed s (z_of_string v) (parse_u64 b))
  | ["us"; v; b] -> get (add_unaligned_signed s (z_of_string v) (parse_u64 b))
  | ["u8"; v] -> get (add_aligned_u8 s (parse_u64 v))
  | ["u16"; v] -> get (add_aligned_u16 s (parse_u64 v))
  | ["u32"; v] -> get (add_aligned_u32 s (parse_u64 v))
  | ["u64"; v] -> get (add_aligned_u64 s (parse_u64 v))
  | ["i8"; v] -> get (add_aligned_ixx (n_of_int 8) s (z_of_string v))
  | ["i16"; v] -> get (add_aligned_ixx (n_of_int 16) s (z_of_string v))
  | ["i32"; v] -> get (add_aligned_ixx (n_of_int 32) s (z_of_string v))
  | ["i64"; v] -> get (add_aligned_ixx (n_of_int 64) s (z_of_string v))
  | ["abits"; b] -> get (add_aligned_array_of_bits s (bits_of_string (if b = "-" then "" else b)))
  | ["ubits"; b] -> get (add_unaligned_array_of_bits s (bits_of_string (if b = "-" then "" else b)))
  | ["af"; _; _; packed] -> get (add_aligned_bytes s (parse_buf packed))
  | ["uf"; _; _; packed] -> get (add_unaligned_bytes s (parse_buf packed))
  | _ -> failwith ("bad ser op " ^ op)

let run_pyser (n : string) (ops : string list) : string =
  let idx = ref 0 in
  try
    let rec go (stack : ser list) (s : ser) = function
      | [] -> (match stack with [] -> s | _ -> failwith "unbalanced fork")
      | op :: rest ->
        let k = !idx in
        incr idx;
        ignore k;
        if String.length op > 5 && String.sub op 0 5 = "fork:" then
          let f = get (ser_fork_bytes s (parse_u64 (String.sub op 5 (String.length op - 5)))) in go (s :: stack) f rest
        else if op = "join" then
          (match stack with p :: st -> go st (ser_join p s) rest | [] -> failwith "join without fork")
        else go stack (ser_op s op) rest in
    let s = go [] (ser_new (parse_u64 n)) ops in
    show_u64 s.s_off ^ " " ^ show_buf s.s_buf ^ " " ^ show_buf (ser_buffer s)
  with Raised -> "EXC@" ^ string_of_int (!idx - 1)

let run_pydes (buf : string) (ops : string list) : string =
  let idx = ref 0 in
  let out = ref [] in
  let emit s = out := s :: !out in
  try
    let rec go (stack : des list) (d : des) = function
      | [] -> d
      | op :: rest ->
        incr idx;
        let d' =
          match String.split_on_char ':' op with
          | ["sk"; k] -> des_skip_bits d (parse_u64 k)
          | ["pad"; k] -> get (des_pad_to_alignment d (parse_u64 k))
          | ["aa"; dt; c] | ["ua"; dt; c] ->
            let w = item_size dt in
            let f = if !big_endian then (if String.sub op 0 2 = "aa" then be_fetch_aligned_array_std else be_fetch_unaligned_array_std)
                    else (if String.sub op 0 2 = "aa" then fetch_aligned_array_std else fetch_unaligned_array_std) in
            let ((elems, bs), d') = get (f d (nat_of_int w) (parse_u64 c)) in
            emit (show_buf bs ^ (if dt.[1] = 'u' then "/" ^ String.concat "." (List.map show_u64 elems) else "")); d'
          | ["ab"; c] | ["af"; c] -> let (b, d') = get (fetch_aligned_bytes d (parse_u64 c)) in emit (show_buf b); d'
          | ["ub"; c] | ["uf"; c] -> let (b, d') = get (fetch_unaligned_bytes d (parse_u64 c)) in emit (show_buf b); d'
          | ["au"; b] -> let (v, d') = get (fetch_aligned_unsigned d (parse_u64 b)) in emit (show_u64 v); d'
          | ["uu"; b] -> let (v, d') = get (fetch_unaligned_unsigned d (parse_u64 b)) in emit (show_u64 v); d'
          | ["as"; b] -> let (v, d') = get (fetch_aligned_signed d (parse_u64 b)) in emit (show_z v); d'
          | ["us"; b] -> let (v, d') = get (fetch_unaligned_signed d (parse_u64 b)) in emit (show_z v); d'
          | ["u8"] | ["u16"] | ["u32"] | ["u64"] ->
            let w = int_of_string (String.sub op 1 (String.length op - 1)) in
            let (v, d') = get (fetch_aligned_uxx (n_of_int w) d) in emit (show_u64 v); d'
          | ["i8"] | ["i16"] | ["i32"] | ["i64"] ->
            let w = int_of_string (String.sub op 1 (String.length op - 1)) in
            let (v, d') = get (fetch_aligned_ixx (n_of_int w) d) in emit (show_z v); d'
          | ["bit"] -> let (v, d') = fetch_unaligned_bit d in emit (if v then "1" else "0"); d'
          | ["abits"; c] -> let (v, d') = get (fetch_aligned_array_of_bits d (parse_u64 c)) in emit (string_of_bits v); d'
          | ["ubits"; c] -> let (v, d') = get (fetch_unaligned_array_of_bits d (parse_u64 c)) in emit (string_of_bits v); d'
          | ["rem"] -> emit (show_z (des_remaining d)); d
          | ["fork"; n] -> get (des_fork_bytes d (parse_u64 n))
          | ["join"] -> (match stack with p :: _ -> p | [] -> failwith "join without fork")
          | _ -> failwith ("bad des op " ^ op) in
        let stack' = match String.split_on_char ':' op with
          | ["fork"; _] -> d :: stack
          | ["join"] -> (match stack with _ :: st -> st | [] -> [])
          | _ -> stack in
        go stack' d' rest in
    let d = go [] { d_buf = parse_buf buf; d_off = N0 } ops in
    String.concat "," (List.rev (show_u64 d.d_off :: !out))
  with Raised -> "EXC@" ^ string_of_int (!idx - 1)

(* zeb <buf> <op>;...   ZeroExtendingBuffer: gb:i (get_byte)  sl:l:r (get_unsigned_slice)  fk:o:n (fork_bytes)  bl (bit_length) *)
let run_zeb (buf : string) (ops : string list) : string =
  let b = parse_buf buf in
  let idx = ref 0 in
  try
    String.concat "," (List.map (fun op ->
      incr idx;
      match String.split_on_char ':' op with
      | ["gb"; i] -> show_u64 (get_byte b (parse_u64 i))
      | ["sl"; l; r] -> show_buf (get (get_unsigned_slice b (parse_u64 l) (parse_u64 r)))
      | ["fk"; o; n] -> show_buf (get (zeb_fork_bytes b (parse_u64 o) (parse_u64 n)))
      | ["bl"] -> show_u64 (zeb_bit_length b)
      | _ -> failwith ("bad zeb op " ^ op)) ops)
  with Raised -> "EXC@" ^ string_of_int (!idx - 1)

let py_command (toks : string list) : string =
  big_endian := (match toks with ("pyserbe" | "pydesbe") :: _ -> true | _ -> false);
  match toks with
  | ["pyserbe"; n; ops] -> run_pyser n (String.split_on_char ';' ops)
  | ["pydesbe"; buf; ops] -> run_pydes buf (String.split_on_char ';' ops)
  | ["zeb"; buf; ops] -> run_zeb buf (String.split_on_char ';' ops)
  | ["pyser"; n; ops] -> run_pyser n (String.split_on_char ';' ops)
  | ["pyser"; n] -> run_pyser n []
  | ["pydes"; buf; ops] -> run_pydes buf (String.split_on_char ';' ops)
  | ["pydes"; buf] -> run_pydes buf []
  | _ -> "ERR unknown command"

let () =
  let variant = if Array.length Sys.argv = 2 then Sys.argv.(1) else "" in
  let cpp = (variant = "cpp") in
  let py = (variant = "py") in
  let little = match variant with
    | "c-little" -> true
    | "c-any" | "py" | "cpp" -> false
    | _ -> prerr_endline "usage: driver c-any|c-little|cpp|py"; exit 2 in
  let out = Buffer.create 65536 in
  (try
    while true do
      let line = input_line stdin in
      let ans =
        try
          if cpp then cpp_command (String.split_on_char ' ' (String.trim line)) else
          if py then py_command (String.split_on_char ' ' (String.trim line)) else
          match String.split_on_char ' ' (String.trim line) with
          | ["sat"; size; off; len] -> show_u64 (saturate_fragment (parse_u64 size) (parse_u64 off) (parse_u64 len))
          | ["cp"; dst; doff; len; src; soff] ->
            show_ob (copy_bits (parse_buf dst) (parse_u64 doff) (parse_u64 len) (parse_buf src) (parse_u64 soff))
          | ["gb"; o; buf; size; off; len] ->
            show_ob (get_bits (parse_buf o) (parse_buf buf) (parse_u64 size) (parse_u64 off) (parse_u64 len))
          | ["sb"; buf; size; off; v] ->
            let b = parse_buf buf in show_set b (set_bit b (parse_u64 size) (parse_u64 off) (v <> "0"))
          | ["su"; buf; size; off; v; len] ->
            let b = parse_buf buf in show_set b (set_uxx little b (parse_u64 size) (parse_u64 off) (parse_u64 v) (parse_u64 len))
          | ["si"; buf; size; off; v; len] ->
            let b = parse_buf buf in show_set b (set_ixx little b (parse_u64 size) (parse_u64 off) (parse_i64 v) (parse_u64 len))
          | ["gu"; w; buf; size; off; len] ->
            show_on (get_uxx little (parse_u64 w) (parse_buf buf) (parse_u64 size) (parse_u64 off) (parse_u64 len))
          | ["gi"; w; buf; size; off; len] ->
            show_oz (get_ixx little (parse_u64 w) (parse_buf buf) (parse_u64 size) (parse_u64 off) (parse_u64 len))
          | ["gbit"; buf; size; off] ->
            (match get_bit little (parse_buf buf) (parse_u64 size) (parse_u64 off) with
             | None -> "UB" | Some true -> "1" | Some false -> "0")
          | ["sf32"; buf; size; off; v] ->
            let b = parse_buf buf in show_set b (set_f32 little b (parse_u64 size) (parse_u64 off) (parse_u64 v))
          | ["sf64"; buf; size; off; v] ->
            let b = parse_buf buf in show_set b (set_f64 little b (parse_u64 size) (parse_u64 off) (parse_u64 v))
          | ["sf16"; buf; size; off; v] ->
            let b = parse_buf buf in show_set b (set_f16 little b (parse_u64 size) (parse_u64 off) (parse_u64 v))
          | ["gf16"; buf; size; off] -> show_on (get_f16 little (parse_buf buf) (parse_u64 size) (parse_u64 off))
          | ["f16p"; x] -> show_u64 (f16_pack (parse_u64 x))
          | ["f16u"; h] -> show_u64 (f16_unpack (parse_u64 h))
          | ["gf32"; buf; size; off] -> show_on (get_f32 little (parse_buf buf) (parse_u64 size) (parse_u64 off))
          | ["gf64"; buf; size; off] -> show_on (get_f64 little (parse_buf buf) (parse_u64 size) (parse_u64 off))
          | _ -> "ERR unknown command"
        with e -> "ERR " ^ Printexc.to_string e in
      Buffer.add_string out ans;
      Buffer.add_char out '\n';
      if Buffer.length out > 60000 then (print_string (Buffer.contents out); Buffer.clear out)
    done
  with End_of_file -> ());
  print_string (Buffer.contents out)
