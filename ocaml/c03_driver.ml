(* C03 front end: ocaml/codec_driver.ml (same protocol, same code) plus the per-target observables of Spec/TargetsC03.v:
     pser <id> <cap_bytes> <fill> tokens...   -> like `ser`, answered by target_ser TgPy (struct.pack('<e') rounds half to even)
     tief <id> tokens...                      -> ok 1 | ok 0   no float16 field of the value holds an exact tie (no_f16_tie)
     nanc <id> <hex|->                        -> ok 1 | ok 0 | err <class>   every decoded float16 NaN is canonical
     oser <c|cpp|py> <a|b|l> <omit_float> <asserts> <id> <cap_bytes> <fill> tokens...  -> like `ser`, answered by the TARGET-SHAPED
                                              observable ObsC03.obs_ser (target_endianness any|big|little; flags are 0|1)
     odes <c|cpp|py> <a|b|l> <omit_float> <asserts> <id> <prior> <hex|->               -> like `des`, answered by ObsC03.obs_des
                                              (consumed size `-` for Python, which reports none)
   `ser` is spec_ser TgC = spec_ser TgCpp (the specification), `pser` spec_ser TgPy. *)
open Model
(* the extracted model defines Coq's `string` (used by the translated is_zero_cost_primitive); keep OCaml's for the front end *)
type string = Stdlib.String.t

exception Bad of string

let rec nat_of_int_acc n acc = if n <= 0 then acc else nat_of_int_acc (n - 1) (S acc)
let nat_of_int n = nat_of_int_acc n O
let int_of_nat n = let rec go n acc = match n with O -> acc | S m -> go m (acc + 1) in go n 0

(* Int64 (as unsigned 64-bit) <-> positive / N / Z *)
let rec pos_of_u64 (x : int64) : positive =
  if Int64.equal x 1L then XH
  else
    let rest = pos_of_u64 (Int64.shift_right_logical x 1) in
    if Int64.equal (Int64.logand x 1L) 0L then XO rest else XI rest
let n_of_u64 x = if Int64.equal x 0L then N0 else Npos (pos_of_u64 x)
let rec u64_of_pos = function
  | XH -> 1L
  | XO p -> Int64.shift_left (u64_of_pos p) 1
  | XI p -> Int64.logor (Int64.shift_left (u64_of_pos p) 1) 1L
let u64_of_n = function N0 -> 0L | Npos p -> u64_of_pos p
let z_of_i64 x =
  if Int64.equal x 0L then Z0
  else if Int64.compare x 0L > 0 then Zpos (pos_of_u64 x)
  else Zneg (pos_of_u64 (Int64.neg x))     (* Int64.neg min_int = min_int = 2^63 as unsigned: correct *)
let z_of_u64 x = if Int64.equal x 0L then Z0 else Zpos (pos_of_u64 x)

let parse_unsigned s =
  try
    if String.length s > 0 && s.[0] = '-' then raise (Bad "rejected");
    Int64.of_string ("0u" ^ s)
  with Failure _ -> raise (Bad "rejected")
let parse_signed s = try Int64.of_string s with Failure _ -> raise (Bad "rejected")
let parse_hex s = try Int64.of_string ("0x" ^ s) with Failure _ -> raise (Bad "invalid_arg")

let show_z = function
  | Z0 -> "0"
  | Zpos p -> Printf.sprintf "%Lu" (u64_of_pos p)
  | Zneg p -> let u = u64_of_pos p in
    if Int64.equal u Int64.min_int then "-9223372036854775808" else Printf.sprintf "-%Lu" u

(* ---- type database ---- *)
let db : (string, ty) Hashtbl.t = Hashtbl.create 64

let parse_type (toks : string array) (pos : int ref) : ty =
  let next () = if !pos >= Array.length toks then raise (Bad "invalid_arg") else (let t = toks.(!pos) in incr pos; t) in
  let sat () = match next () with "s" -> true | "t" -> false | _ -> raise (Bad "invalid_arg") in
  let rec go () =
    match next () with
    | "b" -> TPrim PBool
    | "u" -> let w = int_of_string (next ()) in let s = sat () in TPrim (PU (nat_of_int w, s))
    | "i" -> let w = int_of_string (next ()) in let s = sat () in TPrim (PS (nat_of_int w, s))
    | "f" -> let w = int_of_string (next ()) in let s = sat () in TPrim (PF (nat_of_int w, s))
    | "v" -> let w = int_of_string (next ()) in TPrim (PVoid (nat_of_int w))
    | "a" -> let n = int_of_string (next ()) in let e = go () in TFix (e, nat_of_int n)
    | "l" -> let n = int_of_string (next ()) in let e = go () in TVar (e, nat_of_int n)
    | "r" -> (try Hashtbl.find db (next ()) with Not_found -> raise (Bad "invalid_arg"))
    | _ -> raise (Bad "invalid_arg")
  in
  go ()

(* ---- values ---- *)
let rec list_len = function [] -> 0 | _ :: r -> 1 + list_len r

let rec parse_val (t : ty) (toks : string array) (pos : int ref) : val0 =
  let next () = if !pos >= Array.length toks then raise (Bad "invalid_arg") else (let x = toks.(!pos) in incr pos; x) in
  match t with
  | TPrim PBool -> (match next () with "0" -> VBool false | "1" -> VBool true | _ -> raise (Bad "rejected"))
  | TPrim (PU (_, _)) -> VInt (z_of_u64 (parse_unsigned (next ())))
  | TPrim (PS (_, _)) -> VInt (z_of_i64 (parse_signed (next ())))
  | TPrim (PF (_, _)) -> VFlt (n_of_u64 (parse_hex (next ())))
  | TPrim (PVoid _) -> VVoid
  | TFix (e, n) -> VArr (List.init (int_of_nat n) (fun _ -> ()) |> List.map (fun () -> parse_val e toks pos))
  | TVar (e, _) ->
    let n = (try int_of_string (next ()) with Failure _ -> raise (Bad "rejected")) in
    if n < 0 || n > 10000000 then raise (Bad "rejected");
    VArr (List.init n (fun _ -> ()) |> List.map (fun () -> parse_val e toks pos))
  | TComp (false, fs, _) -> VStruct (List.map (fun f -> parse_val f toks pos) fs)
  | TComp (true, fs, _) ->
    let k = (try int_of_string (next ()) with Failure _ -> raise (Bad "rejected")) in
    if k < 0 then raise (Bad "rejected");
    if k < list_len fs then VUnion (nat_of_int k, parse_val (List.nth fs k) toks pos)
    else VUnion (nat_of_int k, VVoid)

let rec show_val (t : ty) (v : val0) (buf : Buffer.t) : unit =
  let add s = Buffer.add_char buf ' '; Buffer.add_string buf s in
  match t, v with
  | TPrim PBool, VBool b -> add (if b then "1" else "0")
  | TPrim (PU _), VInt z | TPrim (PS _), VInt z -> add (show_z z)
  | TPrim (PF _), VFlt x -> add (Printf.sprintf "%Lx" (u64_of_n x))
  | TPrim (PVoid _), _ -> ()
  | TFix (e, _), VArr l -> List.iter (fun x -> show_val e x buf) l
  | TVar (e, _), VArr l -> add (string_of_int (list_len l)); List.iter (fun x -> show_val e x buf) l
  | TComp (false, fs, _), VStruct vs ->
    (try List.iter2 (fun f x -> show_val f x buf) fs vs with Invalid_argument _ -> add "<shape>")
  | TComp (true, fs, _), VUnion (k, x) ->
    let k = int_of_nat k in
    add (string_of_int k);
    if k < list_len fs then show_val (List.nth fs k) x buf
  | _, _ -> add "<shape>"

(* ---- bits / hex ---- *)
let hex_of_bits (bits : bool list) : string * int =
  let buf = Buffer.create 64 in
  let rec go bits acc k n =
    match bits with
    | [] -> if k > 0 then (Buffer.add_string buf (Printf.sprintf "%02x" acc); n + 1) else n
    | b :: r ->
      let acc = if b then acc lor (1 lsl k) else acc in
      if k = 7 then (Buffer.add_string buf (Printf.sprintf "%02x" acc); go r 0 0 (n + 1)) else go r acc (k + 1) n
  in
  let n = go bits 0 0 0 in
  ((if n = 0 then "-" else Buffer.contents buf), n)

let bits_of_hex (s : string) : bool list =
  if s = "-" then []
  else begin
    if String.length s mod 2 <> 0 then raise (Bad "invalid_arg");
    let n = String.length s / 2 in
    let out = ref [] in
    for i = n - 1 downto 0 do
      let byte = (try int_of_string ("0x" ^ String.sub s (2 * i) 2) with Failure _ -> raise (Bad "invalid_arg")) in
      for k = 7 downto 0 do out := ((byte lsr k) land 1 = 1) :: !out done
    done;
    !out
  end

let err_name = function
  | EBadLen -> "bad_length" | EBadTag -> "bad_tag" | EBadHdr -> "bad_header" | EShape -> "invalid_arg" | ETooSmall -> "too_small"
  | EAssert -> "assert"

let find_type id = try Hashtbl.find db id with Not_found -> raise (Bad "invalid_arg")

let bool_s b = if b then "1" else "0"

let handle (line : string) : string =
  let toks = Array.of_list (List.filter (fun t -> t <> "") (String.split_on_char ' ' (String.trim line))) in
  if Array.length toks = 0 then "err invalid_arg" else
  try
    match toks.(0) with
    | "def" ->
      let id = toks.(1) in
      let union = (match toks.(2) with "union" -> true | "struct" -> false | _ -> raise (Bad "invalid_arg")) in
      let ext = (match toks.(3) with "sealed" -> None | s -> Some (nat_of_int (int_of_string s))) in
      let nf = int_of_string toks.(4) in
      let pos = ref 5 in
      let fs = List.init nf (fun _ -> ()) |> List.map (fun () -> parse_type toks pos) in
      if !pos <> Array.length toks then raise (Bad "invalid_arg");
      Hashtbl.replace db id (TComp (union, fs, ext));
      "ok"
    | "ser" | "wser" ->
      let t = find_type toks.(1) in
      let cap = int_of_string toks.(2) in
      let pos = ref 4 in
      let v = parse_val t toks pos in
      if !pos <> Array.length toks then raise (Bad "invalid_arg");
      let fill_bits () =
        let fill = toks.(3) in
        let byte i =
          if fill = "z" then 0 else if fill = "f" then 255
          else begin
            let seed = Int64.of_string (String.sub fill 1 (String.length fill - 1)) in
            let x = Int64.add (Int64.mul 1103515245L (Int64.add seed (Int64.of_int i))) 12345L in
            Int64.to_int (Int64.logand (Int64.shift_right_logical x 16) 255L)
          end in
        let out = ref [] in
        for i = cap - 1 downto 0 do
          let b = byte i in
          for k = 7 downto 0 do out := ((b lsr k) land 1 = 1) :: !out done
        done;
        !out in
      (match (if toks.(0) = "wser" then walk_ser_obs t v (fill_bits ()) (nat_of_int cap) else ser_spec t v (nat_of_int cap)) with
       | Err e -> "err " ^ err_name e
       | Ok bits -> let (h, n) = hex_of_bits bits in Printf.sprintf "ok %d %s" n h)
    | "des" | "wdes" | "qdes" ->
      let t = find_type toks.(1) in
      let bits = bits_of_hex toks.(3) in
      (match (if toks.(0) = "qdes" then des_spec_pa t bits else if toks.(0) = "wdes" then walk_des_bits t bits else des_spec t bits) with
       | Err e -> "err " ^ err_name e
       | Ok (v, consumed) ->
         let buf = Buffer.create 64 in
         show_val t v buf;
         Printf.sprintf "ok %d%s" (int_of_nat consumed) (Buffer.contents buf))
    | "pser" ->
      let t = find_type toks.(1) in
      let cap = int_of_string toks.(2) in
      let pos = ref 4 in
      let v = parse_val t toks pos in
      if !pos <> Array.length toks then raise (Bad "invalid_arg");
      (match py_ser t v (nat_of_int cap) with
       | Err e -> "err " ^ err_name e
       | Ok bits -> let (h, n) = hex_of_bits bits in Printf.sprintf "ok %d %s" n h)
    | "oser" | "odes" ->
      let tg = (match toks.(1) with "c" -> TgC | "cpp" -> TgCpp | "py" -> TgPy | _ -> raise (Bad "invalid_arg")) in
      let flag i = (match toks.(i) with "1" -> true | "0" -> false | _ -> raise (Bad "invalid_arg")) in
      let e = (match toks.(2) with "a" -> EndAny | "b" -> EndBig | "l" -> EndLittle | _ -> raise (Bad "invalid_arg")) in
      let o = mk_options e (flag 3) (flag 4) in
      let t = find_type toks.(5) in
      if toks.(0) = "oser" then begin
        let cap = int_of_string toks.(6) in
        let fill = toks.(7) in
        let pos = ref 8 in
        let v = parse_val t toks pos in
        if !pos <> Array.length toks then raise (Bad "invalid_arg");
        let byte i =
          if fill = "z" then 0 else if fill = "f" then 255
          else begin
            let seed = Int64.of_string (String.sub fill 1 (String.length fill - 1)) in
            let x = Int64.add (Int64.mul 1103515245L (Int64.add seed (Int64.of_int i))) 12345L in
            Int64.to_int (Int64.logand (Int64.shift_right_logical x 16) 255L)
          end in
        let out = ref [] in
        for i = cap - 1 downto 0 do
          let b = byte i in
          for k = 7 downto 0 do out := ((b lsr k) land 1 = 1) :: !out done
        done;
        (match obs_ser tg o t v !out (nat_of_int cap) with
         | Err e -> "err " ^ err_name e
         | Ok bits -> let (h, n) = hex_of_bits bits in Printf.sprintf "ok %d %s" n h)
      end else begin
        let bits = bits_of_hex toks.(7) in
        (match obs_des tg o t bits with
         | Err e -> "err " ^ err_name e
         | Ok (v, consumed) ->
           let buf = Buffer.create 64 in
           show_val t v buf;
           (match consumed with
            | Some c -> Printf.sprintf "ok %d%s" (int_of_nat c) (Buffer.contents buf)
            | None -> Printf.sprintf "ok -%s" (Buffer.contents buf)))
      end
    | "tief" ->
      let t = find_type toks.(1) in
      let pos = ref 2 in
      let v = parse_val t toks pos in
      if tie_free t v then "ok 1" else "ok 0"
    | "nanc" ->
      let t = find_type toks.(1) in
      let bits = bits_of_hex toks.(2) in
      (match des_spec t bits with
       | Err e -> "err " ^ err_name e
       | Ok (v, _) -> if f16_nans_canonical t v then "ok 1" else "ok 0")
    | "msk" ->
      let t = find_type toks.(1) in
      let pos = ref 2 in
      let v = parse_val t toks pos in
      (match mask_body t v with
       | Err e -> "err " ^ err_name e
       | Ok bits -> let (h, _) = hex_of_bits bits in "ok " ^ h)
    | "cast" ->
      let t = find_type toks.(1) in
      let pos = ref 2 in
      let v = parse_val t toks pos in
      let buf = Buffer.create 64 in
      show_val t (cast_val t v) buf;
      "ok" ^ Buffer.contents buf
    | "meta" ->
      let t = find_type toks.(1) in
      let nf = (match t with TComp (true, fs, _) -> list_len fs | _ -> 0) in
      Printf.sprintf "ok align=%d bmin=%d bmax=%d fmin=%d fmax=%d extent=%d tag_bits=%d wf=%s"
        (int_of_nat (align t)) (int_of_nat (bmin t)) (int_of_nat (bmax t)) (int_of_nat (fmin t)) (int_of_nat (fmax t))
        (int_of_nat (extent t)) (if nf > 0 then int_of_nat (tag_bits (nat_of_int nf)) else 0) (bool_s (wf_ty t))
    | _ -> "err invalid_arg"
  with
  | Bad s -> "err " ^ s
  | Failure _ | Invalid_argument _ | Not_found -> "err invalid_arg"
  | Stack_overflow -> "err model_stack_overflow"

let () =
  try
    while true do
      let line = input_line stdin in
      print_string (handle line);
      print_char '\n';
      flush stdout
    done
  with End_of_file -> ()
