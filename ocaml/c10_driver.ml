(* line protocol (strings: 'e' or dot-separated decimal code points; lists: comma separated, '-' = empty):
     K <class id> <name> <base id,..|->   pydsdl class forest entry
     U <key> <class id> <body> <dep,dep,..>   universe entry
     T <cfg> <key> <item> <item> ...      script of (configuration, type): t:<str> | u:<key>:<base>:<pre>:<suf> | m:<q> | k (marker)
     N <cfg> <stem=path,..|-> <pps> <key,key,..>   construct a generator with a template listing; pps: '-' or colon-separated T | L<n> | L<n>@<count>
     R <gid> <args> <dry 0|1> <key,key,..>   generate_all of generator gid with per-call argument combination <args>, in this order
     C                                    clear caches
     X <resets 0|1> <lel_shared 0|1> <maxsize|-> <markers 0|1>   run the accumulated history in a new interpreter, print
                                          `E <cfg> <key> <clean 0|1> <text> <template path|->` per file, `END`; forget U/T/history *)
open Model

let rec pos_of_int n = if n = 1 then XH else if n land 1 = 0 then XO (pos_of_int (n lsr 1)) else XI (pos_of_int (n lsr 1))
let n_of_int n = if n = 0 then N0 else Npos (pos_of_int n)
let z_of_int n = if n = 0 then Z0 else if n > 0 then Zpos (pos_of_int n) else Zneg (pos_of_int (-n))
let rec int_of_pos = function XH -> 1 | XO p -> 2 * int_of_pos p | XI p -> 2 * int_of_pos p + 1
let int_of_n = function N0 -> 0 | Npos p -> int_of_pos p
let rec nat_of_int n = if n = 0 then O else S (nat_of_int (n - 1))

let parse_str s = if s = "e" then [] else List.map (fun t -> n_of_int (int_of_string t)) (String.split_on_char '.' s)
let show s = if s = [] then "e" else String.concat "." (List.map (fun c -> string_of_int (int_of_n c)) s)
let parse_list s = if s = "-" then [] else List.map parse_str (String.split_on_char ',' s)
let parse_pp t =
  if t = "T" then PTrim else
  let body = String.sub t 1 (String.length t - 1) in
  match String.split_on_char '@' body with
  | [n] -> PLimit (limitEmptyLines_init (z_of_int (int_of_string n)))
  | [n; c] -> PLimit { limitEmptyLines_max_empty_lines = z_of_int (int_of_string n); limitEmptyLines_empty_line_count = z_of_int (int_of_string c) }
  | _ -> failwith "pp"
let parse_pps s = if s = "-" then [] else List.map parse_pp (String.split_on_char ':' s)
let parse_item t =
  match String.split_on_char ':' t with
  | ["t"; s] -> IText (parse_str s)
  | ["u"; k; b; p; x] -> IUniq (parse_str k, parse_str b, parse_str p, parse_str x)
  | ["m"; q] -> IMemo (parse_str q)
  | ["k"] -> IMark
  | _ -> failwith ("item " ^ t)

let () =
  let u = ref [] and tab = ref [] and h = ref [] and ct = ref [] in
  let parse_ts s = if s = "-" then [] else List.map (fun t -> match String.split_on_char '=' t with
      | [a; b] -> (parse_str a, parse_str b) | _ -> failwith "tset") (String.split_on_char ',' s) in
  let parse_ids s = if s = "-" then [] else List.map (fun t -> n_of_int (int_of_string t)) (String.split_on_char ',' s) in
  try
    while true do
      let line = input_line stdin in
      (try
        match List.filter (fun t -> t <> "") (String.split_on_char ' ' (String.trim line)) with
        | ["K"; c; n; bs] -> ct := !ct @ [(n_of_int (int_of_string c), (parse_str n, parse_ids bs))]
        | ["U"; k; c; b; deps] -> u := !u @ [(parse_str k, { d_cls = n_of_int (int_of_string c); d_body = parse_str b; d_deps = parse_list deps })]
        | "T" :: c :: k :: items -> tab := !tab @ [((n_of_int (int_of_string c), parse_str k), List.map parse_item items)]
        | ["N"; c; ts; pps; ins] -> h := !h @ [ONew (n_of_int (int_of_string c), parse_ts ts, parse_pps pps, parse_list ins)]
        | ["R"; g; a; d; order] -> h := !h @ [ORun (nat_of_int (int_of_string g), n_of_int (int_of_string a), (d = "1"), parse_list order)]
        | ["C"] -> h := !h @ [OClear]
        | ["X"; r; l; m; mk] ->
          let ms = if m = "-" then None else Some (nat_of_int (int_of_string m)) in
          let es = exec_table !ct !u (mk = "1") !tab ms (r = "1") (l = "1") !h in
          List.iter (fun e -> print_string ("E " ^ string_of_int (int_of_n e.e_cfg) ^ " " ^ show e.e_key ^ " "
                                            ^ (if e.e_clean then "1" else "0") ^ " " ^ show e.e_text ^ " "
                                            ^ (match e.e_tmpl with Some p -> show p | None -> "-") ^ "\n")) es;
          print_string "END\n";
          u := []; tab := []; h := []; ct := []
        | [] -> ()
        | _ -> print_string "ERR bad line\n"
      with Failure m -> print_string ("ERR " ^ m ^ "\n"))
    done
  with End_of_file -> ()
