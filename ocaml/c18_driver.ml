(* C18 driver.  Requests, one per line (s-expressions, atoms separated by blanks / parentheses):
     db COMP ...                        set the type database; COMP = (u|s F ...), F = (S E) | (A fixed cap strlike E),
                                        E = b | u<w> | i<w> | f<w> | c<tid>
     run <quirk 0|1> <tid> OP ...       OP = (set i X) | (ufb X) | (ctor X ...) | (setin (p ...) i X) | (mut (p ...) i j X)
                                             | (iadd (p ...) i z) | (alias i X j X)        (xop of Gen/PyObj.v)
     conv DT X                          np.array(X, DT).flatten() of the model -> ok V ... | <exception>
        -> per op  "<outcome> <state>" joined by " ; ", then " | RT <same|differ|raises <exc>|tbfail> | WF <shape 0|1> <strict 0|1>"
     quirk -> 1|0                        arrelem_quirk_gen of Generated/Gen_PyObj.v;   precheck -> 1|0   t_arr_precheck tmpl_gen
     round <w> <hex>  -> hex            f_round;   ofz <int> -> hex|none;   trunc <hex> -> int;   pw <int> -> int|none
   X = (v V) | (l X ...) | (d (k X) ...) | (nd DT X ...) | (new tid X ...)
   V = N | T | F | i<dec> | f<hex> | s<cp.cp...> | y<b.b...> | (l V ...) | (d (k V) ...) | (a DT V ...)     ("s_" / "y_" = empty)
   DT = b | u<w> | i<w> | f<w> | o
   states are printed in the V syntax plus (o tid slot ...); NaN patterns print as fnan *)
open Model

type sx = A of string | L of sx list

let tokenize (s : string) : string list =
  let out = ref [] and buf = Buffer.create 16 in
  let flush () = if Buffer.length buf > 0 then (out := Buffer.contents buf :: !out; Buffer.clear buf) in
  String.iter (fun ch -> match ch with
    | '(' | ')' -> flush (); out := String.make 1 ch :: !out
    | ' ' | '\t' | '\r' | '\n' -> flush ()
    | c -> Buffer.add_char buf c) s;
  flush (); List.rev !out

let rec parse_sx toks = match toks with
  | "(" :: r -> let (items, r') = parse_list r in (L items, r')
  | ")" :: _ -> failwith "unexpected )"
  | t :: r -> (A t, r)
  | [] -> failwith "eof"
and parse_list toks = match toks with
  | ")" :: r -> ([], r)
  | [] -> failwith "unterminated"
  | _ -> let (x, r) = parse_sx toks in let (xs, r') = parse_list r in (x :: xs, r')
let rec parse_all toks = match toks with [] -> [] | _ -> let (x, r) = parse_sx toks in x :: parse_all r

(* numbers *)
let rec pos_of_int n = if n = 1 then XH else if n land 1 = 0 then XO (pos_of_int (n lsr 1)) else XI (pos_of_int (n lsr 1))
let n_of_int n = if n = 0 then N0 else Npos (pos_of_int n)
let z_of_int n = if n = 0 then Z0 else if n > 0 then Zpos (pos_of_int n) else Zneg (pos_of_int (-n))
let rec nat_of_int n = if n <= 0 then O else S (nat_of_int (n - 1))
let rec int_of_nat = function O -> 0 | S n -> 1 + int_of_nat n
let rec int_of_pos = function XH -> 1 | XO p -> 2 * int_of_pos p | XI p -> 2 * int_of_pos p + 1
let int_of_n = function N0 -> 0 | Npos p -> int_of_pos p
let int_of_z = function Z0 -> 0 | Zpos p -> int_of_pos p | Zneg p -> - (int_of_pos p)

let z_of_string (s : string) : z =
  let neg = String.length s > 0 && s.[0] = '-' in
  let digits = if neg then String.sub s 1 (String.length s - 1) else s in
  if digits = "" then failwith "int";
  let acc = ref Z0 in
  String.iter (fun c -> if c < '0' || c > '9' then failwith ("int " ^ s);
                acc := Z.add (Z.mul !acc (z_of_int 10)) (z_of_int (Char.code c - 48))) digits;
  if neg then Z.opp !acc else !acc
let n_of_hex (s : string) : n =
  let acc = ref N0 in
  String.iter (fun c -> let d = match c with '0'..'9' -> Char.code c - 48 | 'a'..'f' -> Char.code c - 87 | _ -> failwith ("hex " ^ s) in
                acc := N.add (N.mul !acc (n_of_int 16)) (n_of_int d)) s;
  !acc
let string_of_n_base (b : int) (x : n) : string =
  if x = N0 then "0" else begin
    let buf = ref [] and cur = ref x in
    while !cur <> N0 do
      let (qt, r) = N.div_eucl !cur (n_of_int b) in
      buf := "0123456789abcdef".[int_of_n r] :: !buf; cur := qt
    done;
    String.init (List.length !buf) (List.nth !buf)
  end
let string_of_z (x : z) : string = match x with
  | Z0 -> "0" | Zpos p -> string_of_n_base 10 (Npos p) | Zneg p -> "-" ^ string_of_n_base 10 (Npos p)

let parse_codes s = if s = "_" then [] else List.map (fun t -> n_of_int (int_of_string t)) (String.split_on_char '.' s)
let show_codes l = if l = [] then "_" else String.concat "." (List.map (fun c -> string_of_int (int_of_n c)) l)
let tail s = String.sub s 1 (String.length s - 1)

let parse_dt s = match s.[0] with
  | 'b' -> DBool | 'o' -> DObj
  | 'u' -> DU (z_of_string (tail s)) | 'i' -> DS (z_of_string (tail s)) | 'f' -> DF (z_of_string (tail s))
  | _ -> failwith ("dtype " ^ s)
let show_dt = function DBool -> "b" | DObj -> "o" | DU w -> "u" ^ string_of_z w | DS w -> "i" ^ string_of_z w | DF w -> "f" ^ string_of_z w

let rec parse_v (x : sx) : pyval = match x with
  | A "N" -> PNone | A "T" -> PBool true | A "F" -> PBool false
  | A s when s.[0] = 'i' -> PInt (z_of_string (tail s))
  | A s when s.[0] = 'f' -> PFloat (n_of_hex (tail s))
  | A s when s.[0] = 's' -> PStr (parse_codes (tail s))
  | A s when s.[0] = 'y' -> PBytes (parse_codes (tail s))
  | L (A "l" :: r) -> PList (List.map parse_v r)
  | L (A "d" :: r) -> PDict (List.map (function L [A k; v] -> (nat_of_int (int_of_string k), parse_v v) | _ -> failwith "dict item") r)
  | L (A "a" :: A dt :: r) -> PArr (parse_dt dt, List.map parse_v r)
  | _ -> failwith "value"

let rec parse_x (x : sx) : vexpr = match x with
  | L [A "v"; v] -> XVal (parse_v v)
  | L (A "l" :: r) -> XList (List.map parse_x r)
  | L (A "d" :: r) -> XDict (List.map (function L [A k; v] -> (nat_of_int (int_of_string k), parse_x v) | _ -> failwith "dict item") r)
  | L (A "nd" :: A dt :: r) -> XNd (parse_dt dt, List.map parse_x r)
  | L (A "new" :: A tid :: r) -> XNew (nat_of_int (int_of_string tid), List.map parse_x r)
  | _ -> failwith "vexpr"

let parse_op (x : sx) : op = match x with
  | L [A "set"; A i; e] -> OSet (nat_of_int (int_of_string i), parse_x e)
  | L [A "ufb"; e] -> OUfb (nat_of_int 200, parse_x e)
  | L (A "ctor" :: r) -> OCtor (List.map parse_x r)
  | _ -> failwith "op"

let nats l = List.map (function A k -> nat_of_int (int_of_string k) | _ -> failwith "path") l
let parse_xop (x : sx) : xop = match x with
  | L [A "setin"; L path; A i; e] -> XSetIn (nats path, nat_of_int (int_of_string i), parse_x e)
  | L [A "mut"; L path; A i; A j; e] -> XMutElem (nats path, nat_of_int (int_of_string i), nat_of_int (int_of_string j), parse_x e)
  | L [A "iadd"; L path; A i; A z] -> XIAdd (nats path, nat_of_int (int_of_string i), z_of_string z)
  | L [A "alias"; A i; a; A j; e] -> XAliasMut (nat_of_int (int_of_string i), parse_x a, nat_of_int (int_of_string j), parse_x e)
  | _ -> XBase (parse_op x)

let parse_e (s : string) : etype = match s.[0] with
  | 'b' -> EPrim KBool
  | 'u' -> EPrim (KU (z_of_string (tail s))) | 'i' -> EPrim (KS (z_of_string (tail s))) | 'f' -> EPrim (KF (z_of_string (tail s)))
  | 'c' -> EComp (nat_of_int (int_of_string (tail s)))
  | _ -> failwith ("etype " ^ s)
let parse_f (x : sx) : ftype = match x with
  | L [A "S"; A e] -> FScalar (parse_e e)
  | L [A "A"; A fx; A cap; A sl; A e] -> FArr (fx = "1", nat_of_int (int_of_string cap), sl = "1", parse_e e)
  | _ -> failwith "ftype"
let parse_comp (x : sx) : comp = match x with
  | L (A k :: fs) -> { c_union = (k = "u"); c_fields = List.map parse_f fs }
  | _ -> failwith "comp"

let is_nan_bits (x : n) : bool =
  (* exponent all ones and mantissa non-zero: compare through hex text (16 digits) *)
  let h = string_of_n_base 16 x in
  let h = String.make (max 0 (16 - String.length h)) '0' ^ h in
  let e = int_of_string ("0x" ^ String.sub h 0 3) land 0x7ff in
  e = 0x7ff && (String.sub h 3 13) <> "0000000000000"

let rec show_v (v : pyval) : string = match v with
  | PNone -> "N" | PBool true -> "T" | PBool false -> "F"
  | PInt z -> "i" ^ string_of_z z
  | PFloat x -> if is_nan_bits x then "fnan" else "f" ^ string_of_n_base 16 x
  | PStr s -> "s" ^ show_codes s
  | PBytes s -> "y" ^ show_codes s
  | PList l -> "(l" ^ String.concat "" (List.map (fun e -> " " ^ show_v e) l) ^ ")"
  | PDict l -> "(d" ^ String.concat "" (List.map (fun (k, e) -> " (" ^ string_of_int (int_of_nat k) ^ " " ^ show_v e ^ ")") l) ^ ")"
  | PArr (dt, l) -> "(a " ^ show_dt dt ^ String.concat "" (List.map (fun e -> " " ^ show_v e) l) ^ ")"
  | PObj (tid, sl) -> "(o " ^ string_of_int (int_of_nat tid) ^ String.concat "" (List.map (fun e -> " " ^ show_v e) sl) ^ ")"

let show_exc = function ValueError -> "ValueError" | TypeError -> "TypeError" | OverflowError -> "OverflowError" | AttributeError -> "AttributeError" | IndexError -> "IndexError"
let show_outcome = function None -> "ok" | Some e -> show_exc e

let db : comp list ref = ref []

let handle (line : string) : string =
  match parse_all (tokenize line) with
  | A "db" :: comps -> db := List.map parse_comp comps; "ok " ^ (if m_db_ok !db then "1" else "0")
  | A "run" :: A qs :: A tid :: ops ->
      let q = (qs = "1") and tid = nat_of_int (int_of_string tid) in
      let ops = List.map parse_xop ops in
      let tr = m_xtrace q !db tid ops in
      let final = match List.rev tr with (o, _) :: _ -> o | [] -> m_default q !db tid in
      let rt = match m_roundtrip q !db tid (nat_of_int 200) final with
        | None -> "tbfail"
        | Some ((_, o'), None) -> if show_v o' = show_v final then "same" else "differ " ^ show_v o'
        | Some ((_, _), Some e) -> "raises " ^ show_exc e in
      String.concat " ; " (List.map (fun (o, r) -> show_outcome r ^ " " ^ show_v o) tr)
      ^ " | RT " ^ rt ^ " | WF " ^ (if m_wf !db false final then "1" else "0") ^ " " ^ (if m_wf !db true final then "1" else "0")
  | [A "default"; A qs; A tid] -> show_v (m_default (qs = "1") !db (nat_of_int (int_of_string tid)))
  | [A "round"; A w; A h] -> string_of_n_base 16 (m_round (z_of_string w) (n_of_hex h))
  | [A "ofz"; A z] -> (match m_of_z (z_of_string z) with Some x -> string_of_n_base 16 x | None -> "none")
  | [A "trunc"; A h] -> string_of_z (m_trunc (n_of_hex h))
  | [A "conv"; A dt; e] ->
      (match m_conv false !db (parse_dt dt) (parse_x e) with
       | Ok l -> "ok" ^ String.concat "" (List.map (fun v -> " " ^ show_v v) l)
       | Raise ex -> show_exc ex)
  | [A "quirk"] -> if m_quirk then "1" else "0"
  | [A "precheck"] -> if m_precheck then "1" else "0"
  | [A "pw"; A w] -> (match pick_width_gen (z_of_string w) with Some o -> string_of_z o | None -> "none")
  | _ -> failwith "request"

let () =
  try
    while true do
      let line = input_line stdin in
      (try print_string (handle line) with Failure m -> print_string ("ERR " ^ m) | Not_found -> print_string "ERR not_found");
      print_newline ()
    done
  with End_of_file -> ()
