(* line protocol (one history per line, blank separated; '-' = empty list):
     <superuser 0|1> <umask> <root writable 0|1> <ancestors p=a+b+..,...> <child p=q,...> <links p=d,...> <special ids, comma sep> <entries p:cid:mode:owned:isdir,...>
     <query ids, comma sep> <event> ...
   event = R/<cfg>  |  C:<n>:<j>:<junk or ->/<cfg>
   cfg = class/allow/dryrun/linepps/filepps(+ sep; a mode = SetFileMode, x = external program)/gensup(always|never|asneeded|only)/omit/sersup(p:t + sep)/typesup/types(+ sep)/resmode
   output: one line, events separated by '|':  <ok|exists|err|crash> p=cid:mode:isdir ... (p=- when absent) *)
open Model

let rec pos_of_int n = if n = 1 then XH else if n land 1 = 0 then XO (pos_of_int (n lsr 1)) else XI (pos_of_int (n lsr 1))
let n_of_int n = if n = 0 then N0 else Npos (pos_of_int n)
let rec int_of_pos = function XH -> 1 | XO p -> 2 * int_of_pos p | XI p -> 2 * int_of_pos p + 1
let int_of_n = function N0 -> 0 | Npos p -> int_of_pos p
let rec nat_of_int n = if n <= 0 then O else S (nat_of_int (n - 1))

let split c s = if s = "-" || s = "" then [] else String.split_on_char c s
let ints c s = List.map int_of_string (split c s)
let b s = s = "1"

(* content id of generated text: a function of (class, path) only, disjoint from the ids of foreign contents (< 1000000) *)
let render _ _ c p = n_of_int (1000000 + int_of_n c * 10000 + int_of_n p)

let pairs s = List.map (fun t -> match String.split_on_char ':' t with
    | [p; k] -> (n_of_int (int_of_string p), b k) | _ -> failwith "support") (split '+' s)

let parse_cfg s =
  match String.split_on_char '/' s with
  | [cl; allow; dry; lpp; modes; gs; omit; ser; typ; types; rm] ->
    { c_class = n_of_int (int_of_string cl); c_amb = N0; c_allow = b allow; c_dryrun = b dry; c_linepps = b lpp;
      c_filepps = List.map (fun t -> if t = "x" then PPExternal (fun c -> n_of_int (int_of_n c + 400000000))
                                     else PPSetFileMode (n_of_int (int_of_string t))) (split '+' modes);
      c_gensup = (match gs with "always" -> GSAlways | "never" -> GSNever | "asneeded" -> GSAsNeeded | "only" -> GSOnly
                              | _ -> failwith "gensup");
      c_omit = b omit; c_sersup = pairs ser; c_typesup = pairs typ;
      c_types = List.map n_of_int (ints '+' types);
      c_resmode = n_of_int (int_of_string rm) }
  | _ -> failwith ("cfg " ^ s)

let () =
  try
    while true do
      let line = String.trim (input_line stdin) in
      (try
        match List.filter (fun t -> t <> "") (String.split_on_char ' ' line) with
        | su :: um :: rw :: anc :: chl :: lnk :: spc :: files :: query :: evs ->
          let anc_tab = List.map (fun t -> match String.split_on_char '=' t with
              | [p; l] -> (int_of_string p, List.map n_of_int (ints '+' l)) | _ -> failwith "anc") (split ',' anc) in
          let chl_tab = List.map (fun t -> match String.split_on_char '=' t with
              | [p; q] -> (int_of_string p, n_of_int (int_of_string q)) | _ -> failwith "child") (split ',' chl) in
          let lnk_tab = List.map (fun t -> match String.split_on_char '=' t with
              | [p; q] -> (int_of_string p, n_of_int (int_of_string q)) | _ -> failwith "link") (split ',' lnk) in
          let e = { superuser = b su; umask = n_of_int (int_of_string um); root_writable = b rw;
                    ancestors = (fun p -> try List.assoc (int_of_n p) anc_tab with Not_found -> []);
                    child = (fun p -> try List.assoc (int_of_n p) chl_tab with Not_found -> N0);
                    links = (fun p -> try Some (List.assoc (int_of_n p) lnk_tab) with Not_found -> None);
                    special = (let sp = ints ',' spc in fun p -> List.mem (int_of_n p) sp) } in
          let s0 = List.fold_left (fun s t ->
              match String.split_on_char ':' t with
              | [p; c; m; o; d] -> upd s (n_of_int (int_of_string p))
                                     { f_cid = n_of_int (int_of_string c); f_mode = n_of_int (int_of_string m); f_owned = b o; f_isdir = b d }
              | _ -> failwith "file") empty_fs (split ',' files) in
          let qs = ints ',' query in
          let show s = String.concat " " (List.map (fun p ->
              match s (n_of_int p) with
              | None -> Printf.sprintf "%d=-" p
              | Some f -> Printf.sprintf "%d=%d:%d:%d" p (int_of_n f.f_cid) (int_of_n f.f_mode) (if f.f_isdir then 1 else 0)) qs) in
          let _, outs = List.fold_left (fun (s, acc) ev ->
              match String.index_opt ev '/' with
              | None -> failwith "event"
              | Some i ->
                let head = String.sub ev 0 i and cs = String.sub ev (i + 1) (String.length ev - i - 1) in
                let c = parse_cfg cs in
                if head = "R" then
                  let (s', r) = step render e s c in
                  let rn = match r with Ok -> "ok" | Err EExists -> "exists" | Err _ -> "err" in
                  (s', (rn ^ " " ^ show s') :: acc)
                else (match String.split_on_char ':' head with
                  | ["C"; n; j; junk] ->
                    let jk = if junk = "-" then None else Some (n_of_int (int_of_string junk)) in
                    let s' = step_crash render e s c (nat_of_int (int_of_string n)) (nat_of_int (int_of_string j)) jk in
                    (s', ("crash " ^ show s') :: acc)
                  | _ -> failwith "event head")) (s0, []) evs in
          print_string (String.concat " | " (List.rev outs) ^ "\n")
        | _ -> print_string "ERR short line\n"
      with Failure m -> print_string ("ERR " ^ m ^ "\n"))
    done
  with End_of_file -> ()
