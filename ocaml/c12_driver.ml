(* line protocol (one history per line, blank separated; '-' = empty list):
     <superuser 0|1> <umask> <ids that cannot be created, comma sep> <files p:cid:mode:owned:isdir,...> <query ids, comma sep> <cfg> ...
   cfg = class/allow/dryrun/linepps/filemodes(+ sep)/gen_support/gen_types/support(p:t + sep)/types(+ sep)/resmode
   output: one line, steps separated by '|':  <ok|exists|err> p=cid:mode:isdir ... (p=- when absent) *)
open Model

let rec pos_of_int n = if n = 1 then XH else if n land 1 = 0 then XO (pos_of_int (n lsr 1)) else XI (pos_of_int (n lsr 1))
let n_of_int n = if n = 0 then N0 else Npos (pos_of_int n)
let rec int_of_pos = function XH -> 1 | XO p -> 2 * int_of_pos p | XI p -> 2 * int_of_pos p + 1
let int_of_n = function N0 -> 0 | Npos p -> int_of_pos p

let split c s = if s = "-" || s = "" then [] else String.split_on_char c s
let ints c s = List.map int_of_string (split c s)
let b s = s = "1"

(* content id of generated text: injective in (class, path) and disjoint from the ids of foreign contents (< 1000000) *)
let render c p = n_of_int (1000000 + int_of_n c * 10000 + int_of_n p)

let parse_cfg s =
  match String.split_on_char '/' s with
  | [cl; allow; dry; lpp; modes; gs; gt; sup; typ; rm] ->
    { c_class = n_of_int (int_of_string cl); c_allow = b allow; c_dryrun = b dry; c_linepps = b lpp;
      c_filepps = List.map (fun m -> n_of_int m) (ints '+' modes);
      c_gen_support = b gs; c_gen_types = b gt;
      c_support = List.map (fun t -> match String.split_on_char ':' t with
                                     | [p; k] -> (n_of_int (int_of_string p), b k) | _ -> failwith "support") (split '+' sup);
      c_types = List.map n_of_int (ints '+' typ);
      c_resmode = n_of_int (int_of_string rm) }
  | _ -> failwith ("cfg " ^ s)

let () =
  try
    while true do
      let line = String.trim (input_line stdin) in
      (try
        match List.filter (fun t -> t <> "") (String.split_on_char ' ' line) with
        | su :: um :: nocreate :: files :: query :: cfgs ->
          let nc = ints ',' nocreate in
          let e = { superuser = b su; umask = n_of_int (int_of_string um);
                    can_create = (fun p -> not (List.mem (int_of_n p) nc)) } in
          let s0 = List.fold_left (fun s t ->
              match String.split_on_char ':' t with
              | [p; c; m; o; d] -> upd s (n_of_int (int_of_string p))
                                     { f_cid = n_of_int (int_of_string c); f_mode = n_of_int (int_of_string m); f_owned = b o; f_isdir = b d }
              | _ -> failwith "file") empty_fs (split ',' files) in
          let qs = ints ',' query in
          let show s = String.concat " " (List.map (fun p ->
              match s (n_of_int p) with
              | None -> Printf.sprintf "%d=-" p
              | Some f -> Printf.sprintf "%d=%d:%d:%d" p (int_of_n f.f_cid) (int_of_n f.f_mode) (if f.f_isdir then 1 else 0)) qs) in
          let _, outs = List.fold_left (fun (s, acc) cs ->
              let c = parse_cfg cs in
              let (s', r) = step render e s c in
              let rn = match r with Ok -> "ok" | Err EExists -> "exists" | Err _ -> "err" in
              (s', (rn ^ " " ^ show s') :: acc)) (s0, []) cfgs in
          print_string (String.concat " | " (List.rev outs) ^ "\n")
        | _ -> print_string "ERR short line\n"
      with Failure m -> print_string ("ERR " ^ m ^ "\n"))
    done
  with End_of_file -> ()
