(* Line-protocol front end of the extracted C05 model (Gen/MetaC05.v).
   Type database (dependency order), same syntax as ocaml/codec_driver.ml:
     def <id> <struct|union> <sealed|EXTENT_BITS> <nfields> TYPE*      -> ok
   Requests:
     xmeta <id>       -> ok wf=<0|1> c.extent_bytes=<n> c.buffer_bytes=<n> cpp.extent_bytes=.. cpp.buffer_bytes=.. py.extent_bytes=..
                            c.union_count=<n> cpp.union_count=<n> c.caps=<n,n,..|->       (keys the model cannot evaluate: `none`)
     capchk <id> <cap_bytes>   -> ok c=<refused 1|0|none> cpp=<..>
     lit <u|s> <w> <decimal>   -> ok <token> <dm1> <dm2> <dm3>   with dmN = <bits>:<u|s>:<value> | diag     (models ip16, ilp32, lp64)
     flt <num> <den> [<oracle>] -> ok <expr> <num>/<den>|unparsable div=<0|1>   oracle = the string repr(float(num/den)) returns (used
                                  by the translated helper only when an operand of the division is out of range); the rational is the
                                  exact value of the expression (division, integral form or decimal floating constant)
     b2b <n> / fit <w>         -> ok <n> | ok none
     rule                      -> ok limit|exact   which rule selects the division form (regenerated fact float_rule)
     exact <z>                 -> ok <0|1>         the integer is exactly representable as a double (exact64)
     flag <c|cpp> <has|svc> <port|none> <0|1>  -> ok <0|1|?>  boolean flag as rendered by the scanned branches
     svcport <n|none> / svcflags / distinct <consts|-> <fields|->   service-level exports, macro name clash predicate
     tableok                   -> ok <0|1>      (table_ok && emit_ok)
     sto <c|cpp> <b|u|s|f|v> <w> <s|t>  -> ok <declared storage type|none> sat=<1|0|none>
     port <c|cpp|py> <n|none>  -> ok <n|none|?>   the fixed port id the target exports (emit condition of the template scan) *)
open Model

exception Bad of string

let rec nat_of_int_acc n acc = if n <= 0 then acc else nat_of_int_acc (n - 1) (S acc)
let nat_of_int n = nat_of_int_acc n O
let int_of_nat n = let rec go n acc = match n with O -> acc | S m -> go m (acc + 1) in go n 0

let rec pos_of_int (x : int) : positive =
  if x = 1 then XH else
    let rest = pos_of_int (x lsr 1) in
    if x land 1 = 0 then XO rest else XI rest
let n_of_int x = if x = 0 then N0 else Npos (pos_of_int x)
let rec int_of_pos = function XH -> 1 | XO p -> 2 * int_of_pos p | XI p -> 2 * int_of_pos p + 1
let int_of_n = function N0 -> 0 | Npos p -> int_of_pos p

let str_of_string (s : string) : n list = List.init (String.length s) (fun i -> n_of_int (Char.code s.[i]))
let string_of_str (l : n list) : string =
  let b = Buffer.create 32 in List.iter (fun c -> Buffer.add_char b (Char.chr (int_of_n c land 255))) l; Buffer.contents b
let z_of_string s = z_of_dec (str_of_string s)
let string_of_z z = string_of_str (py_str_int z)

let is_dec s =
  let n = String.length s in
  let st = if n > 0 && s.[0] = '-' then 1 else 0 in
  n > st && (let ok = ref true in for i = st to n - 1 do if s.[i] < '0' || s.[i] > '9' then ok := false done; !ok)

let db : (string, ty) Hashtbl.t = Hashtbl.create 64

let parse_type (toks : string array) (pos : int ref) : ty =
  let next () = if !pos >= Array.length toks then raise (Bad "invalid_arg") else (let t = toks.(!pos) in incr pos; t) in
  let sat () = match next () with "s" -> true | "t" -> false | _ -> raise (Bad "invalid_arg") in
  let rec go () =
    match next () with
    | "b" -> TPrim PBool
    | "u" -> let w = int_of_string (next ()) in let s = sat () in TPrim (PU (nat_of_int w, s))
    | "i" -> let w = int_of_string (next ()) in let s = sat () in TPrim (PS (nat_of_int w, s))
    | "f" -> let w = int_of_string (next ()) in let s = sat () in TPrim (PF (nat_of_int w, s))
    | "v" -> let w = int_of_string (next ()) in TPrim (PVoid (nat_of_int w))
    | "a" -> let n = int_of_string (next ()) in let e = go () in TFix (e, nat_of_int n)
    | "l" -> let n = int_of_string (next ()) in let e = go () in TVar (e, nat_of_int n)
    | "r" -> (try Hashtbl.find db (next ()) with Not_found -> raise (Bad "invalid_arg"))
    | _ -> raise (Bad "invalid_arg")
  in
  go ()

let find_type id = try Hashtbl.find db id with Not_found -> raise (Bad "invalid_arg")
let show_oz = function Some z -> string_of_z z | None -> "none"

let handle (line : string) : string =
  let toks = Array.of_list (List.filter (fun t -> t <> "") (String.split_on_char ' ' (String.trim line))) in
  if Array.length toks = 0 then "err invalid_arg" else
  try
    match toks.(0) with
    | "def" ->
      let id = toks.(1) in
      let union = (match toks.(2) with "union" -> true | "struct" -> false | _ -> raise (Bad "invalid_arg")) in
      let ext = (match toks.(3) with "sealed" -> None | s -> Some (nat_of_int (int_of_string s))) in
      let nf = int_of_string toks.(4) in
      let pos = ref 5 in
      let fs = List.init nf (fun _ -> ()) |> List.map (fun () -> parse_type toks pos) in
      if !pos <> Array.length toks then raise (Bad "invalid_arg");
      Hashtbl.replace db id (TComp (union, fs, ext));
      "ok"
    | "xmeta" ->
      let t = find_type toks.(1) in
      let caps = List.filter is_array (comp_fields t) |> List.map (fun f -> show_oz (exported TgtC KCap f)) in
      Printf.sprintf "ok wf=%s c.extent_bytes=%s c.buffer_bytes=%s cpp.extent_bytes=%s cpp.buffer_bytes=%s py.extent_bytes=%s c.union_count=%s cpp.union_count=%s c.caps=%s"
        (if wf_ty t then "1" else "0")
        (show_oz (exported TgtC KExtentBytes t)) (show_oz (exported TgtC KBufferBytes t))
        (show_oz (exported TgtCpp KExtentBytes t)) (show_oz (exported TgtCpp KBufferBytes t))
        (show_oz (exported TgtPy KExtentBytes t))
        (if is_union t then show_oz (exported TgtC KUnionCount t) else "-")
        (if is_union t then show_oz (exported TgtCpp KUnionCount t) else "-")
        (if caps = [] then "-" else String.concat "," caps)
    | "capchk" ->
      let t = find_type toks.(1) in
      let cap = int_of_string toks.(2) in
      if cap < 0 then raise (Bad "invalid_arg");
      let sh = function Some true -> "1" | Some false -> "0" | None -> "none" in
      let (a, b) = drv_capchecks t (nat_of_int cap) in
      Printf.sprintf "ok c=%s cpp=%s" (sh a) (sh b)
    | "lit" ->
      let u = (match toks.(1) with "u" -> true | "s" -> false | _ -> raise (Bad "invalid_arg")) in
      if not (is_dec toks.(2) && is_dec toks.(3)) then raise (Bad "invalid_arg");
      let (tok, dens) = drv_lit u (z_of_string toks.(2)) (str_of_string toks.(3)) in
      let sh = function
        | None -> "diag"
        | Some (ct, v) -> "" in
      ignore sh;
      let dms = dmodels in
      let parts = List.map2 (fun dm d -> match d with
          | None -> "diag"
          | Some (ct, v) -> Printf.sprintf "%s:%s:%s" (string_of_z (ct_bits dm ct)) (if ct_unsigned ct then "u" else "s") (string_of_z v)) dms dens in
      (* the token may contain blanks: they are written as '_' *)
      let tok_s = String.map (fun c -> if c = ' ' then '_' else c) (string_of_str tok) in
      "ok " ^ tok_s ^ " " ^ String.concat " " parts
    | "flt" ->
      if not (is_dec toks.(1) && is_dec toks.(2)) then raise (Bad "invalid_arg");
      let oracle = if Array.length toks > 3 then toks.(3) else "" in
      let ((e, r), div) = drv_flt (str_of_string oracle) (str_of_string toks.(1)) (str_of_string toks.(2)) in
      let e_s = String.map (fun c -> if c = ' ' then '_' else c) (string_of_str e) in
      let e_s = if e_s = "" then "<empty>" else e_s in
      (match r with
       | Some (n, d) -> Printf.sprintf "ok %s %s/%s div=%s" e_s (string_of_z n) (string_of_z d) (if div then "1" else "0")
       | None -> Printf.sprintf "ok %s unparsable div=%s" e_s (if div then "1" else "0"))
    | "feval" ->
      (* feval <num> <den> [<oracle>] -> ok c64=<bits|none> rn64=<bits> c32=<bits|none> rn32=<bits> p32=<bits> exact=<0|1> cert=<0|1>
         bit patterns in decimal: c64/c32 = what the C/C++ expression evaluates to (operands rounded, one division, cast), rn = the
         correctly rounded rational, p32 = the Python double cast to binary32, exact = both operands are exact doubles,
         cert = the oracle's decimal constant parses and rounds to the same double as num/den (checked in Coq) *)
      if not (is_dec toks.(1) && is_dec toks.(2)) then raise (Bad "invalid_arg");
      let oracle = if Array.length toks > 3 then toks.(3) else "" in
      let ((((((c64, rn64), c32), rn32), p32), exact), cert) = drv_feval (str_of_string oracle) (str_of_string toks.(1)) (str_of_string toks.(2)) in
      let so = function Some z -> string_of_z z | None -> "none" in
      Printf.sprintf "ok c64=%s rn64=%s c32=%s rn32=%s p32=%s exact=%s cert=%s" (so c64) (string_of_z rn64) (so c32) (string_of_z rn32)
        (string_of_z p32) (if exact then "1" else "0") (if cert then "1" else "0")
    | "rule" -> (match float_rule with DivIfBelowLimit -> "ok limit" | DivIfExactOperands -> "ok exact")
    | "exact" -> if not (is_dec toks.(1)) then raise (Bad "invalid_arg"); if exact64 (z_of_string toks.(1)) then "ok 1" else "ok 0"
    | "names" ->
      (* names <full_name> <major> <minor> -> ok <_FULL_NAME_> <_FULL_NAME_AND_VERSION_> *)
      let m = { tm_full_name = str_of_string toks.(1); tm_major = z_of_string toks.(2); tm_minor = z_of_string toks.(3) } in
      let so = function Some s -> string_of_str s | None -> "?" in
      Printf.sprintf "ok %s %s" (so (c_full_name m)) (so (c_full_name_and_version m))
    | "b2b" -> if not (is_dec toks.(1)) then raise (Bad "invalid_arg"); "ok " ^ show_oz (filter_bits2bytes_ceil (z_of_string toks.(1)))
    | "fit" -> if not (is_dec toks.(1)) then raise (Bad "invalid_arg"); "ok " ^ show_oz (get_best_fit (z_of_string toks.(1)))
    | "tableok" -> if table_ok && emit_ok && names_ok then "ok 1" else "ok 0"
    | "svcport" ->
      (* svcport <n|none> -> ok <n|none|?>  what the Python service class exports as _FIXED_PORT_ID_ *)
      let p = if toks.(1) = "none" then None else (if not (is_dec toks.(1)) then raise (Bad "invalid_arg"); Some (z_of_string toks.(1))) in
      (match exported_port_k TgtPy KSvcPortId p with Some (Some z) -> "ok " ^ string_of_z z | Some None -> "ok none" | None -> "ok ?")
    | "svcflags" ->
      (* svcflags -> ok svc=<0|1|?> issvc= req= rsp=   the C++ service wrapper's _traits_ *)
      let f nm = (match exported_flag TgtCpp (n_cpp_svc nm) None true with Some true -> "1" | Some false -> "0" | None -> "?") in
      Printf.sprintf "ok svc=%s issvc=%s req=%s rsp=%s" (f n_cpp_is_service_type) (f n_IsService) (f n_IsRequest) (f n_IsResponse)
    | "distinct" ->
      (* distinct <constant names, comma separated|-> <array field names, comma separated|-> -> ok <0|1>   c_macros_distinct *)
      let sp x = if x = "-" then [] else List.map str_of_string (String.split_on_char ',' x) in
      if c_macros_distinct (sp toks.(1)) (sp toks.(2)) then "ok 1" else "ok 0"
    | "flag" ->
      (* flag <c|cpp> <has|svc> <port|none> <is service part 0|1> -> ok <0|1|?>  value of _HAS_FIXED_PORT_ID_ / HasFixedPortID / IsServiceType *)
      let tg = (match toks.(1) with "c" -> TgtC | "cpp" -> TgtCpp | _ -> raise (Bad "invalid_arg")) in
      let nm = (match toks.(1), toks.(2) with "c", "has" -> n_c_has_port | "cpp", "has" -> n_cpp_has_port | "cpp", "svc" -> n_cpp_is_service_type
                                            | _ -> raise (Bad "invalid_arg")) in
      let p = if toks.(3) = "none" then None else (if not (is_dec toks.(3)) then raise (Bad "invalid_arg"); Some (z_of_string toks.(3))) in
      (match exported_flag tg nm p (toks.(4) = "1") with Some true -> "ok 1" | Some false -> "ok 0" | None -> "ok ?")
    | "sto" ->
      (* sto <c|cpp> <b|u|s|f|v> <w> <s|t>  -> ok <declared type>|none  ok-sat <1|0|none> *)
      let k = (match toks.(2) with "b" -> KBool | "u" -> KUInt | "s" -> KSInt | "f" -> KFloat | "v" -> KVoid | _ -> raise (Bad "invalid_arg")) in
      if not (is_dec toks.(3)) then raise (Bad "invalid_arg");
      let cm = (match toks.(4) with "s" -> CM_SATURATED | "t" -> CM_TRUNCATED | _ -> raise (Bad "invalid_arg")) in
      let t = { pty_kind = k; pty_bit_length = z_of_string toks.(3); pty_cast_mode = cm } in
      let r = (match toks.(1) with "c" -> c_filter_type_from_primitive c_lang t | "cpp" -> cpp_filter_type_from_primitive cpp_lang t
                                 | _ -> raise (Bad "invalid_arg")) in
      Printf.sprintf "ok %s sat=%s" (match r with Some s -> string_of_str s | None -> "none")
        (match is_saturated t with Some true -> "1" | Some false -> "0" | None -> "none")
    | "port" ->
      (* port <c|cpp|py> <n|none> -> ok <n|none>   (what the target exports for a type whose DSDL fixed port id is n / absent) *)
      let tg = (match toks.(1) with "c" -> TgtC | "cpp" -> TgtCpp | "py" -> TgtPy | _ -> raise (Bad "invalid_arg")) in
      let p = if toks.(2) = "none" then None else (if not (is_dec toks.(2)) then raise (Bad "invalid_arg"); Some (z_of_string toks.(2))) in
      (match exported_port tg p with
       | Some (Some z) -> "ok " ^ string_of_z z
       | Some None -> "ok none"
       | None -> "ok ?")
    | _ -> "err invalid_arg"
  with
  | Bad s -> "err " ^ s
  | Failure _ | Invalid_argument _ | Not_found -> "err invalid_arg"
  | Stack_overflow -> "err model_stack_overflow"

let () =
  try
    while true do
      let line = input_line stdin in
      print_string (handle line);
      print_char '\n';
      flush stdout
    done
  with End_of_file -> ()
