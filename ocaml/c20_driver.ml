(* line protocol (strings are 'e' or dot-separated decimal code points):
   SITE <F|C> <sexp>   -> per page:  PAGE <dir comps joined by '/'|-> <file> <pieces_ok> <scan_wf> / R <region> ... / I <id>... / H <href>:<0|1>... ; then END
   ESC <s>             -> ESC <html.escape> <markupsafe escape> <unescape(html.escape)> <unescape(markupsafe)> <no_markup both>
   SINK <0|1> <s>      -> SINK <0|1>
   AE <name>           -> AE <0|1>   (autoescape_selected)
   DISP <DT|DI sexp>   -> DISP <filter_display_type of the node>   (translated filter)
   CFG                 -> CFG <9 flags of faithful_cfg> <docs_escaped> <lk_up> <url_links_service> <all sinks escaped> <all skeletons balanced> ; one  T <name> <autoescape 0|1>  per template name; END
   TAG <is_array> <elem_str> <full_name> <major> <minor> <root> <full_namespace> <has_parent>  -> TAG <tag_id> <url>
   UNIQ <s> <s> ...    -> UNIQ <r> <r> ...   (one UniqueNameGenerator state, in order)
   NSDOC (<sn> <doc>)... -> NSDOC <doc>
   sexp:
     site := (site NS...)
     NS   := (ns name (docs (sn doc)...) (types (sn TY)...) NS...)
     TY   := (comp full major minor root fullns hasparent dep port|- union svc svcreq doc ATTR...) | (arr elemstr dep DT TY) | (prim s)
     ATTR := (nested name doc TY) | (plain DI isfield lenbytes doc)
     DT   := (dprim sat s) | (dfix DT cap) | (dvar DT cap) | (dother s)
     DI   := (dpad s) | (dfield DT name) | (dconst DT name val) *)
open Model

let rec pos_of_int n = if n = 1 then XH else if n land 1 = 0 then XO (pos_of_int (n lsr 1)) else XI (pos_of_int (n lsr 1))
let n_of_int n = if n = 0 then N0 else Npos (pos_of_int n)
let z_of_int n = if n = 0 then Z0 else if n > 0 then Zpos (pos_of_int n) else Zneg (pos_of_int (-n))
let rec int_of_pos = function XH -> 1 | XO p -> 2 * int_of_pos p | XI p -> 2 * int_of_pos p + 1
let int_of_n = function N0 -> 0 | Npos p -> int_of_pos p

let pstr s = if s = "e" then [] else List.map (fun t -> n_of_int (int_of_string t)) (String.split_on_char '.' s)
let show s = if s = [] then "e" else String.concat "." (List.map (fun c -> string_of_int (int_of_n c)) s)
let pbool s = s = "1"
let sbool b = if b then "1" else "0"

type sx = A of string | L of sx list

let parse_sexp (s : string) : sx =
  let n = String.length s in
  let pos = ref 0 in
  let rec skip () = if !pos < n && (s.[!pos] = ' ' || s.[!pos] = '\t') then (incr pos; skip ()) in
  let rec item () =
    skip ();
    if !pos >= n then failwith "eof"
    else if s.[!pos] = '(' then begin
      incr pos;
      let items = ref [] in
      let rec loop () =
        skip ();
        if !pos >= n then failwith "unclosed"
        else if s.[!pos] = ')' then incr pos
        else (items := item () :: !items; loop ()) in
      loop ();
      L (List.rev !items)
    end else begin
      let st = !pos in
      while !pos < n && s.[!pos] <> ' ' && s.[!pos] <> '(' && s.[!pos] <> ')' do incr pos done;
      A (String.sub s st (!pos - st))
    end in
  item ()

let atom = function A s -> s | L _ -> failwith "atom expected"

let rec dt = function
  | L [A "dprim"; sat; s] -> DPrim (pbool (atom sat), pstr (atom s))
  | L [A "dfix"; e; cap] -> DFix (dt e, z_of_int (int_of_string (atom cap)))
  | L [A "dvar"; e; cap] -> DVar (dt e, z_of_int (int_of_string (atom cap)))
  | L [A "dother"; s] -> DOther (pstr (atom s))
  | _ -> failwith "dtype"

let di = function
  | L [A "dpad"; s] -> DPad (pstr (atom s))
  | L [A "dfield"; d; nm] -> DField (dt d, pstr (atom nm))
  | L [A "dconst"; d; nm; v] -> DConst (dt d, pstr (atom nm), pstr (atom v))
  | _ -> failwith "dinst"

let rec ty = function
  | L (A "comp" :: full :: major :: minor :: root :: fullns :: haspar :: dep :: port :: union :: svc :: svcreq :: doc :: attrs) ->
    let ti = { ti_is_array = false; ti_elem_str = []; ti_full_name = pstr (atom full);
               ti_major = z_of_int (int_of_string (atom major)); ti_minor = z_of_int (int_of_string (atom minor));
               ti_root_ns = pstr (atom root); ti_full_namespace = pstr (atom fullns); ti_has_parent = pbool (atom haspar) } in
    let c = { ci_t = ti; ci_deprecated = pbool (atom dep);
              ci_port = (if atom port = "-" then None else Some (z_of_int (int_of_string (atom port))));
              ci_union = pbool (atom union); ci_service = pbool (atom svc); ci_svc_request = pbool (atom svcreq);
              ci_doc = pstr (atom doc) } in
    Comp (c, attrs_of attrs)
  | L [A "arr"; es; dep; d; e] -> Arr (pstr (atom es), pbool (atom dep), dt d, ty e)
  | L [A "prim"; s] -> Prim (pstr (atom s))
  | _ -> failwith "ty"
and attrs_of = function
  | [] -> ANil
  | L [A "nested"; nm; doc; t] :: r -> ANested (pstr (atom nm), pstr (atom doc), ty t, attrs_of r)
  | L [A "plain"; d; isf; lb; doc] :: r -> APlain (di d, pbool (atom isf), pbool (atom lb), pstr (atom doc), attrs_of r)
  | _ -> failwith "attr"

let rec ns = function
  | L (A "ns" :: name :: L (A "docs" :: docs) :: L (A "types" :: types) :: subs) ->
    let docs' = List.map (function L [a; b] -> (pstr (atom a), pstr (atom b)) | _ -> failwith "docs") docs in
    let types' = List.map (function L [a; t] -> (pstr (atom a), ty t) | _ -> failwith "types") types in
    NS (pstr (atom name), docs', types', nsl subs)
  | _ -> failwith "ns"
and nsl = function [] -> NNil | x :: r -> NCons (ns x, nsl r)

let site = function L (A "site" :: roots) -> List.map ns roots | _ -> failwith "site"

let words l = List.filter (fun t -> t <> "") (String.split_on_char ' ' (String.trim l))

let () =
  try
    while true do
      let line = input_line stdin in
      (try
        match words line with
        | "SITE" :: mode :: _ ->
          let i = String.index line '(' in
          let sx = parse_sexp (String.sub line i (String.length line - i)) in
          let cf = if mode = "C" then conformant_cfg else faithful_cfg in
          let pages = site_out cf (site sx) in
          List.iter (fun p ->
              let dir = if p.po_dir = [] then "-" else String.concat "/" (List.map show p.po_dir) in
              print_string (Printf.sprintf "PAGE %s %s %s %s\n" dir (show p.po_file) (sbool p.po_pieces_ok) (sbool p.po_scan_wf));
              List.iter (fun r -> print_string ("R " ^ show r ^ "\n")) p.po_regions;
              print_string ("I " ^ String.concat " " (List.map show p.po_ids) ^ "\n");
              print_string ("H " ^ String.concat " " (List.map (fun (h, ok) -> show h ^ ":" ^ sbool ok) p.po_hrefs) ^ "\n"))
            pages;
          print_string "END\n"
        | ["ESC"; s] ->
          let s = pstr s in
          let a = html_escape s and b = markupsafe_escape s in
          print_string (Printf.sprintf "ESC %s %s %s %s %s\n" (show a) (show b) (show (unescape a)) (show (unescape b))
                          (sbool (no_markup a && no_markup b)))
        | ["SINK"; b; s] -> print_string ("SINK " ^ sbool (sink_is_text (pbool b) (pstr s)) ^ "\n")
        | "DISP" :: _ ->
          let i = String.index line '(' in
          let sx = parse_sexp (String.sub line i (String.length line - i)) in
          let node = (match sx with
              | L (A ("dpad" | "dfield" | "dconst") :: _) -> node_of_dinst (di sx)
              | _ -> node_of_dtype (dt sx)) in
          print_string ("DISP " ^ show (filter_display_type node) ^ "\n")
        | ["AE"; s] -> print_string ("AE " ^ sbool (autoescape_selected (pstr s)) ^ "\n")
        | ["CFG"] ->
          let c = faithful_cfg in
          print_string ("CFG " ^ String.concat " " (List.map sbool
            [c.ae_ti; c.de_ti; c.ae_ni; c.de_ni; c.ae_sb; c.de_sb; c.ae_tb; c.de_tb; c.ae_ns; cfg_docs_escaped c; c.lk_up; url_links_service;
             all_dsdl_text_sinks_escaped; table_balanced html_skeletons; sinks_classified_safe; c.lk_us; ns_ids_dashed]) ^ "\n");
          List.iter (fun n -> print_string (Printf.sprintf "T %s %s\n" (show n) (sbool (autoescape_selected n)))) html_template_names;
          print_string "END\n"
        | ["TAG"; ia; es; full; major; minor; root; fullns; haspar] ->
          let ti = { ti_is_array = pbool ia; ti_elem_str = pstr es; ti_full_name = pstr full;
                     ti_major = z_of_int (int_of_string major); ti_minor = z_of_int (int_of_string minor); ti_root_ns = pstr root;
                     ti_full_namespace = pstr fullns; ti_has_parent = pbool haspar } in
          print_string (Printf.sprintf "TAG %s %s\n" (show (filter_tag_id ti)) (if pbool ia then "-" else show (filter_url_from_type ti)))
        | "UNIQ" :: ss ->
          let st = ref ung_reset in
          let outs = List.map (fun s -> let (st', r) = filter_make_unique !st (pstr s) in st := st'; show r) ss in
          print_string ("UNIQ " ^ String.concat " " outs ^ "\n")
        | "NSDOC" :: _ ->
          let i = try String.index line '(' with Not_found -> -1 in
          let docs = if i < 0 then [] else
              match parse_sexp ("(" ^ String.sub line i (String.length line - i) ^ ")") with
              | L items -> List.map (function L [a; b] -> (pstr (atom a), pstr (atom b)) | _ -> failwith "nsdoc") items
              | _ -> [] in
          print_string ("NSDOC " ^ show (filter_namespace_doc docs) ^ "\n")
        | _ -> print_string "ERR unknown command\n"
      with Failure m -> print_string ("ERR " ^ m ^ "\n") | Not_found -> print_string "ERR not_found\n")
    done
  with End_of_file -> ()
