(* line protocol (strings: 'e' or dot-separated decimal code points):
   S <B|K|Bt|Kt> <src> <k1,k2,...|->   -> OK <kind>/<value> ...   | ERR      (B bundled rules, K stock rules; ks = characters
                                     consumed by each visit of the block/variable state, taken from the real lexer)
   X <B|U> <combo> <src> <ks>    -> OK <kind>/<value> ... | ERR   (generic scanner, regenerated rules of option combination <combo>)
   F <combo> <src>               -> OK 0|1   (marker_free)
   P <B|U> <combo> <sv> <sb> <src> <ctx> <visits> -> OK <output> | ERR   (whole pipeline model, Gen/JinjaMini.v)
   R <src>                       -> OK <data> <name> <value> <rest> | NONE   (stock 3.1 root step)
   L <s> <prefix>                -> OK <text>                                 (do_lineprefix as translated from /repo)
   LM <0|1> <s> <prefix>         -> OK <text>      (lineprefix_legacy / lineprefix_keep)
   V <token value> <rendering>   -> OK <text>      (variable_begin branch of subparse, rendered)
   B <token value> <r1> <r2> ... -> OK <text>      (block_begin branch of subparse, rendered)
   M <src>                       -> OK 0|1         (has_marker)
   I <else> <neg,q,body> ...     -> OK <n>         (ifuses: first clause + elif clauses)
   Q <scripts> <step> ...        -> OK <n> ...     (ifuses renders in one environment, scripted changing answers)
   T <0|1>                       -> OK out|raise   (assert) *)
open Model

let rec pos_of_int n = if n = 1 then XH else if n land 1 = 0 then XO (pos_of_int (n lsr 1)) else XI (pos_of_int (n lsr 1))
let n_of_int n = if n = 0 then N0 else Npos (pos_of_int n)
let rec int_of_pos = function XH -> 1 | XO p -> 2 * int_of_pos p | XI p -> 2 * int_of_pos p + 1
let int_of_n = function N0 -> 0 | Npos p -> int_of_pos p
let rec nat_of_int n = if n <= 0 then O else S (nat_of_int (n - 1))

let parse s = if s = "e" then [] else List.map (fun t -> n_of_int (int_of_string t)) (String.split_on_char '.' s)
let show s = if s = [] then "e" else String.concat "." (List.map (fun c -> string_of_int (int_of_n c)) s)
let ascii s = String.concat "" (List.map (fun c -> String.make 1 (Char.chr (int_of_n c))) s)

let () =
  try
    while true do
      let line = input_line stdin in
      let out =
        try
          match List.filter (fun t -> t <> "") (String.split_on_char ' ' (String.trim line)) with
          | ["S"; which; src; ks] ->
            let q = ref (if ks = "-" then [] else List.map int_of_string (String.split_on_char ',' ks)) in
            let block_var _ _ = match !q with [] -> None | k :: r -> q := r; Some ([], nat_of_int k) in
            let inner = if String.length which > 1 && which.[1] = 't' then inner_with_trim block_var else inner_with block_var in
            let r = if which.[0] = 'B' then scan_bundled inner (parse src) else scan_stock inner (parse src) in
            (match r with
             | None -> "ERR"
             | Some toks -> String.concat " " ("OK" :: List.map (fun (k, v) -> ascii k ^ "/" ^ show v) toks))
          | ["X"; which; idx; src; ks] ->
            (* which: B bundled rule list of option combination idx, U the same with the marker alternatives deleted *)
            let q = ref (if ks = "-" then [] else List.map int_of_string (String.split_on_char ',' ks)) in
            let tags _ _ = match !q with [] -> None | k :: r -> q := r; Some ([], nat_of_int k) in
            let i = nat_of_int (int_of_string idx) in
            let r = if which = "B" then scan_combo i tags (parse src) else scan_combo_upstream i tags (parse src) in
            (match r with
             | None -> "ERR"
             | Some toks -> String.concat " " ("OK" :: List.map (fun (k, v) -> ascii k ^ "/" ^ show v) toks))
          | ["P"; which; idx; svs; sbs; src; ctx; visits] ->
            (* the whole pipeline model (Gen/JinjaMini.v): which = B (bundled rules + the marker decision of the code in /repo),
               L / A (bundled rules + legacy / delimiter-aware marker decision), U (upstream: no marker alternatives, never a marker);
               svs/sbs: start strings for variable / block tokens (comma separated, '-' none); ctx: name~I<n> | name~S<str> | name~L<n.n.n>;
               visits: for every block/variable/line-statement state visit  k|kind/value,kind/value,...  separated by ';' *)
            let strs t = if t = "-" then [] else List.map parse (String.split_on_char ',' t) in
            let cv t = match String.index_opt t '~' with
              | None -> failwith "ctx"
              | Some i ->
                let name = parse (String.sub t 0 i) and tag = t.[i + 1] and rest = String.sub t (i + 2) (String.length t - i - 2) in
                (name, (match tag with
                    | 'I' -> VInt (n_of_int (int_of_string rest))
                    | 'S' -> VStr (parse rest)
                    | 'L' -> VList (if rest = "e" then [] else List.map (fun x -> n_of_int (int_of_string x)) (String.split_on_char '.' rest))
                    | _ -> VUndef)) in
            let c = if ctx = "-" then [] else List.map cv (String.split_on_char ',' ctx) in
            let visit t = match String.split_on_char '|' t with
              | [k; toks] ->
                (nat_of_int (int_of_string k),
                 if toks = "" then [] else List.map (fun kv -> match String.split_on_char '/' kv with
                     | [kd; v] -> (parse kd, parse v) | _ -> failwith "tok") (String.split_on_char ',' toks))
              | _ -> failwith "visit" in
            let q = ref (if visits = "-" then [] else List.map visit (String.split_on_char ';' visits)) in
            let tags _ _ = match !q with [] -> None | (k, toks) :: r -> q := r; Some (toks, k) in
            let i = nat_of_int (int_of_string idx) in
            let fuel = nat_of_int 400 in
            let sv = strs svs and sb = strs sbs in
            let r = match which with
              | "B" -> mini_bundled i sv sb tags fuel (parse src) c
              | "U" -> mini_upstream i tags fuel (parse src) c
              | _ -> failwith "which" in
            (match r with None -> "ERR" | Some o -> "OK " ^ show o)
          | ["F"; idx; src] -> if marker_free_combo (nat_of_int (int_of_string idx)) (parse src) then "OK 1" else "OK 0"
          | ["R"; src] ->
            (match root_step31 (parse src) with
             | None -> "NONE"
             | Some (((d, n), v), rest) -> String.concat " " ["OK"; show d; ascii n; show v; show rest])
          | ["LM"; m; s; p] -> "OK " ^ show (lineprefix_m (m = "1") (parse s) (parse p))
          | ["L"; s; p] -> "OK " ^ show (do_lineprefix (parse s) (parse p))
          | ["V"; value; r] ->
            (match render_node (fun x -> x) builtin_filters (subparse_variable (code_marker [parse "123.123"] (parse value)) (parse r)) with
             | None -> "ERR" | Some t -> "OK " ^ show t)
          | "B" :: value :: rs ->
            (match render_all (fun x -> x) (subparse_block (code_marker [parse "123.37"] (parse value)) (List.map parse rs)) with
             | None -> "ERR" | Some t -> "OK " ^ show t)
          | ["M"; src] -> if has_marker (parse src) then "OK 1" else "OK 0"
          | "I" :: els :: first :: rest ->
            let cl t = match String.split_on_char ',' t with
              | [n; q; b] -> ((n = "1", q = "1"), int_of_string b) | _ -> failwith "clause" in
            "OK " ^ string_of_int (eval_if (parse_ifuses (cl first) (List.map cl rest) (int_of_string els)))
          | "Q" :: scripts :: steps ->
            (* scripts: q:1.0.1,q:0   steps: else/neg,q,body/neg,q,body ... (first clause, then elif clauses) *)
            let bools t = List.map (fun c -> c = "1") (String.split_on_char '.' t) in
            let sc = if scripts = "-" then [] else List.map (fun t -> match String.split_on_char ':' t with
                | [q; l] -> (n_of_int (int_of_string q), bools l) | _ -> failwith "script") (String.split_on_char ',' scripts) in
            let cl t = match String.split_on_char ',' t with
              | [n; q; b] -> ((n = "1", n_of_int (int_of_string q)), n_of_int (int_of_string b)) | _ -> failwith "clause" in
            let step t = match String.split_on_char '/' t with
              | els :: first :: rest -> ((cl first, List.map cl rest), n_of_int (int_of_string els)) | _ -> failwith "step" in
            String.concat " " ("OK" :: List.map (fun b -> string_of_int (int_of_n b)) (render_ifuses_script (List.map step steps) sc))
          | ["T"; t] -> (match render_assert (t = "1") with Out _ -> "OK out" | Raise -> "OK raise")
          | _ -> "BAD"
        with _ -> "EXC"
      in
      print_string (out ^ "\n")
    done
  with End_of_file -> ()
