(* C11 driver: runs the extracted Namespace model on cases read from stdin.
   encoding: str = dot-separated decimal code points, 'e' for ""; key/path = comma-separated strs, '-' for [];
             type = <key>|<short>|<major>|<minor>
   input:   CASE <es:0|1> <ext> <stem> <outdir> <perm mode> <cperm mode> <eqkey: 0 = same (current code), 1 = strop (before fix f08a0a1)>
            S <name> <stropped>          (table of Language.filter_id(name, "path"); identity elsewhere)
            T <type>
            GO
            SN <support_namespace>       (optional: the support files' folder is computed too: SUP line, or RAISE)
            P <key>                      (optional priority list for perm mode 4, most urgent first)
   perm modes: 0 identity, 1 reverse, 2 sorted, 3 reverse sorted, 4 keys of the P list first (in P order), the rest after
               in their original order; 5 the model's sort_keys = name order of get_nested_namespaces since fix 9b93945 (used to replay the set iteration order observed on the implementation)
   output:  ROOT, FOLD (the Coq trigger predicate ns_fold), NODE, NTY, ALL, DT, NSP, FIND, INC lines (see below), terminated by END *)
open Model

let rec pos_of_int n = if n = 1 then XH else if n land 1 = 0 then XO (pos_of_int (n lsr 1)) else XI (pos_of_int (n lsr 1))
let n_of_int n = if n = 0 then N0 else Npos (pos_of_int n)
let rec int_of_pos = function XH -> 1 | XO p -> 2 * int_of_pos p | XI p -> 2 * int_of_pos p + 1
let int_of_n = function N0 -> 0 | Npos p -> int_of_pos p

let parse_str s = if s = "e" then [] else List.map (fun t -> n_of_int (int_of_string t)) (String.split_on_char '.' s)
let show_str s = if s = [] then "e" else String.concat "." (List.map (fun c -> string_of_int (int_of_n c)) s)
let parse_key s = if s = "-" then [] else List.map parse_str (String.split_on_char ',' s)
let show_key k = if k = [] then "-" else String.concat "," (List.map show_str k)
let parse_ty s =
  match String.split_on_char '|' s with
  | [k; sh; ma; mi] -> { t_ns = parse_key k; t_short = parse_str sh; t_major = n_of_int (int_of_string ma); t_minor = n_of_int (int_of_string mi) }
  | _ -> failwith ("bad type " ^ s)
let show_ty t = String.concat "|" [show_key t.t_ns; show_str t.t_short; string_of_int (int_of_n t.t_major); string_of_int (int_of_n t.t_minor)]

let order prio mode l =
  match mode with
  | 0 -> l
  | 1 -> List.rev l
  | 2 -> List.sort compare l
  | 3 -> List.rev (List.sort compare l)
  | 5 -> sort_keys l      (* the extracted order of Namespace.get_nested_namespaces (current code) *)
  | _ -> List.filter (fun k -> List.mem k l) prio @ List.filter (fun k -> not (List.mem k prio)) l

let run es ext stem outdir pm cm qf table prio sn types =
  let strop x = match List.assoc_opt x table with Some y -> y | None -> x in
  let perm = order prio pm and cperm = order prio cm in
  let ek = if qf then strop else same in
  (* regenerated from /repo: does Namespace.__init__ validate the stem / does build_namespace_tree have the collision check? *)
  (* support files (only when an SN line was given): None = Language.support_namespace raises *)
  let sup = match sn with None -> Some [] | Some x -> support_targets pin_c11support_ns_validated outdir x [parse_str "102"] in
  match sup, build_checked pin_c11path_stem_validated pin_c11tree_stem_check strop ek es ext stem outdir perm types with
  | None, _ | _, None -> print_string "RAISE\nEND\n"
  | Some sl, Some (s, root) ->
  List.iter (fun p -> Printf.printf "SUP %s\n" (show_key p)) sl;
  print_string ("ROOT " ^ show_key root ^ "\n");
  print_string ("FOLD " ^ (if ns_fold strop types then "1" else "0") ^ "\n");
  List.iter (fun (k, n) ->
      Printf.printf "NODE %s %s %s %s\n" (show_key k)
        (match n.n_parent with Some p -> show_key p | None -> "-")
        (if n.n_children = [] then "-" else String.concat ";" (List.map show_key n.n_children))
        (show_key (ns_path strop ext stem outdir k));
      Printf.printf "KIDS %s %s\n" (show_key k)
        (if n.n_children = [] then "-" else String.concat ";" (List.map show_key (cperm n.n_children)));
      List.iter (fun (t, p) -> Printf.printf "NTY %s %s %s\n" (show_key k) (show_ty t) (show_key p)) n.n_types) s;
  List.iter (function
      | INs (k, p) -> Printf.printf "ALL N %s %s\n" (show_key k) (show_key p)
      | ITy (t, p) -> Printf.printf "ALL T %s %s\n" (show_ty t) (show_key p))
    (get_all_types strop ext stem outdir cperm s root);
  List.iter (fun (t, p) -> Printf.printf "DT %s %s\n" (show_ty t) (show_key p)) (get_all_datatypes cperm s root);
  List.iter (fun (k, p) -> Printf.printf "NSP %s %s\n" (show_key k) (show_key p)) (get_all_namespaces strop ext stem outdir cperm s root);
  List.iter (fun (k, _) ->
      List.iter (fun t ->
          Printf.printf "FIND %s %s %s\n" (show_key k) (show_ty t)
            (match find_output_path ek cperm s k t with
             | Some p -> show_key p ^ " " ^ show_key (relative_to_outdir outdir p)
             | None -> "NONE NONE")) types) s;
  List.iter (fun t -> Printf.printf "INC %s %s\n" (show_ty t) (show_key (include_path strop es ext t))) types;
  print_string "END\n"

let () =
  let cfg = ref None and table = ref [] and types = ref [] and prio = ref [] and sn = ref None in
  try
    while true do
      let line = String.trim (input_line stdin) in
      match String.split_on_char ' ' line with
      | ["CASE"; es; ext; stem; outdir; pm; cm; qf] ->
        cfg := Some (es = "1", parse_str ext, parse_str stem, parse_key outdir, int_of_string pm, int_of_string cm, qf = "1");
        table := []; types := []; prio := []; sn := None
      | ["S"; a; b] -> table := (parse_str a, parse_str b) :: !table
      | ["T"; t] -> types := parse_ty t :: !types
      | ["P"; k] -> prio := parse_key k :: !prio
      | ["SN"; x] -> sn := Some (parse_str x)
      | ["GO"] ->
        (match !cfg with
         | Some (es, ext, stem, outdir, pm, cm, qf) ->
           (try run es ext stem outdir pm cm qf !table (List.rev !prio) !sn (List.rev !types)
            with e -> print_string ("ERR " ^ Printexc.to_string e ^ "\nEND\n"))
         | None -> print_string "ERR no case\nEND\n")
      | [""] -> ()
      | _ -> print_string ("ERR bad line " ^ line ^ "\nEND\n")
    done
  with End_of_file -> ()
