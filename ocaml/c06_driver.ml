(* line protocol (see tools/checks/c06.py model_lines):
   CASE <c|cpp|py> <std 0|14|17|20> <std|pmr> <pod 0|1> <quirk_union 0|1> <ntypes>
   TYPE <ns.dotted> <short> <major> <minor> <S|U|V> <isinstance_union 0|1> <req_union 0|1> <resp_union 0|1> <attr>... | -
     attr: b i f v | A<attr> | V<attr> | C:<ns.dotted>:<short>:<major>:<minor>
   output per case: BEGIN / FILE p / INC .. / GUARD g / NSO .. / NSC .. / IMP .. / NSFILE p / SUPPORT p / END *)
open Model

let rec pos_of_int n = if n = 1 then XH else if n land 1 = 0 then XO (pos_of_int (n lsr 1)) else XI (pos_of_int (n lsr 1))
let n_of_int n = if n = 0 then N0 else Npos (pos_of_int n)
let rec int_of_pos = function XH -> 1 | XO p -> 2 * int_of_pos p | XI p -> 2 * int_of_pos p + 1
let int_of_n = function N0 -> 0 | Npos p -> int_of_pos p
let str_of s = List.init (String.length s) (fun i -> n_of_int (Char.code s.[i]))
let show s = String.concat "" (List.map (fun c -> String.make 1 (Char.chr (int_of_n c land 255))) s)

let tyid ns short ma mi = { ti_ns = List.map str_of (String.split_on_char '.' ns); ti_short = str_of short;
                            ti_major = n_of_int (int_of_string ma); ti_minor = n_of_int (int_of_string mi) }
let rec parse_attr s =
  if s = "b" then DBool else if s = "i" then DInt else if s = "f" then DFloat else if s = "v" then DVoid
  else if s.[0] = 'A' then DFix (parse_attr (String.sub s 1 (String.length s - 1)))
  else if s.[0] = 'V' then DVar (parse_attr (String.sub s 1 (String.length s - 1)))
  else match String.split_on_char ':' s with
    | ["C"; ns; short; ma; mi] -> DComp (tyid ns short ma mi)
    | _ -> failwith ("bad attr " ^ s)

let parse_type l =
  match String.split_on_char ' ' l with
  | "TYPE" :: ns :: short :: ma :: mi :: kind :: iu :: ru :: pu :: attrs ->
    let attrs = List.filter (fun a -> a <> "" && a <> "-") attrs in
    let is_u = iu = "1" in
    let any_u = kind = "U" || ru = "1" || pu = "1" in
    { td_id = tyid ns short ma mi; td_isunion = is_u; td_hidden_union = any_u && not is_u; td_service = (kind = "V");
      td_attrs = List.map parse_attr attrs }
  | _ -> failwith ("bad TYPE line: " ^ l)

let () =
  try
    while true do
      let line = String.trim (input_line stdin) in
      match String.split_on_char ' ' line with
      | ["CASE"; lang; std; flavor; pod; quirk; n] ->
        let n = int_of_string n in
        let ts = List.init n (fun _ -> parse_type (String.trim (input_line stdin))) in
        let pod = pod = "1" and q = quirk = "1" in
        print_string "BEGIN\n";
        (try
          let cfg = match lang with
            | "c" -> c_cfg
            | "cpp" -> let s = (match std, flavor with "14", _ -> "c++14" | "17", "pmr" -> "c++17-pmr" | "17", _ -> "c++17" | _ -> "c++20") in
                       cpp_cfg (str_of s) (std <> "14")
            | _ -> py_cfg in
          List.iter (fun t ->
            print_string ("FILE " ^ show (out_path cfg t.td_id) ^ "\n");
            if lang = "py" then
              print_string ("IMP " ^ String.concat " " (List.map show (py_imports cfg t)) ^ "\n")
            else begin
              print_string ("INC " ^ String.concat " " (List.map show (include_list cfg q pod t)) ^ "\n");
              print_string ("GUARD " ^ show ((if lang = "c" then guard_c else guard_cpp) t.td_id) ^ "\n");
              if lang = "cpp" then begin
                print_string ("NSO " ^ String.concat " " (List.map (function TOpen x -> show x | TClose x -> "?" ^ show x) (open_ns_cpp t.td_id.ti_ns)) ^ "\n");
                print_string ("NSC " ^ String.concat " " (List.map (function TClose x -> show x | TOpen x -> "?" ^ show x) (close_ns_cpp t.td_id.ti_ns)) ^ "\n")
              end
            end) ts;
          if lang = "py" then List.iter (fun p -> print_string ("NSFILE " ^ show p ^ "\n")) (ns_outputs cfg ts);
          if not pod then List.iter (fun p -> print_string ("SUPPORT " ^ show p ^ "\n")) (support_outputs cfg)
        with e -> print_string ("ERR " ^ Printexc.to_string e ^ "\n"));
        print_string "END\n"
      | ["FACTS"] ->
        print_string ("BEGIN\nFACT c_pod_selfsufficient " ^ (if c_pod_selfsufficient then "1" else "0") ^ "\nFACT q_union_live "
                      ^ (if q_union_live then "1" else "0") ^ "\nEND\n")
      | [""] | [] -> ()
      | _ -> print_string ("BEGIN\nERR bad request: " ^ line ^ "\nEND\n")
    done
  with End_of_file -> ()
