(* C09 driver.  line protocol:  <lang: c|cpp|py>[@<k>] <id_type> <token>      (k: configuration index, 0/absent = shipped,
                                                                              k>=1 = override k-1 of Gen_Strop.cfgs_ov)
   id_type, token: 'e' (empty) or dot-separated decimal code points
   output:  <result> <flags> <oracle>
     result: ok:<token as dot-separated code points or e> | err:R (RuntimeError) | err:V (ValueError)
     flags : branch counters of the model on this input, a subset of
             E (encoding rules changed the token)  K (stropped as keyword)  P (stropped by pattern)
             H (a failure handler produced the result)  X (error)   or '-'
     oracle: for ok results, v<valid_ident>r<reserved>p<matches reserved pattern>u<und_reserved> as 0/1 digits *)
open Model

let rec pos_of_int n = if n = 1 then XH else if n land 1 = 0 then XO (pos_of_int (n lsr 1)) else XI (pos_of_int (n lsr 1))
let n_of_int n = if n = 0 then N0 else Npos (pos_of_int n)
let rec int_of_pos = function XH -> 1 | XO p -> 2 * int_of_pos p | XI p -> 2 * int_of_pos p + 1
let int_of_n = function N0 -> 0 | Npos p -> int_of_pos p

let parse s = if s = "e" then [] else List.map (fun t -> n_of_int (int_of_string t)) (String.split_on_char '.' s)
let show s = if s = [] then "e" else String.concat "." (List.map (fun c -> string_of_int (int_of_n c)) s)
let lang_of = function "c" -> LC | "cpp" -> LCpp | "py" -> LPy | s -> failwith ("lang " ^ s)
let rec nat_of_int n = if n <= 0 then O else S (nat_of_int (n - 1))
(* lang@a<k>: affix-override configuration k (Gen_Strop.cfgs_aff): only the result is printed, flags "-" *)
let lang_cfg s = match String.split_on_char '@' s with
  | [l] -> (lang_of l, O)
  | [l; k] -> (lang_of l, nat_of_int (int_of_string k))
  | _ -> failwith ("lang " ^ s)
let b x = if x then "1" else "0"

let () =
  try
    while true do
      let line = input_line stdin in
      match String.split_on_char ' ' (String.trim line) with
      | [l; ty; tok] when (match String.split_on_char '@' l with [_; k] -> String.length k > 1 && k.[0] = 'a' | _ -> false) ->
        (match String.split_on_char '@' l with
         | [ln; k] ->
           let kk = nat_of_int (int_of_string (String.sub k 1 (String.length k - 1))) in
           (match strop_aff kk (lang_of ln) (parse ty) (parse tok) with
            | Ok t -> print_string ("ok:" ^ show t ^ " - -\n")
            | ErrRuntime -> print_string "err:R X -\n"
            | ErrValue -> print_string "err:V X -\n")
         | _ -> print_string "ERR - -\n")
      | [l; ty; tok] ->
        let (l, k) = lang_cfg l and ty = parse ty and tok = parse tok in
        let r = strop_sel k l ty tok in
        (* the regenerated step list, interpreted, must give the same answer as the hand-written composition *)
        if strop_sel_pipeline k l ty tok <> r then failwith "pipeline interpretation differs from strop";
        let flags = Buffer.create 8 in
        let stage f cur ch = match f k l ty cur with
          | TOk t -> if t <> cur then Buffer.add_char flags ch; t
          | _ -> cur in
        let e = stage sel_encode tok 'E' in
        let kw = stage sel_keyword e 'K' in
        let p = stage sel_pattern kw 'P' in
        (match r with
         | Ok t -> if t <> p then Buffer.add_char flags 'H'
         | _ -> Buffer.add_char flags 'X');
        let fl = if Buffer.length flags = 0 then "-" else Buffer.contents flags in
        (match r with
         | Ok t ->
           print_string ("ok:" ^ show t ^ " " ^ fl ^ " v" ^ b (valid_ident t) ^ "r" ^ b (reserved_sel k l t)
                         ^ "p" ^ b (pattern_sel k l ty t) ^ "u" ^ b (und_reserved t) ^ "\n")
         | ErrRuntime -> print_string ("err:R " ^ fl ^ " -\n")
         | ErrValue -> print_string ("err:V " ^ fl ^ " -\n"))
      | _ -> print_string "ERR - -\n"
    done
  with End_of_file -> ()
